"""C17 translator: the arithmetic of instance placement, read out of the Python source -> Gen/C17Formulas_gen.v.

A small *symbolic interpreter* for straight-line Python (fail-closed: every statement / expression form that is not
listed below raises TranslateError) executes the real method bodies

    MatrixBase._vec_rot, MatrixBase._mat_mul, VecBase.__matmul__, VecBase.__add__ (exec template), Vec.__iadd__
    (exec template), Vec.__imatmul__, VecBase.dot, Vec.localise, to_matrix, UVAxis.vec, UVAxis.localise,
    Side.localise, Solid.localise, Angle.__imatmul__, AngleBase.__matmul__

on symbolic vectors / matrices / texture axes, inlining every call, and prints the resulting field values as Coq
terms over R (records of Rot/C17Base.v).  The decisive call sites of instancing.collapse_one / Instance.fixup_key
(entity origin, brush localise calls, VEC / direction / angle key types), the Instance.fixup_name decision table,
the FixupStyle enum and the loop shape of collapse_all are extracted too.  Theorems in Rot/C17GeomProofs.v are about
these generated definitions, so an edit of the arithmetic (a swapped index, a dropped offset, add-before-rotate, a
forgotten field) breaks a proof or a named instance obligation.

`evaluate(expr, env)` evaluates a generated expression tree with exact fractions; checks/c17.py uses it to compare
the generated formulas with the running implementation (guards this translator).
"""
from __future__ import annotations

import ast
import re
from fractions import Fraction
from typing import Any, Callable

from harness.common import TranslateError, ast_digest, src_text

# ---------------------------------------------------------------------------------------------- expressions
# ('var', coq_text) | ('const', Fraction) | ('add'|'sub'|'mul'|'div', a, b) | ('neg', a)


def coq_expr(e) -> str:
    k = e[0]
    if k == 'var':
        return e[1]
    if k == 'const':
        v: Fraction = e[1]
        if v.denominator == 1:
            return f'({v.numerator})' if v.numerator < 0 else str(v.numerator)
        return f'({v.numerator} / {v.denominator})'
    if k == 'neg':
        return f'(- {coq_expr(e[1])})'
    op = {'add': '+', 'sub': '-', 'mul': '*', 'div': '/'}[k]
    return f'({coq_expr(e[1])} {op} {coq_expr(e[2])})'


def evaluate(e, env: dict[str, Fraction]) -> Fraction:
    k = e[0]
    if k == 'var':
        return env[e[1]]
    if k == 'const':
        return e[1]
    if k == 'neg':
        return -evaluate(e[1], env)
    a, b = evaluate(e[1], env), evaluate(e[2], env)
    return a + b if k == 'add' else a - b if k == 'sub' else a * b if k == 'mul' else a / b


def is_scalar(v) -> bool:
    return isinstance(v, tuple) and v and v[0] in ('var', 'const', 'add', 'sub', 'mul', 'div', 'neg')


class SObj:
    """A symbolic object: kind + mutable fields (Python reference semantics, as in the source)."""
    def __init__(self, kind: str, fields: dict[str, Any]):
        self.kind, self.f = kind, fields

    def __repr__(self):
        return f'<{self.kind} {self.f}>'


class SClass:
    def __init__(self, kind: str):
        self.kind = kind


class SStr:
    """An opaque string value (a keyvalue); only Vec.from_str / Angle.from_str may consume it."""
    def __init__(self, name: str):
        self.name = name


KIND_OF_CLASS = {  # class names as written in the source -> symbolic kind
    'Vec': 'Vec', 'Py_Vec': 'Vec', 'VecBase': 'Vec',
    'Matrix': 'Matrix', 'Py_Matrix': 'Matrix', 'MatrixBase': 'Matrix',
    'Angle': 'Angle', 'Py_Angle': 'Angle', 'AngleBase': 'Angle',
    'UVAxis': 'UVAxis',
}
# isinstance(x, C) for a symbolic object of kind K.  Mutable kinds only: frozen twins are not what collapse uses.
ISINSTANCE = {
    'Vec': {'Vec', 'Py_Vec', 'VecBase', 'Py_VecBase'},
    'Matrix': {'Matrix', 'Py_Matrix', 'MatrixBase', 'Py_MatrixBase'},
    'Angle': {'Angle', 'Py_Angle', 'AngleBase', 'Py_AngleBase'},
    'UVAxis': {'UVAxis'}, 'Side': {'Side'}, 'Solid': {'Solid'}, 'DispVertex': {'DispVertex'},
}
KNOWN_CLASSES = {c for s in ISINSTANCE.values() for c in s} | {'FrozenVec', 'Py_FrozenVec', 'FrozenMatrix', 'Py_FrozenMatrix',
                                                                'FrozenAngle', 'Py_FrozenAngle', 'int', 'float', 'tuple'}
MRO = {'Vec': ['Vec', 'VecBase'], 'Matrix': ['Matrix', 'MatrixBase'], 'Angle': ['Angle', 'AngleBase'],
       'UVAxis': ['UVAxis'], 'Side': ['Side'], 'Solid': ['Solid']}
VEC_ALIAS = {'x': '_x', 'y': '_y', 'z': '_z'}
MAT_FIELDS = ['_aa', '_ab', '_ac', '_ba', '_bb', '_bc', '_ca', '_cb', '_cc']
BIN = {ast.Add: 'add', ast.Sub: 'sub', ast.Mult: 'mul', ast.Div: 'div'}
DUNDER = {ast.Add: '__add__', ast.MatMult: '__matmul__'}
IDUNDER = {ast.Add: '__iadd__', ast.MatMult: '__imatmul__'}


class _Return(Exception):
    def __init__(self, value):
        self.value = value


class Interp:
    def __init__(self) -> None:
        self.classes: dict[str, dict[str, ast.FunctionDef]] = {}
        self.funcs: dict[str, ast.FunctionDef] = {}
        self.uv_fields: list[str] = []
        self.opaque: dict[str, Callable[..., Any]] = {}
        self.depth = 0
        self.used: set[str] = set()      # qualified names of the bodies that were executed
        self._load_math()
        self._load_vmf()

    # ------------------------------------------------------------------ loading
    def _load_math(self) -> None:
        tree = ast.parse(src_text('math.py'))
        consts: dict[str, str] = {}
        for n in tree.body:
            if isinstance(n, ast.Assign) and len(n.targets) == 1 and isinstance(n.targets[0], ast.Name) \
                    and isinstance(n.value, ast.Constant) and isinstance(n.value.value, str):
                consts[n.targets[0].id] = n.value.value
            if isinstance(n, ast.FunctionDef):
                self.funcs[n.name] = n
            if isinstance(n, ast.ClassDef):
                d = self.classes.setdefault(n.name, {})
                for f in n.body:
                    if isinstance(f, ast.FunctionDef) and not _is_overload(f):
                        if any(isinstance(dec, ast.Attribute) and dec.attr == 'setter' for dec in f.decorator_list):
                            d['set:' + f.name] = f
                        else:
                            d[f.name] = f
                    # exec() of an operator template: for _funcname, _op in ((..),(..)): exec(TEMPLATE.format(func=.., op=..))
                    if isinstance(f, ast.For):
                        self._load_template_loop(n.name, f, consts)
        # property getters of Vec must be the plain fields (the interpreter aliases .x to ._x)
        for cls in ('VecBase', 'Vec'):
            for ax in 'xyz':
                g = self.classes.get(cls, {}).get(ax)
                if g is None or ast.unparse(_body(g)[0]) != f'return self._{ax}':
                    raise TranslateError(f'math.py: {cls}.{ax} is not the plain field getter')
        for ax in 'xyz':
            s = self.classes['Vec'].get('set:' + ax)
            if s is None or ast.unparse(_body(s)[0]) != f'self._{ax} = _coerce_float(value)':
                raise TranslateError(f'math.py: Vec.{ax} setter not recognised')
        g = self.classes['VecBase'].get('__getitem__')
        if g is None:
            raise TranslateError('math.py: VecBase.__getitem__ missing')

    def _load_template_loop(self, cls: str, loop: ast.For, consts: dict[str, str]) -> None:
        if not (isinstance(loop.iter, ast.Tuple) and len(loop.body) == 1 and isinstance(loop.body[0], ast.Expr)
                and isinstance(loop.body[0].value, ast.Call) and getattr(loop.body[0].value.func, 'id', '') == 'exec'):
            return
        call = loop.body[0].value.args[0]
        if not (isinstance(call, ast.Call) and isinstance(call.func, ast.Attribute) and call.func.attr == 'format'
                and isinstance(call.func.value, ast.Name) and call.func.value.id in consts):
            raise TranslateError(f'math.py:{loop.lineno}: exec() of something that is not TEMPLATE.format(...)')
        tname = call.func.value.id
        if 'ADDSUB' not in tname:
            return        # mul/div templates are not used by the placement code
        targets = [t.id for t in loop.target.elts] if isinstance(loop.target, ast.Tuple) else None
        if targets != ['_funcname', '_op'] or {k.arg: ast.unparse(k.value) for k in call.keywords} != {'func': '_funcname', 'op': '_op'}:
            raise TranslateError(f'math.py:{loop.lineno}: template loop shape not recognised')
        for elt in loop.iter.elts:
            func, op = (c.value for c in elt.elts)
            code = consts[tname].format(func=func, op=op)
            for f in ast.parse(code).body:
                if isinstance(f, ast.FunctionDef):
                    self.classes[cls][f.name] = f

    def _load_vmf(self) -> None:
        tree = ast.parse(src_text('vmf.py'))
        for n in tree.body:
            if isinstance(n, ast.ClassDef) and n.name in ('UVAxis', 'Side', 'Solid'):
                d = self.classes.setdefault(n.name, {})
                for f in n.body:
                    if isinstance(f, ast.FunctionDef):
                        d[f.name] = f
                    if n.name == 'UVAxis' and isinstance(f, ast.AnnAssign) and isinstance(f.target, ast.Name):
                        self.uv_fields.append(f.target.id)
        if self.uv_fields != ['x', 'y', 'z', 'offset', 'scale']:
            raise TranslateError(f'vmf.py: UVAxis fields are {self.uv_fields}')

    # ------------------------------------------------------------------ objects
    def lookup(self, kind: str, meth: str) -> tuple[str, ast.FunctionDef]:
        for c in MRO.get(kind, []):
            if meth in self.classes.get(c, {}):
                return c, self.classes[c][meth]
        raise TranslateError(f'no method {kind}.{meth} in the source')

    def construct(self, kind: str, args: list, kwargs: dict) -> SObj:
        if kind == 'Vec':
            if len(args) == 1 and isinstance(args[0], SObj) and args[0].kind == 'Vec' and not kwargs:
                return SObj('Vec', dict(args[0].f))
            if len(args) == 3 and all(is_scalar(a) for a in args) and not kwargs:
                return SObj('Vec', dict(zip(['_x', '_y', '_z'], args)))
            raise TranslateError('Vec(...) constructor call shape not recognised')
        if kind == 'UVAxis':
            vals = dict(zip(self.uv_fields, args))
            vals.update(kwargs)
            if sorted(vals) != sorted(self.uv_fields) or not all(is_scalar(v) for v in vals.values()):
                raise TranslateError('UVAxis(...) constructor call shape not recognised')
            return SObj('UVAxis', vals)
        raise TranslateError(f'constructor of {kind} not modelled')

    def getattr(self, obj, attr: str):
        if isinstance(obj, SObj):
            if obj.kind == 'Vec':
                attr = VEC_ALIAS.get(attr, attr)
            if attr in obj.f:
                return obj.f[attr]
            raise TranslateError(f'read of unknown attribute {obj.kind}.{attr}')
        raise TranslateError(f'attribute .{attr} of a non-object')

    def setattr(self, obj, attr: str, val) -> None:
        if not isinstance(obj, SObj):
            raise TranslateError(f'store to .{attr} of a non-object')
        if obj.kind == 'Vec':
            attr = VEC_ALIAS.get(attr, attr)
            if attr not in ('_x', '_y', '_z') or not is_scalar(val):
                raise TranslateError(f'bad store Vec.{attr}')
        elif obj.kind == 'Matrix':
            if attr not in MAT_FIELDS or not is_scalar(val):
                raise TranslateError(f'bad store Matrix.{attr}')
        elif obj.kind == 'UVAxis':
            # a plain attrs class: `axis.offset -= ...` on a freshly built axis is an ordinary field store
            if attr not in self.uv_fields or not is_scalar(val):
                raise TranslateError(f'bad store UVAxis.{attr}')
        elif obj.kind in ('Side', 'DispVertex', 'Solid'):
            if attr not in obj.f:
                raise TranslateError(f'store to unknown attribute {obj.kind}.{attr}')
        else:
            raise TranslateError(f'store to {obj.kind}.{attr} not modelled')
        obj.f[attr] = val

    # ------------------------------------------------------------------ calls
    def call_method(self, obj: SObj, meth: str, args: list, kwargs: dict | None = None):
        cls, fn = self.lookup(obj.kind, meth)
        self.used.add(f'{cls}.{meth}')
        return self.call_def(fn, [obj, *args], kwargs or {})

    def call_def(self, fn: ast.FunctionDef, args: list, kwargs: dict):
        self.depth += 1
        if self.depth > 12:
            raise TranslateError('inlining depth exceeded')
        a = fn.args
        if a.vararg or a.kwarg or a.posonlyargs:
            raise TranslateError(f'{fn.name}: parameter kinds not supported')
        params = [p.arg for p in a.args]
        env: dict[str, Any] = {}
        if len(args) > len(params):
            raise TranslateError(f'{fn.name}: too many arguments')
        for p, v in zip(params, args):
            env[p] = v
        for k, v in kwargs.items():
            if k not in params or k in env:
                raise TranslateError(f'{fn.name}: bad keyword {k}')
            env[k] = v
        defaults = dict(zip(params[len(params) - len(a.defaults):], a.defaults))
        for p in params:
            if p not in env:
                if p not in defaults:
                    raise TranslateError(f'{fn.name}: missing argument {p}')
                env[p] = self.eval(defaults[p], {})
        try:
            self.exec_block(_body(fn), env)
            res = None
        except _Return as r:
            res = r.value
        self.depth -= 1
        return res

    # ------------------------------------------------------------------ statements
    def exec_block(self, body: list[ast.stmt], env: dict) -> None:
        for st in body:
            self.exec(st, env)

    def exec(self, st: ast.stmt, env: dict) -> None:
        if isinstance(st, ast.Expr):
            if isinstance(st.value, ast.Constant):
                return
            if isinstance(st.value, ast.Call):
                self.eval(st.value, env)
                return
            raise TranslateError(f'line {st.lineno}: expression statement {ast.unparse(st)[:60]}')
        if isinstance(st, (ast.Assert, ast.Pass)):
            return
        if isinstance(st, ast.Return):
            raise _Return(self.eval(st.value, env) if st.value is not None else None)
        if isinstance(st, ast.AnnAssign) and st.value is not None:
            self.assign(st.target, self.eval(st.value, env), env)
            return
        if isinstance(st, ast.Assign):
            if len(st.targets) != 1:
                raise TranslateError(f'line {st.lineno}: chained assignment')
            tgt = st.targets[0]
            if isinstance(tgt, ast.Tuple):
                if not (isinstance(st.value, ast.Tuple) and len(st.value.elts) == len(tgt.elts)):
                    raise TranslateError(f'line {st.lineno}: tuple assignment from a non-tuple')
                vals = [self.eval(v, env) for v in st.value.elts]      # all right-hand sides first
                for t, v in zip(tgt.elts, vals):
                    self.assign(t, v, env)
            else:
                self.assign(tgt, self.eval(st.value, env), env)
            return
        if isinstance(st, ast.AugAssign):
            cur = self.eval(_as_load(st.target), env)
            rhs = self.eval(st.value, env)
            if isinstance(cur, SObj):
                if type(st.op) not in IDUNDER:
                    raise TranslateError(f'line {st.lineno}: augmented operator on object')
                res = self.call_method(cur, IDUNDER[type(st.op)], [rhs])
                if res is None:
                    raise TranslateError(f'line {st.lineno}: in-place operator returned nothing')
            else:
                res = self.binop(st.op, cur, rhs, st.lineno)
            self.assign(st.target, res, env)
            return
        if isinstance(st, ast.If):
            t = self.eval(st.test, env)
            if not isinstance(t, bool):
                raise TranslateError(f'line {st.lineno}: branch on a value that is not statically known: {ast.unparse(st.test)[:60]}')
            self.exec_block(st.body if t else st.orelse, env)
            return
        if isinstance(st, ast.For):
            it = self.eval(st.iter, env)
            if not isinstance(it, list) or st.orelse:
                raise TranslateError(f'line {st.lineno}: loop over something that is not a symbolic list')
            for v in it:
                self.assign(st.target, v, env)
                self.exec_block(st.body, env)
            return
        raise TranslateError(f'line {st.lineno}: statement {type(st).__name__} not supported: {ast.unparse(st)[:60]}')

    def assign(self, tgt: ast.expr, val, env: dict) -> None:
        if isinstance(tgt, ast.Name):
            env[tgt.id] = val
        elif isinstance(tgt, ast.Attribute):
            self.setattr(self.eval(tgt.value, env), tgt.attr, val)
        else:
            raise TranslateError(f'assignment target {ast.unparse(tgt)[:40]} not supported')

    # ------------------------------------------------------------------ expressions
    def binop(self, op: ast.operator, a, b, line: int):
        if is_scalar(a) and is_scalar(b) and type(op) in BIN:
            return (BIN[type(op)], a, b)
        if isinstance(a, SObj) and type(op) in DUNDER:
            return self.call_method(a, DUNDER[type(op)], [b])
        raise TranslateError(f'line {line}: operator {type(op).__name__} on these operands not supported')

    def eval(self, e: ast.expr, env: dict):
        if isinstance(e, ast.Constant):
            if e.value is None or isinstance(e.value, bool):
                return e.value
            if isinstance(e.value, (int, float)):
                return ('const', Fraction(e.value))
            raise TranslateError(f'constant {e.value!r}')
        if isinstance(e, ast.Name):
            if e.id in env:
                return env[e.id]
            if e.id in KIND_OF_CLASS:
                return SClass(KIND_OF_CLASS[e.id])
            raise TranslateError(f'line {e.lineno}: unknown name {e.id}')
        if isinstance(e, ast.Attribute):
            return self.getattr(self.eval(e.value, env), e.attr)
        if isinstance(e, ast.BinOp):
            return self.binop(e.op, self.eval(e.left, env), self.eval(e.right, env), e.lineno)
        if isinstance(e, ast.UnaryOp):
            v = self.eval(e.operand, env)
            if isinstance(e.op, ast.USub) and is_scalar(v):
                return ('neg', v)
            if isinstance(e.op, ast.Not) and isinstance(v, bool):
                return not v
            raise TranslateError(f'line {e.lineno}: unary operator')
        if isinstance(e, ast.BoolOp):
            vals = [self.eval(v, env) for v in e.values]
            if not all(isinstance(v, bool) for v in vals):
                raise TranslateError(f'line {e.lineno}: boolean operator on non-static values')
            return any(vals) if isinstance(e.op, ast.Or) else all(vals)
        if isinstance(e, ast.Compare):
            if len(e.ops) == 1 and isinstance(e.ops[0], (ast.Is, ast.IsNot)) and isinstance(e.comparators[0], ast.Constant) \
                    and e.comparators[0].value is None:
                v = self.eval(e.left, env)
                return (v is None) == isinstance(e.ops[0], ast.Is)
            raise TranslateError(f'line {e.lineno}: comparison {ast.unparse(e)[:50]}')
        if isinstance(e, ast.Subscript):
            v = self.eval(e.value, env)
            if isinstance(v, SObj) and v.kind == 'Vec' and isinstance(e.slice, ast.Constant) and e.slice.value in (0, 1, 2):
                return v.f[['_x', '_y', '_z'][e.slice.value]]     # VecBase.__getitem__(0|1|2): axis order x, y, z
            raise TranslateError(f'line {e.lineno}: subscript {ast.unparse(e)[:40]}')
        if isinstance(e, ast.Call):
            return self.eval_call(e, env)
        raise TranslateError(f'line {getattr(e, "lineno", "?")}: expression {type(e).__name__} not supported')

    def eval_call(self, e: ast.Call, env: dict):
        if any(isinstance(a, ast.Starred) for a in e.args) or any(k.arg is None for k in e.keywords):
            raise TranslateError(f'line {e.lineno}: star arguments')
        f = e.func
        # opaque hooks (site specific): matched on the unparsed callee
        callee = ast.unparse(f)
        if callee in self.opaque:
            return self.opaque[callee](*[self.eval(a, env) for a in e.args])
        if isinstance(f, ast.Name) and f.id == 'isinstance':
            if len(e.args) != 2 or e.keywords:
                raise TranslateError('isinstance()')
            args = [self.eval(e.args[0], env)]
        else:
            args = [self.eval(a, env) for a in e.args]
        kwargs = {k.arg: self.eval(k.value, env) for k in e.keywords}
        if isinstance(f, ast.Name):
            if f.id == 'isinstance':
                obj = args[0]
                cl = e.args[1]
                names = [ast.unparse(x) for x in cl.elts] if isinstance(cl, ast.Tuple) else [ast.unparse(cl)]
                if not all(n in KNOWN_CLASSES for n in names):
                    raise TranslateError(f'line {e.lineno}: isinstance against unknown class {names}')
                if isinstance(obj, SObj):
                    return any(n in ISINSTANCE[obj.kind] for n in names)
                if is_scalar(obj):
                    return any(n in ('int', 'float') for n in names)
                raise TranslateError(f'line {e.lineno}: isinstance of a non-object')
            if f.id == 'type' and len(args) == 1 and isinstance(args[0], SObj):
                return SClass(args[0].kind)
            if f.id in self.funcs:
                self.used.add(f.id)
                return self.call_def(self.funcs[f.id], args, kwargs)
            if f.id in KIND_OF_CLASS:
                return self.construct(KIND_OF_CLASS[f.id], args, kwargs)
            if f.id in env and isinstance(env[f.id], SClass):
                return self.construct(env[f.id].kind, args, kwargs)
            raise TranslateError(f'line {e.lineno}: call of unknown function {f.id}')
        if isinstance(f, ast.Call):          # type(self)(...)
            c = self.eval(f, env)
            if isinstance(c, SClass):
                return self.construct(c.kind, args, kwargs)
            raise TranslateError(f'line {e.lineno}: call of a call')
        if isinstance(f, ast.Attribute):
            recv = self.eval(f.value, env)
            if isinstance(recv, SClass) and f.attr == '__new__':
                return SObj(recv.kind, {})
            if isinstance(recv, SObj):
                return self.call_method(recv, f.attr, args, kwargs)
            raise TranslateError(f'line {e.lineno}: method call on a non-object: {callee}')
        raise TranslateError(f'line {e.lineno}: call shape not supported')


def _is_overload(f: ast.FunctionDef) -> bool:
    return any(getattr(d, 'id', '') == 'overload' for d in f.decorator_list)


def _body(f: ast.FunctionDef) -> list[ast.stmt]:
    b = f.body
    if b and isinstance(b[0], ast.Expr) and isinstance(b[0].value, ast.Constant) and isinstance(b[0].value.value, str):
        return b[1:]
    return b


def _as_load(t: ast.expr) -> ast.expr:
    c = ast.parse(ast.unparse(t), mode='eval').body
    return ast.copy_location(c, t)


# ---------------------------------------------------------------------------------------------- symbolic inputs
def sym_vec(name: str) -> SObj:
    return SObj('Vec', {'_x': ('var', f'(vx {name})'), '_y': ('var', f'(vy {name})'), '_z': ('var', f'(vz {name})')})


def sym_mat(name: str) -> SObj:
    return SObj('Matrix', {f: ('var', f'({f[1:]} {name})') for f in MAT_FIELDS})


def sym_uv(name: str) -> SObj:
    return SObj('UVAxis', {'x': ('var', f'(ux {name})'), 'y': ('var', f'(uy {name})'), 'z': ('var', f'(uz {name})'),
                           'offset': ('var', f'(uoff {name})'), 'scale': ('var', f'(uscale {name})')})


def out_vec(v) -> list:
    if not (isinstance(v, SObj) and v.kind == 'Vec' and sorted(v.f) == ['_x', '_y', '_z']):
        raise TranslateError(f'expected a vector result, got {v!r}')
    return [v.f['_x'], v.f['_y'], v.f['_z']]


def out_mat(v) -> list:
    if not (isinstance(v, SObj) and v.kind == 'Matrix' and sorted(v.f) == sorted(MAT_FIELDS)):
        raise TranslateError(f'expected a matrix result, got {v!r}')
    return [v.f[f] for f in MAT_FIELDS]


def out_uv(v) -> list:
    if not (isinstance(v, SObj) and v.kind == 'UVAxis'):
        raise TranslateError(f'expected a UVAxis result, got {v!r}')
    return [v.f[k] for k in ('x', 'y', 'z', 'offset', 'scale')]


CTOR = {3: 'V', 9: 'M', 5: 'UV', 1: ''}
RTYPE = {3: 'vec', 9: 'mat', 5: 'uvaxis', 1: 'R'}


class Emitter:
    def __init__(self) -> None:
        self.lines: list[str] = []
        self.defs: dict[str, tuple[list[tuple[str, str]], list]] = {}   # name -> (params, component exprs)

    def define(self, name: str, params: list[tuple[str, str]], comps: list, comment: str) -> None:
        self.defs[name] = (params, comps)
        ps = ' '.join(f'({p} : {t})' for p, t in params)
        body = ' '.join(coq_expr(c) for c in comps) if len(comps) == 1 else \
            CTOR[len(comps)] + '\n    ' + '\n    '.join(coq_expr(c) for c in comps)
        self.lines.append(f'(* {comment} *)')
        self.lines.append(f'Definition {name} {ps} : {RTYPE[len(comps)]} :=\n  {body}.')


# ---------------------------------------------------------------------------------------------- instancing.py sites
def _find_func(tree: ast.AST, name: str, cls: str | None = None) -> ast.FunctionDef:
    for n in ast.walk(tree):
        if cls is not None and isinstance(n, ast.ClassDef) and n.name == cls:
            for f in n.body:
                if isinstance(f, ast.FunctionDef) and f.name == name:
                    return f
        if cls is None and isinstance(n, ast.FunctionDef) and n.name == name and not _is_overload(n) \
                and not any(getattr(d, 'id', '') == 'deprecated' or getattr(getattr(d, 'func', None), 'id', '') == 'deprecated'
                            for d in n.decorator_list):
            return n
    raise TranslateError(f'function {cls + "." if cls else ""}{name} not found')


def _coq_codes(s: str) -> str:
    return '[' + ';'.join(str(ord(c)) for c in s) + ']%N'


def _fixup_name_table(fn: ast.FunctionDef) -> dict:
    """Instance.fixup_name -> guard + decision table."""
    body = _body(fn)
    if len(body) != 2 or not all(isinstance(b, ast.If) for b in body):
        raise TranslateError('fixup_name: expected a guard `if` followed by an if/elif chain')
    g = body[0]
    if not (isinstance(g.test, ast.BoolOp) and isinstance(g.test.op, ast.Or) and len(g.test.values) == 2
            and ast.unparse(g.test.values[0]) == 'not name' and ast.unparse(g.body[0]) == 'return name' and not g.orelse):
        raise TranslateError('fixup_name: guard not recognised')
    sw = g.test.values[1]
    if not (isinstance(sw, ast.Call) and ast.unparse(sw.func) == 'name.startswith' and len(sw.args) == 1):
        raise TranslateError('fixup_name: guard is not name.startswith(...)')
    a = sw.args[0]
    prefixes = [c.value for c in a.elts] if isinstance(a, ast.Tuple) else [a.value]
    if not all(isinstance(p, str) for p in prefixes):
        raise TranslateError('fixup_name: guard prefixes')
    rules = []
    node: ast.stmt | None = body[1]
    while isinstance(node, ast.If):
        t = node.test
        if not (isinstance(t, ast.Compare) and ast.unparse(t.left) == 'self.fixup_type' and len(t.ops) == 1
                and isinstance(t.ops[0], (ast.Is, ast.Eq)) and isinstance(t.comparators[0], ast.Attribute)
                and ast.unparse(t.comparators[0].value) == 'FixupStyle'):
            raise TranslateError(f'fixup_name: test `{ast.unparse(t)}` not recognised')
        style = t.comparators[0].attr
        if len(node.body) != 1 or not isinstance(node.body[0], ast.Return):
            raise TranslateError('fixup_name: branch is not a single return')
        rv = node.body[0].value
        pieces = []
        if isinstance(rv, ast.Name) and rv.id == 'name':
            pieces = [('PName',)]
        elif isinstance(rv, ast.JoinedStr):
            for v in rv.values:
                if isinstance(v, ast.Constant) and isinstance(v.value, str):
                    pieces.append(('PLit', v.value))
                elif isinstance(v, ast.FormattedValue) and v.conversion == -1 and v.format_spec is None:
                    src = ast.unparse(v.value)
                    if src == 'name':
                        pieces.append(('PName',))
                    elif src == 'self.name':
                        pieces.append(('PInst',))
                    else:
                        raise TranslateError(f'fixup_name: interpolation of {src}')
                else:
                    raise TranslateError('fixup_name: f-string piece')
        else:
            raise TranslateError(f'fixup_name: return value `{ast.unparse(rv)}`')
        rules.append((style, pieces))
        if len(node.orelse) == 1 and isinstance(node.orelse[0], ast.If):
            node = node.orelse[0]
        elif len(node.orelse) == 1 and isinstance(node.orelse[0], ast.Raise):
            node = None
        elif not node.orelse:
            node = None
        else:
            raise TranslateError('fixup_name: else branch not recognised')
    return {'prefixes': prefixes, 'rules': rules}


def _snapshot_loop_var(n: ast.For) -> str | None:
    """`for v in instances` or `for i, v in enumerate(instances[, start])` (the same elements, paired with a number): v."""
    it, tg = n.iter, n.target
    if isinstance(it, ast.Call) and isinstance(it.func, ast.Name) and it.func.id == 'enumerate' and len(it.args) in (1, 2) \
            and all(k.arg == 'start' for k in it.keywords) and isinstance(tg, ast.Tuple) and len(tg.elts) == 2:
        it, tg = it.args[0], tg.elts[1]
    if ast.unparse(it) == 'instances' and isinstance(tg, ast.Name):
        return tg.id
    return None


def _collapse_all_shape(fn: ast.FunctionDef, module: ast.Module) -> dict:
    params = [a.arg for a in fn.args.args]
    loops = [s for s in fn.body if isinstance(s, ast.For)]
    if len(loops) != 1:
        raise TranslateError('collapse_all: expected exactly one top-level loop')
    lp = loops[0]
    it = lp.iter
    bound_ok = (isinstance(it, ast.Call) and getattr(it.func, 'id', '') == 'range' and len(it.args) == 1
                and isinstance(it.args[0], ast.Name) and it.args[0].id in params)
    bound_name = it.args[0].id if bound_ok else ''
    body = lp.body
    # instances = list(vmf.by_class['func_instance']); if not instances: return
    lists_instances = bool(body) and isinstance(body[0], ast.Assign) and \
        ast.unparse(body[0]) == "instances = list(vmf.by_class['func_instance'])"
    ret_empty = len(body) > 1 and isinstance(body[1], ast.If) and ast.unparse(body[1].test) == 'not instances' \
        and len(body[1].body) == 1 and isinstance(body[1].body[0], ast.Return) and body[1].body[0].value is None
    inner = [s for s in body if isinstance(s, ast.For)]
    inner_ok = len(inner) == 1 and _snapshot_loop_var(inner[0]) is not None
    removes = collapses = False
    no_escape = True
    if inner_ok:
        var = _snapshot_loop_var(inner[0])
        for n in ast.walk(inner[0]):
            if isinstance(n, (ast.Break, ast.Continue)):
                no_escape = False
            if isinstance(n, ast.Call) and ast.unparse(n.func) == f'{var}.remove':
                removes = True
            if isinstance(n, ast.Call) and ast.unparse(n.func) == 'collapse_one' and n.args and ast.unparse(n.args[0]) == 'vmf':
                collapses = True
    for n in ast.walk(lp):
        if isinstance(n, ast.Break):
            no_escape = False
    idx = fn.body.index(lp)
    after = fn.body[idx + 1:]
    raises = len(after) == 1 and isinstance(after[0], ast.Raise) and isinstance(after[0].exc, ast.Call) \
        and getattr(after[0].exc.func, 'id', '') == 'RecursionError'
    # is the recursion counter ever compared with anything?
    consulted = False
    for n in ast.walk(module):
        if isinstance(n, ast.Compare):
            s = ast.unparse(n)
            if 'recur_count' in s or 'RECUR_COUNT_ATTR' in s:
                consulted = True
    return dict(bound_is_param=bound_ok, bound_name=bound_name, lists_instances=lists_instances, returns_when_empty=ret_empty,
                inner_loop_over_snapshot=inner_ok, removes_each=removes, collapses_each=collapses, no_break_continue=no_escape,
                raises_after_loop=raises, recur_count_consulted=consulted)


def _auto_name_counter(fn: ast.FunctionDef) -> dict:
    """Round 6 (SM/C17AutoNames.v): what collapse_all does to the variable the automatic instance names are numbered from.
    The variable is the single name formatted into `inst.name = f'...{c}'` under `if not inst.name`; events in source order:
    `c = <int>` before the loop over the passes (CInitBeforeLoop), `c += <positive int>` directly before that assignment
    (CIncrAtUse), any other binding of `c` inside the loop - assignment, loop / comprehension / with target, walrus, del -
    (CStoreInLoop).  Anything not recognised fails closed as CStoreInLoop."""
    loops = [s for s in fn.body if isinstance(s, ast.For)]
    if len(loops) != 1:
        return {'events': ['CStoreInLoop'], 'variable': None, 'why': 'no single loop over the passes'}
    lp = loops[0]
    uses = []
    for n in ast.walk(lp):
        if isinstance(n, ast.If) and ast.unparse(n.test) == 'not inst.name':
            for k, st in enumerate(n.body):
                if isinstance(st, ast.Assign) and len(st.targets) == 1 and ast.unparse(st.targets[0]) == 'inst.name':
                    uses.append((n, k, st))
    if len(uses) != 1:
        return {'events': ['CStoreInLoop'], 'variable': None, 'why': f'{len(uses)} assignments of an automatic name found'}
    if_node, k, st = uses[0]
    val = st.value
    names = sorted({x.id for x in ast.walk(val) if isinstance(x, ast.Name)})
    formatted = [x for x in ast.walk(val) if isinstance(x, ast.FormattedValue)]
    if not (isinstance(val, ast.JoinedStr) and len(names) == 1 and len(formatted) == 1 and isinstance(formatted[0].value, ast.Name)):
        return {'events': ['CStoreInLoop'], 'variable': None, 'why': f'automatic name `{ast.unparse(val)}` is not an f-string of one variable'}
    c = names[0]
    events = []
    idx = fn.body.index(lp)
    for s0 in fn.body[:idx]:
        for n in ast.walk(s0):
            if isinstance(n, ast.Name) and n.id == c and isinstance(n.ctx, (ast.Store, ast.Del)):
                ok = isinstance(s0, ast.Assign) and len(s0.targets) == 1 and s0.targets[0] is n and isinstance(s0.value, ast.Constant) \
                    and type(s0.value.value) is int
                events.append('CInitBeforeLoop' if ok else 'CStoreInLoop')
    if c in [a.arg for a in fn.args.args + fn.args.kwonlyargs]:
        events.append('CStoreInLoop')
    good_targets = set()
    if k > 0:
        prev = if_node.body[k - 1]
        if isinstance(prev, ast.AugAssign) and isinstance(prev.op, ast.Add) and isinstance(prev.target, ast.Name) and prev.target.id == c \
                and isinstance(prev.value, ast.Constant) and type(prev.value.value) is int and prev.value.value > 0:
            good_targets.add(id(prev.target))
    why = []
    for n in ast.walk(lp):
        if isinstance(n, ast.Name) and n.id == c and isinstance(n.ctx, (ast.Store, ast.Del)):
            if id(n) in good_targets:
                events.append('CIncrAtUse')
            else:
                events.append('CStoreInLoop')
                why.append(f'`{c}` bound at line {n.lineno} inside the loop over the passes')
        elif isinstance(n, (ast.Global, ast.Nonlocal)) and c in n.names:
            events.append('CStoreInLoop')
    for n in ast.walk(fn):
        if isinstance(n, (ast.FunctionDef, ast.Lambda, ast.AsyncFunctionDef)) and n is not fn:
            if any(isinstance(x, ast.Name) and x.id == c for x in ast.walk(n)):
                events.append('CStoreInLoop')
                why.append(f'`{c}` used in a nested function')
    return {'events': events, 'variable': c, 'why': '; '.join(why)}


# ---------------------------------------------------------------------------------------------- cycle repair (round 4)
def _single_defs(fn: ast.FunctionDef) -> dict[str, ast.Assign]:
    """Local names bound exactly once in `fn` by `name = expr` (any other binding of the name disqualifies it)."""
    count: dict[str, int] = {}
    defs: dict[str, ast.Assign] = {}
    for n in ast.walk(fn):
        if isinstance(n, ast.Name) and isinstance(n.ctx, (ast.Store, ast.Del)):
            count[n.id] = count.get(n.id, 0) + 1
        if isinstance(n, ast.Assign) and len(n.targets) == 1 and isinstance(n.targets[0], ast.Name):
            defs[n.targets[0].id] = n
    for a in fn.args.args + fn.args.kwonlyargs:
        count[a.arg] = count.get(a.arg, 0) + 1
    return {k: v for k, v in defs.items() if count.get(k) == 1}


def _resolve(e: ast.expr, defs: dict[str, ast.Assign], used: list[ast.Assign]) -> ast.expr:
    """Follow hoisted locals (`x = inst.filename; ... x in ...`) to the expression they stand for."""
    seen = 0
    while isinstance(e, ast.Name) and e.id in defs and seen < 20:
        used.append(defs[e.id])
        e = defs[e.id].value
        seen += 1
    return e


def _membership(test: ast.expr) -> tuple[bool, ast.expr, ast.expr] | None:
    """`a in b` -> (True, a, b); `a not in b`, `not (a in b)` -> (False, a, b); anything else -> None."""
    pol = True
    while isinstance(test, ast.UnaryOp) and isinstance(test.op, ast.Not):
        pol, test = not pol, test.operand
    if isinstance(test, ast.Compare) and len(test.ops) == 1 and isinstance(test.ops[0], (ast.In, ast.NotIn)):
        return (pol if isinstance(test.ops[0], ast.In) else not pol), test.left, test.comparators[0]
    return None


def _is_attr(e: ast.expr, obj: str, attr: str) -> bool:
    return isinstance(e, ast.Attribute) and e.attr == attr and isinstance(e.value, ast.Name) and e.value.id == obj


def _raises_recursion_error(body: list[ast.stmt]) -> bool:
    if len(body) != 1 or not isinstance(body[0], ast.Raise) or body[0].exc is None:
        return False
    exc = body[0].exc
    return getattr(exc.func if isinstance(exc, ast.Call) else exc, 'id', '') == 'RecursionError'


def _mentions_attr(node: ast.AST, attr: str) -> list[ast.Attribute]:
    return [n for n in ast.walk(node) if isinstance(n, ast.Attribute) and n.attr == attr]


def _cycle_repair(itree: ast.Module) -> dict:
    """The three sites of the ancestry check, recognised by what they compute (hoisted locals, `in`/`not in` with the
    branches swapped, if-statement vs conditional expression are the same thing); a use of `.parents` or of the hidden
    attribute that is not one of the recognised sites is not followed: fail closed."""
    FIELD = 'parents'
    info: dict = {}
    call = _find_func(itree, 'collapse_all')
    c1 = _find_func(itree, 'collapse_one')
    init = _find_func(itree, '__init__', 'Instance')
    from_ent = _find_func(itree, 'from_entity', 'Instance')

    # ---- Instance.from_entity: inst.parents = getattr(ent, <ATTR>, ()) ; Instance.__init__: self.parents = ()
    def empty_tuple(e: ast.expr) -> bool:
        return (isinstance(e, ast.Tuple) and not e.elts) or (isinstance(e, ast.Call) and getattr(e.func, 'id', '') == 'tuple'
                                                             and not e.args and not e.keywords)

    def attr_key(e: ast.expr) -> str | None:
        """The hidden attribute's name: a module constant (by its name) or a string literal."""
        if isinstance(e, ast.Name):
            vals = [n.value for n in itree.body if isinstance(n, ast.Assign) and len(n.targets) == 1
                    and isinstance(n.targets[0], ast.Name) and n.targets[0].id == e.id]
            if len(vals) == 1 and isinstance(vals[0], ast.Constant) and isinstance(vals[0].value, str):
                return vals[0].value
            return None
        if isinstance(e, ast.Constant) and isinstance(e.value, str):
            return e.value
        return None

    ent_param = from_ent.args.args[1].arg if len(from_ent.args.args) > 1 else ''
    reads = []
    for n in ast.walk(from_ent):
        if isinstance(n, ast.Assign) and len(n.targets) == 1 and isinstance(n.targets[0], ast.Attribute) and n.targets[0].attr == FIELD:
            reads.append(n)
    key_read = None
    read_ok = False
    if len(reads) == 1:
        v = reads[0].value
        if isinstance(v, ast.Call) and getattr(v.func, 'id', '') == 'getattr' and len(v.args) == 3 and not v.keywords \
                and isinstance(v.args[0], ast.Name) and v.args[0].id == ent_param and empty_tuple(v.args[2]):
            key_read = attr_key(v.args[1])
            read_ok = key_read is not None
    init_sets = [n for n in ast.walk(init) if isinstance(n, ast.Assign) and len(n.targets) == 1 and _is_attr(n.targets[0], 'self', FIELD)]
    init_ok = len(init_sets) == 1 and empty_tuple(init_sets[0].value)
    # nothing else stores into .parents, nothing else touches the hidden attribute
    allowed = {id(x) for x in reads + init_sets}
    other_stores = []
    for n in ast.walk(itree):
        if isinstance(n, (ast.Assign, ast.AugAssign, ast.AnnAssign)) and id(n) not in allowed:
            tgts = n.targets if isinstance(n, ast.Assign) else [n.target]
            if any(isinstance(t, ast.Attribute) and t.attr == FIELD for t in tgts):
                other_stores.append(n.lineno)
    info['parents_read_line'] = reads[0].lineno if reads else None
    roundtrip = read_ok and init_ok and not other_stores

    # ---- collapse_one: setattr(<entity>, <ATTR>, parents + (filename,) if '$' not in <entity>['file'] else ())
    inst_param = c1.args.args[1].arg if len(c1.args.args) > 1 else ''
    loops = [n for n in c1.body if isinstance(n, ast.For) and ast.unparse(n.target) == 'new_ent' and ast.unparse(n.iter) == 'new_ents']
    if len(loops) != 1:
        raise TranslateError('collapse_one: the per-entity loop `for new_ent in new_ents` not found')
    ploop = loops[0]
    ent_var = 'new_ent'
    defs1 = _single_defs(c1)
    writes = [n for n in ast.walk(itree) if isinstance(n, ast.Call) and getattr(n.func, 'id', '') == 'setattr' and len(n.args) == 3
              and key_read is not None and attr_key(n.args[1]) == key_read]
    in_loop = {id(x) for x in ast.walk(ploop)}
    extended = False
    why = 'no setattr of the hidden attribute in the per-entity loop'
    if any(id(w) not in in_loop for w in writes):
        raise TranslateError('instancing.py: the hidden parents attribute is written outside the per-entity loop of collapse_one')
    # line of the first place where a keyvalue of the new entity is rewritten: the `file` value must be read before it
    first_store = min([n.lineno for n in ast.walk(ploop) if isinstance(n, ast.Subscript) and isinstance(n.ctx, ast.Store)
                       and isinstance(n.value, ast.Name) and n.value.id == ent_var] or [10 ** 9])
    nested_loops = [n for n in ast.walk(ploop) if isinstance(n, (ast.For, ast.While)) and n is not ploop]

    def straight_line(node: ast.AST) -> bool:
        return node.lineno < first_store and not any(id(node) in {id(x) for x in ast.walk(lp)} for lp in nested_loops)

    def is_parents_plus_file(e: ast.expr, used: list) -> bool:
        e = _resolve(e, defs1, used)
        if isinstance(e, ast.BinOp) and isinstance(e.op, ast.Add):
            l, r = _resolve(e.left, defs1, used), _resolve(e.right, defs1, used)
            return _is_attr(l, inst_param, FIELD) and isinstance(r, ast.Tuple) and len(r.elts) == 1 \
                and _is_attr(_resolve(r.elts[0], defs1, used), inst_param, 'filename')
        if isinstance(e, ast.Tuple) and len(e.elts) == 2 and isinstance(e.elts[0], ast.Starred):
            return _is_attr(_resolve(e.elts[0].value, defs1, used), inst_param, FIELD) \
                and _is_attr(_resolve(e.elts[1], defs1, used), inst_param, 'filename')
        return False

    def raw_file(e: ast.expr, used: list) -> bool:
        e = _resolve(e, defs1, used)
        return isinstance(e, ast.Subscript) and isinstance(e.value, ast.Name) and e.value.id == ent_var \
            and isinstance(e.slice, ast.Constant) and isinstance(e.slice.value, str) and e.slice.value.casefold() == 'file'

    def dollar(e: ast.expr, used: list) -> bool:
        e = _resolve(e, defs1, used)
        return isinstance(e, ast.Constant) and e.value == '$'

    # normalise to (test, value if test, value otherwise)
    cands: list[tuple[ast.expr, ast.expr, ast.expr, ast.AST]] = []
    if len(writes) == 1 and isinstance(writes[0].args[2], ast.IfExp):
        w = writes[0]
        cands.append((w.args[2].test, w.args[2].body, w.args[2].orelse, w))
    elif len(writes) == 1:
        used0: list = []
        v = _resolve(writes[0].args[2], defs1, used0)
        if isinstance(v, ast.IfExp) and all(straight_line(u) for u in used0):
            cands.append((v.test, v.body, v.orelse, writes[0]))
        else:
            why = 'the value stored is not conditional on the `file` value'
    elif len(writes) == 2:
        for st in ast.walk(ploop):
            if isinstance(st, ast.If) and len(st.body) == 1 and len(st.orelse) == 1 and all(
                    isinstance(b, ast.Expr) and b.value in writes for b in (st.body[0], st.orelse[0])) \
                    and st.body[0].value is not st.orelse[0].value:
                cands.append((st.test, st.body[0].value.args[2], st.orelse[0].value.args[2], st))
        if not cands:
            why = 'two setattr sites that are not the two arms of one if statement'
    elif len(writes) > 2:
        raise TranslateError('collapse_one: more than two writes of the hidden parents attribute')
    if cands:
        test, v_true, v_false, site = cands[0]
        used: list = []
        m = _membership(_resolve(test, defs1, used))
        tgt_ok = all(isinstance(w.args[0], ast.Name) and w.args[0].id == ent_var for w in writes)
        if m is None:
            why = f'test `{ast.unparse(test)}` is not a membership test'
        else:
            has_dollar, needle, hay = m
            v_static, v_dynamic = (v_false, v_true) if has_dollar else (v_true, v_false)
            checks = {'target is the new entity': tgt_ok, "tests for '$'": dollar(needle, used), "in the entity's `file` value": raw_file(hay, used),
                      'static link: parents + (filename,)': is_parents_plus_file(v_static, used),
                      'dynamic link: ()': empty_tuple(_resolve(v_dynamic, defs1, used)),
                      'reads the value before any keyvalue is rewritten': straight_line(site) and all(straight_line(u) for u in used)}
            extended = all(checks.values())
            why = 'ok' if extended else 'failed: ' + ', '.join(k for k, v in checks.items() if not v)
    info['parents_extended_detail'] = why

    # ---- collapse_all: if inst.filename in inst.parents: raise RecursionError  (before collapse_one is reached)
    defs_all = _single_defs(call)
    inner = [n for n in ast.walk(call) if isinstance(n, ast.For) and _snapshot_loop_var(n) is not None]
    check = False
    why2 = 'collapse_all does not look at .parents'
    mentions = _mentions_attr(call, FIELD)
    if mentions:
        if len(inner) != 1:
            raise TranslateError('collapse_all: `.parents` is used but the loop over the snapshot was not found')
        body = inner[0].body
        var = _snapshot_loop_var(inner[0])
        recognised: list[tuple[int, ast.If, bool]] = []      # (index in body, statement, raise is in the orelse branch)
        for i, st in enumerate(body):
            if not isinstance(st, ast.If):
                continue
            used2: list = []
            m = _membership(_resolve(st.test, defs_all, used2))
            if m is None:
                continue
            pol, needle, hay = m
            needle, hay = _resolve(needle, defs_all, used2), _resolve(hay, defs_all, used2)
            if not (isinstance(needle, ast.Attribute) and isinstance(hay, ast.Attribute) and needle.attr == 'filename' and hay.attr == FIELD
                    and isinstance(needle.value, ast.Name) and isinstance(hay.value, ast.Name) and needle.value.id == hay.value.id):
                continue
            obj = needle.value.id
            src = defs_all.get(obj)
            from_entity = src is not None and isinstance(src.value, ast.Call) and ast.unparse(src.value.func).endswith('.from_entity') \
                and len(src.value.args) == 1 and isinstance(src.value.args[0], ast.Name) and src.value.args[0].id == var
            raise_branch, other_branch = (st.body, st.orelse) if pol else (st.orelse, st.body)
            if from_entity and _raises_recursion_error(raise_branch) and all(u in body[:i] for u in used2 + [src]):
                recognised.append((i, st, not pol))
        covered = {id(x) for _, st, _ in recognised for x in ast.walk(st.test)}
        for _, st, _ in recognised:          # hoisted operands of the recognised test
            used3: list = []
            m = _membership(_resolve(st.test, defs_all, used3))
            for side_e in (m[1], m[2]):
                _resolve(side_e, defs_all, used3)
            covered |= {id(x) for u in used3 for x in ast.walk(u)}
        if any(id(a) not in covered for a in mentions):
            raise TranslateError('collapse_all: `.parents` is used in a way that is not the recognised ancestry check')
        if len(recognised) != 1:
            raise TranslateError('collapse_all: more than one ancestry check')
        i, st, swapped = recognised[0]
        call_idx = [j for j, s2 in enumerate(body) for n in ast.walk(s2) if isinstance(n, ast.Call) and ast.unparse(n.func) == 'collapse_one']
        obj = _resolve(_membership(_resolve(st.test, defs_all, []))[1], defs_all, []).value.id
        same_inst = all(len(n.args) > 1 and isinstance(n.args[1], ast.Name) and n.args[1].id == obj
                        for s2 in body for n in ast.walk(s2) if isinstance(n, ast.Call) and ast.unparse(n.func) == 'collapse_one')
        # the instance is bound once (single definition); its filename / parents must not be assigned in collapse_all
        untouched = not any(isinstance(n, ast.Attribute) and isinstance(n.ctx, (ast.Store, ast.Del)) and n.attr in ('filename', FIELD)
                            for n in ast.walk(call))
        before_call = bool(call_idx) and all(j > i or (j == i and swapped) for j in call_idx)
        check = before_call and same_inst and untouched
        why2 = 'ok' if check else 'the check is not in front of the collapse_one call of the same instance'
    info['ancestry_check_detail'] = why2
    return dict(ancestry_check=check, parents_extended=extended, parents_roundtrip=roundtrip, detail=info)


ITER_ADAPTERS = ('reversed', 'sorted', 'list', 'tuple', 'iter', 'enumerate')


def _strip_adapters(it: ast.expr, target: ast.expr) -> tuple[ast.expr, ast.expr]:
    """`for t in reversed(x)` / sorted / list / tuple / iter hand out the elements of x, `for i, t in enumerate(x)` pairs them
    with a number: the iterable and the target that receives its elements."""
    while isinstance(it, ast.Call) and isinstance(it.func, ast.Name) and len(it.args) == 1 and not it.keywords and it.func.id in ITER_ADAPTERS:
        if it.func.id == 'enumerate':
            if not (isinstance(target, ast.Tuple) and len(target.elts) == 2):
                break
            target = target.elts[1]
        it = it.args[0]
    return it, target


def _template_census(fn: ast.FunctionDef) -> dict:
    """Every use of an object that belongs to the template (file.vmf...) inside collapse_one."""
    tmpl_names = {'file'}
    # loop variables bound from file.vmf.* or from a template object
    changed = True
    loops = [n for n in ast.walk(fn) if isinstance(n, ast.For)]
    aliases = _single_assigned_locals(fn)        # `template = file.vmf`: the local stands for the template object too
    def _chain_root(e: ast.AST) -> str | None:
        while isinstance(e, (ast.Attribute, ast.Subscript)):
            e = e.value
        return e.id if isinstance(e, ast.Name) else None
    while changed:
        changed = False
        for nm_, val_ in aliases.items():
            if nm_ not in tmpl_names and isinstance(val_, (ast.Attribute, ast.Subscript)) and _chain_root(val_) in tmpl_names:
                tmpl_names.add(nm_)
                changed = True
        for lp in loops:
            lp_iter, lp_target = _strip_adapters(lp.iter, lp.target)
            src = ast.unparse(lp_iter)
            roots = {n.id for n in ast.walk(lp_iter) if isinstance(n, ast.Name)}
            if roots & tmpl_names:
                if isinstance(lp_target, ast.Name):
                    new = {lp_target.id}
                elif isinstance(lp_target, ast.Tuple) and src.startswith('zip('):
                    # zip(old_ent.solids, new_ent.solids): only positions whose argument is rooted in the template
                    new = set()
                    for t, a in zip(lp_target.elts, lp_iter.args):
                        if {n.id for n in ast.walk(a) if isinstance(n, ast.Name)} & tmpl_names and isinstance(t, ast.Name):
                            new.add(t.id)
                else:
                    raise TranslateError(f'collapse_one: loop target at line {lp.lineno}')
                if not new <= tmpl_names:
                    tmpl_names |= new
                    changed = True
    calls, stores = [], []
    for n in ast.walk(fn):
        if isinstance(n, ast.Call) and isinstance(n.func, ast.Attribute):
            root = n.func.value
            while isinstance(root, (ast.Attribute, ast.Subscript)):
                root = root.value
            if isinstance(root, ast.Name) and root.id in tmpl_names:
                calls.append((ast.unparse(n.func.value), n.func.attr, n.lineno))
        tg = []
        if isinstance(n, ast.Assign):
            tg = n.targets
        elif isinstance(n, (ast.AugAssign, ast.AnnAssign)):
            tg = [n.target]
        elif isinstance(n, ast.Delete):
            tg = n.targets
        for t in tg:
            for el in (t.elts if isinstance(t, ast.Tuple) else [t]):
                if isinstance(el, (ast.Attribute, ast.Subscript)):
                    root = el.value
                    while isinstance(root, (ast.Attribute, ast.Subscript)):
                        root = root.value
                    if isinstance(root, ast.Name) and root.id in tmpl_names:
                        stores.append((ast.unparse(el), n.lineno))
    return {'names': sorted(tmpl_names), 'calls': calls, 'stores': stores}


def _fixup_key_branches(fn: ast.FunctionDef) -> list[tuple[list[str], ast.If]]:
    out = []
    node = None
    for st in _body(fn):
        if isinstance(st, ast.If):
            node = st
            break
    while isinstance(node, ast.If):
        names = []
        tests = node.test.values if isinstance(node.test, ast.BoolOp) and isinstance(node.test.op, ast.Or) else [node.test]
        for t in tests:
            if isinstance(t, ast.Compare) and ast.unparse(t.left) == 'type' and isinstance(t.ops[0], ast.Is) \
                    and ast.unparse(t.comparators[0]).startswith('ValueTypes.'):
                names.append(t.comparators[0].attr)
            elif ast.unparse(t) == 'type.is_ent_name':
                names.append('<is_ent_name>')
            else:
                raise TranslateError(f'fixup_key: test `{ast.unparse(t)}` not recognised')
        out.append((names, node))
        node = node.orelse[0] if len(node.orelse) == 1 and isinstance(node.orelse[0], ast.If) else None
    return out


# ---------------------------------------------------------------------------------------------- EntityFixup.substitute
IDENT_RE = '[a-z_][a-z0-9_]*'


def _single_assigned_locals(fn: ast.FunctionDef) -> dict[str, ast.expr]:
    """Names bound exactly once in [fn] (nested functions not entered), by a plain `name = expr` / `name: T = expr`."""
    counts: dict[str, int] = {}
    vals: dict[str, ast.expr] = {}

    def visit(node: ast.AST) -> None:
        for ch in ast.iter_child_nodes(node):
            if isinstance(ch, (ast.FunctionDef, ast.AsyncFunctionDef, ast.ClassDef, ast.Lambda)):
                if hasattr(ch, 'name'):
                    counts[ch.name] = counts.get(ch.name, 0) + 2
                continue
            if isinstance(ch, ast.Name) and isinstance(ch.ctx, (ast.Store, ast.Del)):
                counts[ch.id] = counts.get(ch.id, 0) + 1
            if isinstance(ch, ast.ExceptHandler) and ch.name:
                counts[ch.name] = counts.get(ch.name, 0) + 2
            if isinstance(ch, (ast.ListComp, ast.SetComp, ast.DictComp, ast.GeneratorExp)):
                continue                  # comprehension variables are their own scope
            if isinstance(ch, ast.Assign) and len(ch.targets) == 1 and isinstance(ch.targets[0], ast.Name):
                vals[ch.targets[0].id] = ch.value
            elif isinstance(ch, ast.AnnAssign) and isinstance(ch.target, ast.Name) and ch.value is not None:
                vals[ch.target.id] = ch.value
            elif isinstance(ch, (ast.AugAssign, ast.For, ast.With, ast.NamedExpr)):
                for n in ast.walk(ch.target if hasattr(ch, 'target') else ch):
                    if isinstance(n, ast.Name) and isinstance(n.ctx, ast.Store):
                        counts[n.id] = counts.get(n.id, 0) + 1      # counted twice with the generic rule: never "once"
            visit(ch)
    visit(fn)
    args = {a.arg for a in fn.args.args + fn.args.kwonlyargs + fn.args.posonlyargs}
    return {k: v for k, v in vals.items() if counts.get(k) == 1 and k not in args}


def _module_str_consts(tree: ast.Module) -> dict[str, str]:
    out: dict[str, str] = {}
    seen: dict[str, int] = {}
    for n in tree.body:
        tg = n.targets[0] if isinstance(n, ast.Assign) and len(n.targets) == 1 else n.target if isinstance(n, ast.AnnAssign) else None
        if isinstance(tg, ast.Name):
            seen[tg.id] = seen.get(tg.id, 0) + 1
            if isinstance(n.value, ast.Constant) and isinstance(n.value.value, str):
                out[tg.id] = n.value.value
    return {k: v for k, v in out.items() if seen[k] == 1}


MUTATING_METHODS = {'append', 'extend', 'insert', 'add', 'update', 'pop', 'popitem', 'remove', 'discard', 'clear', 'sort', 'reverse',
                    'setdefault', '__setitem__', '__delitem__'}
KEY_ITERS = ('self._fixup.keys()', 'self._fixup', 'list(self._fixup)', 'list(self._fixup.keys())', 'iter(self._fixup)',
             'tuple(self._fixup)', 'tuple(self._fixup.keys())')


def _subst_pattern(fn: ast.FunctionDef, module: ast.Module) -> dict:
    """How EntityFixup.substitute builds its regular expression: the list of alternatives is *evaluated symbolically*
    (list(map(...)), comprehension, generator, append-loop, literal lists, +, +=, append / extend / insert, locals bound
    once and module-level string constants inlined), so that equivalent spellings give the same configuration.
    -> longest_first, ident_fallback, bang_group, ignore_case."""
    locs_all = _single_assigned_locals(fn)
    # never inline a local that is modified after it is bound (sections.append(...), x[k] = ..., del x[k])
    mutated = {n.func.value.id for n in ast.walk(fn) if isinstance(n, ast.Call) and isinstance(n.func, ast.Attribute)
               and isinstance(n.func.value, ast.Name) and n.func.attr in MUTATING_METHODS}
    mutated |= {n.value.id for n in ast.walk(fn) if isinstance(n, ast.Subscript) and isinstance(n.ctx, (ast.Store, ast.Del))
                and isinstance(n.value, ast.Name)}
    locs = {k: v for k, v in locs_all.items() if k not in mutated}
    consts = _module_str_consts(module)
    cfg: dict[str, Any] = {}

    def res(e: ast.expr) -> ast.expr:
        """Inline locals bound once (one level at a time)."""
        seen = 0
        while isinstance(e, ast.Name) and e.id in locs and seen < 8:
            e = locs[e.id]
            seen += 1
        return e

    def as_str(e: ast.expr) -> str | None:
        e = res(e)
        if isinstance(e, ast.Constant) and isinstance(e.value, str):
            return e.value
        if isinstance(e, ast.Name) and e.id in consts:
            return consts[e.id]
        return None

    def len_key(e: ast.expr) -> str | None:
        """'len' / 'neglen' for key=len, key=lambda k: len(k), key=lambda k: -len(k)."""
        e = res(e)
        if isinstance(e, ast.Name) and e.id == 'len':
            return 'len'
        if isinstance(e, ast.Lambda) and len(e.args.args) == 1 and not (e.args.vararg or e.args.kwarg or e.args.kwonlyargs or e.args.defaults):
            a = e.args.args[0].arg
            if ast.unparse(e.body) == f'len({a})':
                return 'len'
            if ast.unparse(e.body) == f'-len({a})':
                return 'neglen'
        return None

    def keys_iter(e: ast.expr) -> bool:
        """An iterable over the defined variable names -> are they ordered longest first?"""
        e = res(e)
        src = ast.unparse(e)
        # `fixup = self._fixup` style aliases
        for nm, val in locs_all.items():
            if ast.unparse(val) == 'self._fixup':
                src = re.sub(rf'\b{re.escape(nm)}\b', 'self._fixup', src)
        if src in KEY_ITERS:
            return False
        if isinstance(e, ast.Call) and ast.unparse(e.func) == 'sorted' and len(e.args) == 1:
            keys_iter(e.args[0])          # must itself be an iteration over the names
            kw = {k.arg: k.value for k in e.keywords}
            if not set(kw) <= {'key', 'reverse'}:
                raise TranslateError(f'substitute: sorted(...) arguments {sorted(map(str, kw))} not recognised')
            rev = res(kw['reverse']) if 'reverse' in kw else ast.Constant(False)
            if not (isinstance(rev, ast.Constant) and isinstance(rev.value, bool)):
                raise TranslateError('substitute: sorted(reverse=...) is not a literal')
            if 'key' not in kw:
                return False              # alphabetical: not by length
            lk = len_key(kw['key'])
            if lk is None:
                raise TranslateError(f'substitute: sort key `{ast.unparse(kw["key"])[:40]}` not recognised')
            return (lk == 'len') == rev.value
        raise TranslateError(f'substitute: alternatives `{src[:60]}` not recognised')

    def escaped_over(elt: ast.expr, target: ast.expr, it: ast.expr) -> list:
        if not isinstance(target, ast.Name):
            raise TranslateError('substitute: loop target over the variable names')
        if not (isinstance(elt, ast.Call) and ast.unparse(elt.func) == 're.escape' and len(elt.args) == 1 and not elt.keywords
                and isinstance(elt.args[0], ast.Name) and elt.args[0].id == target.id):
            raise TranslateError(f'substitute: the alternative `{ast.unparse(elt)[:40]}` is not re.escape(<name>)')
        return [('KEYS', keys_iter(it))]

    def sym(e: ast.expr, env: dict[str, list]) -> list:
        if isinstance(e, ast.Name) and e.id in env:
            return list(env[e.id])
        e = res(e)
        if isinstance(e, (ast.List, ast.Tuple)):
            out: list = []
            for x in e.elts:
                if isinstance(x, ast.Starred):
                    out += sym(x.value, env)
                else:
                    s_ = as_str(x)
                    if s_ is None:
                        raise TranslateError(f'substitute: alternative `{ast.unparse(x)[:40]}` is not a string constant')
                    out.append(('LIT', s_))
            return out
        if isinstance(e, ast.BinOp) and isinstance(e.op, ast.Add):
            return sym(e.left, env) + sym(e.right, env)
        if isinstance(e, ast.Call) and ast.unparse(e.func) in ('list', 'tuple') and len(e.args) == 1 and not e.keywords:
            return sym(e.args[0], env)
        if isinstance(e, ast.Call) and ast.unparse(e.func) == 'map' and len(e.args) == 2 and not e.keywords:
            if ast.unparse(e.args[0]) != 're.escape':
                raise TranslateError(f'substitute: map({ast.unparse(e.args[0])[:30]}, ...) over the names is not re.escape')
            return [('KEYS', keys_iter(e.args[1]))]
        if isinstance(e, (ast.ListComp, ast.GeneratorExp)) and len(e.generators) == 1 and not e.generators[0].ifs \
                and not e.generators[0].is_async:
            g = e.generators[0]
            return escaped_over(e.elt, g.target, g.iter)
        raise TranslateError(f'substitute: list of alternatives `{ast.unparse(e)[:60]}` not recognised')

    # --- re.compile(pattern, flags)
    comp = [n for n in ast.walk(fn) if isinstance(n, ast.Call) and ast.unparse(n.func) == 're.compile']
    if len(comp) != 1 or not (comp[0].args or any(k.arg == 'pattern' for k in comp[0].keywords)):
        raise TranslateError('substitute: re.compile(...) not found')
    ckw = {k.arg: k.value for k in comp[0].keywords}
    if not set(ckw) <= {'pattern', 'flags'} or len(comp[0].args) + len(ckw) > 2:
        raise TranslateError('substitute: re.compile() arguments')
    pat = res(comp[0].args[0] if comp[0].args else ckw['pattern'])
    flag_e = comp[0].args[1] if len(comp[0].args) > 1 else ckw.get('flags')
    if not isinstance(pat, ast.JoinedStr):
        raise TranslateError('substitute: the pattern is not an f-string')
    # flatten the f-string: constants (module constants / locals inlined) and exactly one '|'.join(<list>)
    prefix, suffix, join_arg = '', '', None
    for part in pat.values:
        if isinstance(part, ast.Constant) and isinstance(part.value, str):
            txt = part.value
        elif isinstance(part, ast.FormattedValue) and part.conversion == -1 and part.format_spec is None:
            v = res(part.value)
            txt = as_str(v)
            if txt is None:
                if not (isinstance(v, ast.Call) and isinstance(v.func, ast.Attribute) and v.func.attr == 'join' and as_str(v.func.value) == '|'
                        and len(v.args) == 1 and not v.keywords and join_arg is None):
                    raise TranslateError(f'substitute: pattern piece `{ast.unparse(part.value)[:40]}` not recognised')
                join_arg = v.args[0]
                continue
        else:
            raise TranslateError('substitute: pattern piece')
        if join_arg is None:
            prefix += txt
        else:
            suffix += txt
    if join_arg is None or suffix != ')':
        raise TranslateError('substitute: pattern is not <prefix>(<alternatives joined by |>)')
    if prefix == '(!)?\\$(':
        cfg['bang_group'] = True
    elif prefix == '\\$(':
        cfg['bang_group'] = False
    else:
        raise TranslateError(f'substitute: pattern prefix {prefix!r} not recognised')
    flags = [] if flag_e is None else [ast.unparse(res(flag_e))]
    if flags not in ([], ['re.IGNORECASE'], ['re.I']):
        raise TranslateError(f'substitute: regex flags {flags}')
    cfg['ignore_case'] = bool(flags)

    # --- the list that is joined: evaluate the statements that build it, in order
    env: dict[str, list] = {}
    if isinstance(join_arg, ast.Name) and join_arg.id not in locs:      # a list built by statements
        lname = join_arg.id

        def touches(n: ast.AST) -> bool:
            return any(isinstance(x, ast.Name) and x.id == lname for x in ast.walk(n))

        def find_block(body: list[ast.stmt]) -> list[ast.stmt] | None:
            """The one statement list that holds every statement mentioning the list variable."""
            mine = [st for st in body if not isinstance(st, (ast.FunctionDef, ast.ClassDef)) and touches(st)]
            if not mine:
                return None
            if len(mine) == 1 and not isinstance(mine[0], (ast.Assign, ast.AnnAssign, ast.AugAssign, ast.Expr, ast.For)):
                st = mine[0]
                if isinstance(st, ast.If) and not touches(st.test) and not any(touches(x) for x in st.orelse):
                    return find_block(st.body)
                raise TranslateError(f'substitute: `{lname}` is built inside a `{type(st).__name__}` statement that is not understood')
            return body
        blk = find_block(fn.body)
        if blk is None:
            raise TranslateError(f'substitute: `{lname}` is never built')
        alts = None
        for st in blk:
            if isinstance(st, (ast.FunctionDef, ast.ClassDef)) or not touches(st):
                continue
            if any(n is join_arg for n in ast.walk(st)):
                # the statement in which the list is joined: its value *here* is what the pattern is made of
                if lname not in env or isinstance(st, ast.For):
                    raise TranslateError(f'substitute: `{lname}` joined before it is built')
                alts = list(env[lname])
                break
            if isinstance(st, (ast.Assign, ast.AnnAssign)):
                tg = st.targets[0] if isinstance(st, ast.Assign) and len(st.targets) == 1 else getattr(st, 'target', None)
                if isinstance(tg, ast.Name) and tg.id == lname and st.value is not None:
                    env[lname] = sym(st.value, env)
                    continue
                raise TranslateError(f'substitute: `{ast.unparse(st)[:60]}` uses `{lname}` in a way that is not understood')
            if lname not in env:
                raise TranslateError(f'substitute: `{lname}` used before it is assigned')
            if isinstance(st, ast.AugAssign) and isinstance(st.target, ast.Name) and st.target.id == lname and isinstance(st.op, ast.Add):
                env[lname] = env[lname] + sym(st.value, env)
                continue
            if isinstance(st, ast.Expr) and isinstance(st.value, ast.Call) and isinstance(st.value.func, ast.Attribute) \
                    and isinstance(st.value.func.value, ast.Name) and st.value.func.value.id == lname and not st.value.keywords:
                meth, a = st.value.func.attr, st.value.args
                if meth == 'append' and len(a) == 1:
                    env[lname] = env[lname] + sym(ast.List(elts=[a[0]], ctx=ast.Load()), env)
                    continue
                if meth == 'extend' and len(a) == 1:
                    env[lname] = env[lname] + sym(a[0], env)
                    continue
                if meth == 'insert' and len(a) == 2 and isinstance(a[0], ast.Constant) and isinstance(a[0].value, int):
                    cur = env[lname]
                    cur.insert(a[0].value, sym(ast.List(elts=[a[1]], ctx=ast.Load()), env)[0])
                    continue
            if isinstance(st, ast.For) and not st.orelse and len(st.body) == 1 and isinstance(st.body[0], ast.Expr) \
                    and isinstance(st.body[0].value, ast.Call) and ast.unparse(st.body[0].value.func) == f'{lname}.append' \
                    and len(st.body[0].value.args) == 1 and not touches(st.iter):
                env[lname] = env[lname] + escaped_over(st.body[0].value.args[0], st.target, st.iter)
                continue
            raise TranslateError(f'substitute: `{ast.unparse(st)[:60]}` uses `{lname}` in a way that is not understood')
        if alts is None:
            raise TranslateError(f'substitute: `{lname}` is not joined in the block that builds it')
    else:
        alts = sym(join_arg, env)
    if alts and alts[0][0] == 'KEYS' and len(alts) == 1:
        cfg['longest_first'], cfg['ident_fallback'] = alts[0][1], False
    elif len(alts) == 2 and alts[0][0] == 'KEYS' and alts[1] == ('LIT', IDENT_RE):
        cfg['longest_first'], cfg['ident_fallback'] = alts[0][1], True
    else:
        raise TranslateError(f'substitute: the alternatives {alts} are not <defined names>[, identifier fallback]')
    return cfg


def _substitute_cfg() -> dict:
    """The shape of the regular expression and of the replacer of EntityFixup.substitute -> subst_cfg (SM/C17Subst.v)."""
    vtree = ast.parse(src_text('vmf.py'))
    fn = _find_func(vtree, 'substitute', 'EntityFixup')
    cfg: dict[str, Any] = {}
    cfg.update(_subst_pattern(fn, vtree))
    # the pattern object that is compiled is the one that is used, on the text, with the replacer
    subs = [n for n in ast.walk(fn) if isinstance(n, ast.Call) and isinstance(n.func, ast.Attribute) and n.func.attr in ('sub', 'subn')]
    if len(subs) != 1 or ast.unparse(subs[0]) != 'self._matcher.sub(replacer, text)':
        raise TranslateError('substitute: `self._matcher.sub(replacer, text)` not found')
    rep = [n for n in fn.body if isinstance(n, ast.FunctionDef) and n.name == 'replacer']
    if len(rep) != 1:
        raise TranslateError('substitute: replacer() not found')
    rb = _body(rep[0])
    if not (len(rb) == 4 and ast.unparse(rb[0]) == 'has_inv, varname = match.groups()' and isinstance(rb[1], ast.Try)
            and isinstance(rb[2], ast.If) and ast.unparse(rb[3]) == 'return res'):
        raise TranslateError('substitute: replacer() body shape not recognised')
    tr = rb[1]
    look = ast.unparse(tr.body[0]) if len(tr.body) == 1 else ''
    if look == 'res = fixup[varname.casefold()].value':
        cfg['lookup_folded'] = True
    elif look == 'res = fixup[varname].value':
        cfg['lookup_folded'] = False
    else:
        raise TranslateError(f'substitute: lookup `{look[:60]}` not recognised')
    if not (len(tr.handlers) == 1 and ast.unparse(tr.handlers[0].type) == 'KeyError' and not tr.orelse and not tr.finalbody):
        raise TranslateError('substitute: lookup handler')
    hb = tr.handlers[0].body
    if not (len(hb) == 2 and isinstance(hb[0], ast.If) and ast.unparse(hb[0].test) == 'default is None' and len(hb[0].body) == 1
            and isinstance(hb[0].body[0], ast.Raise) and ast.unparse(hb[0].body[0].exc.func) == 'KeyError' and not hb[0].orelse
            and ast.unparse(hb[1]) == 'res = default'):
        raise TranslateError('substitute: missing-variable handling not recognised')
    iv = rb[2]
    if not (ast.unparse(iv.test) == 'has_inv is not None' and not iv.orelse and len(iv.body) == 1 and isinstance(iv.body[0], ast.If)
            and ast.unparse(iv.body[0].test) == 'allow_invert'):
        raise TranslateError('substitute: inversion branch not recognised')
    inv_if = iv.body[0]
    ok_inv = len(inv_if.body) == 1 and isinstance(inv_if.body[0], ast.Try) and len(inv_if.body[0].body) == 1 and \
        ast.unparse(inv_if.body[0].body[0]) == "res = '0' if srctools.BOOL_LOOKUP[res.casefold()] else '1'" and \
        len(inv_if.body[0].handlers) == 1 and ast.unparse(inv_if.body[0].handlers[0].type) == 'KeyError' and \
        all(isinstance(x, ast.Pass) for x in inv_if.body[0].handlers[0].body)
    if not ok_inv:
        raise TranslateError('substitute: allow_invert branch is not the BOOL_LOOKUP inversion')
    oe = [ast.unparse(x) for x in inv_if.orelse]
    if oe == ["res = '!' + res"]:
        cfg['bang_readd'] = True
    elif oe in ([], ['pass']):
        cfg['bang_readd'] = False
    else:
        raise TranslateError(f'substitute: what happens to a matched "!" without allow_invert: {oe}')
    # srctools.BOOL_LOOKUP
    bl = None
    for n in ast.parse(src_text('__init__.py')).body:
        if isinstance(n, (ast.Assign, ast.AnnAssign)) and ast.unparse(n.targets[0] if isinstance(n, ast.Assign) else n.target) == 'BOOL_LOOKUP':
            bl = n.value
    if not isinstance(bl, ast.Dict) or not all(isinstance(k, ast.Constant) and isinstance(k.value, str) and isinstance(v_, ast.Constant)
                                               and isinstance(v_.value, bool) for k, v_ in zip(bl.keys, bl.values)):
        raise TranslateError('srctools.BOOL_LOOKUP is not a literal {str: bool} dict')
    cfg['bools'] = [(k.value, v_.value) for k, v_ in zip(bl.keys, bl.values)]
    cfg['digest'] = ast_digest(fn)
    return cfg


# ---------------------------------------------------------------------------------------------- the compiled-pattern cache
def _fixup_cache(vtree: ast.Module, other_trees: dict[str, ast.Module]) -> dict:
    """`EntityFixup._matcher` caches the compiled pattern: every method that may change the key set of the table resets it
    (SM/C17Cache.v).  One shape per method of the class; uses of the two attributes elsewhere are counted."""
    cls = next((n for n in vtree.body if isinstance(n, ast.ClassDef) and n.name == 'EntityFixup'), None)
    if cls is None:
        raise TranslateError('vmf.py: class EntityFixup not found')
    sub_fn = _find_func(vtree, 'substitute', 'EntityFixup')

    def self_attr(e: ast.AST, recv: str = 'self') -> str | None:
        return e.attr if isinstance(e, ast.Attribute) and isinstance(e.value, ast.Name) and e.value.id == recv else None
    # the cache attribute: the receiver of .sub(); it is compiled under `if self.C is None:` from another attribute, the table
    subs = [n for n in ast.walk(sub_fn) if isinstance(n, ast.Call) and isinstance(n.func, ast.Attribute) and n.func.attr in ('sub', 'subn')
            and self_attr(n.func.value)]
    if len(subs) != 1:
        raise TranslateError('substitute: the pattern that is used is not an attribute of self')
    C = self_attr(subs[0].func.value)
    guards = [n for n in ast.walk(sub_fn) if isinstance(n, ast.If) and isinstance(n.test, ast.Compare) and self_attr(n.test.left) == C
              and len(n.test.ops) == 1 and isinstance(n.test.ops[0], ast.Is) and isinstance(n.test.comparators[0], ast.Constant)
              and n.test.comparators[0].value is None and not n.orelse]
    stores_c = [n for n in ast.walk(sub_fn) if isinstance(n, ast.Attribute) and isinstance(n.ctx, ast.Store) and self_attr(n) == C]
    if len(guards) != 1 or len(stores_c) != 1 or not any(x is stores_c[0] for x in ast.walk(guards[0])):
        raise TranslateError(f'substitute: `if self.{C} is None: self.{C} = re.compile(...)` not found')
    tabs = {self_attr(x) for x in ast.walk(guards[0]) if self_attr(x) and self_attr(x) != C}
    if len(tabs) != 1:
        raise TranslateError(f'substitute: the pattern is compiled from {sorted(tabs)}, expected one attribute of self')
    T = tabs.pop()
    if any(isinstance(x, ast.Attribute) and isinstance(x.ctx, (ast.Store, ast.Del)) and self_attr(x) == T for x in ast.walk(sub_fn)) or \
            any(isinstance(x, ast.Subscript) and isinstance(x.ctx, (ast.Store, ast.Del)) and self_attr(x.value) == T for x in ast.walk(sub_fn)):
        raise TranslateError(f'substitute writes self.{T}')

    def is_none(e: ast.expr | None) -> bool:
        return isinstance(e, ast.Constant) and e.value is None

    def same_keys(e: ast.expr) -> bool:
        """A dict with exactly the keys of self.T."""
        if isinstance(e, ast.DictComp) and len(e.generators) == 1:
            g = e.generators[0]
            it = g.iter
            if not g.ifs and isinstance(it, ast.Call) and isinstance(it.func, ast.Attribute) and not it.args and self_attr(it.func.value) == T:
                if it.func.attr == 'items' and isinstance(g.target, ast.Tuple) and len(g.target.elts) == 2 and isinstance(g.target.elts[0], ast.Name):
                    return isinstance(e.key, ast.Name) and e.key.id == g.target.elts[0].id
                if it.func.attr == 'keys' and isinstance(g.target, ast.Name):
                    return isinstance(e.key, ast.Name) and e.key.id == g.target.id
            if not g.ifs and self_attr(it) == T and isinstance(g.target, ast.Name):
                return isinstance(e.key, ast.Name) and e.key.id == g.target.id
        if isinstance(e, ast.Call) and not e.keywords:
            if isinstance(e.func, ast.Name) and e.func.id == 'dict' and len(e.args) == 1 and self_attr(e.args[0]) == T:
                return True
            if isinstance(e.func, ast.Attribute) and e.func.attr == 'copy' and not e.args and self_attr(e.func.value) == T:
                return True
        return False

    shapes: list[tuple[str, str]] = []
    detail: list[str] = []
    for fn in cls.body:
        if not isinstance(fn, ast.FunctionDef) or _is_overload(fn) or fn is sub_fn:
            continue
        params = fn.args.posonlyargs + fn.args.args
        if not params or params[0].arg != 'self':
            if any(isinstance(x, ast.Attribute) and x.attr in (C, T) for x in ast.walk(fn)):
                raise TranslateError(f'EntityFixup.{fn.name}: touches {C}/{T} without `self`')
            continue
        # statement lists, with the chain of (list, index) from the function body down to every statement
        chains: dict[int, list[tuple[list, int]]] = {}

        def walk_list(lst: list[ast.stmt], up: list[tuple[list, int]]) -> None:
            for i, st in enumerate(lst):
                here = up + [(lst, i)]
                for x in ast.walk(st):
                    chains.setdefault(id(x), here)            # innermost wins below
                for field in ('body', 'orelse', 'finalbody'):
                    sub = getattr(st, field, None)
                    if isinstance(sub, list) and sub and isinstance(sub[0], ast.stmt) and not isinstance(st, (ast.FunctionDef, ast.ClassDef)):
                        walk_list2(sub, here)
                for h in getattr(st, 'handlers', []):
                    walk_list2(h.body, here)

        def walk_list2(lst: list[ast.stmt], up: list[tuple[list, int]]) -> None:
            for i, st in enumerate(lst):
                here = up + [(lst, i)]
                for x in ast.walk(st):
                    chains[id(x)] = here
                for field in ('body', 'orelse', 'finalbody'):
                    sub = getattr(st, field, None)
                    if isinstance(sub, list) and sub and isinstance(sub[0], ast.stmt) and not isinstance(st, (ast.FunctionDef, ast.ClassDef)):
                        walk_list2(sub, here)
                for h in getattr(st, 'handlers', []):
                    walk_list2(h.body, here)
        walk_list2(_body(fn), [])
        resets = [st for st in ast.walk(fn) if isinstance(st, (ast.Assign, ast.AnnAssign)) and is_none(st.value)
                  and all(self_attr(t) == C for t in (st.targets if isinstance(st, ast.Assign) else [st.target]))]
        changes: list[ast.AST] = []
        for x in ast.walk(fn):
            if isinstance(x, ast.Subscript) and isinstance(x.ctx, (ast.Store, ast.Del)) and self_attr(x.value) == T:
                changes.append(x)
            elif isinstance(x, ast.Call) and isinstance(x.func, ast.Attribute) and x.func.attr in MUTATING_METHODS and self_attr(x.func.value) == T:
                changes.append(x)
            elif isinstance(x, ast.Attribute) and isinstance(x.ctx, (ast.Store, ast.Del)) and self_attr(x) == T:
                changes.append(x)
            elif isinstance(x, ast.Attribute) and isinstance(x.ctx, ast.Store) and self_attr(x) == C and not any(
                    x in (r.targets if isinstance(r, ast.Assign) else [r.target]) for r in resets):
                raise TranslateError(f'EntityFixup.{fn.name}: self.{C} is assigned something other than None')
            elif isinstance(x, ast.Name) and x.id == 'self' and isinstance(x.ctx, ast.Load):
                pass

        def reset_reaches(site: ast.AST) -> bool:
            for lst, i in reversed(chains.get(id(site), [])):
                for r in resets:
                    if r in lst:
                        j = lst.index(r)
                        lo, hi = min(i, j), max(i, j)
                        if not any(isinstance(m, (ast.Return, ast.Raise, ast.Continue, ast.Break)) for m in lst[lo + 1:hi]):
                            return True
            return False
        # another object of the class built from this one
        others: dict[str, dict[str, ast.expr]] = {}
        for st in ast.walk(fn):
            if isinstance(st, ast.Assign) and len(st.targets) == 1 and isinstance(st.targets[0], ast.Attribute) \
                    and isinstance(st.targets[0].value, ast.Name) and st.targets[0].value.id != 'self' and st.targets[0].attr in (C, T):
                others.setdefault(st.targets[0].value.id, {})[st.targets[0].attr] = st.value
        for x in ast.walk(fn):
            if isinstance(x, ast.Attribute) and x.attr in (C, T) and not (isinstance(x.value, ast.Name)):
                raise TranslateError(f'EntityFixup.{fn.name}: `{ast.unparse(x)[:50]}`: {C}/{T} of an object that is not a plain name')
            if isinstance(x, ast.Attribute) and x.attr in (C, T) and isinstance(x.value, ast.Name) and x.value.id != 'self' \
                    and not (isinstance(x.ctx, ast.Store) and x.value.id in others):
                raise TranslateError(f'EntityFixup.{fn.name}: `{ast.unparse(x)[:50]}` read or deleted on another object')
        # the table must not be handed to anything this census cannot follow (alias, argument, return value)
        par: dict[int, ast.AST] = {}
        for n in ast.walk(fn):
            for c in ast.iter_child_nodes(n):
                par[id(c)] = n
        for x in ast.walk(fn):
            if self_attr(x) != T or not isinstance(x.ctx, ast.Load):
                continue
            pn = par.get(id(x))
            fine = (isinstance(pn, ast.Subscript) and pn.value is x) or (isinstance(pn, ast.Attribute) and pn.value is x) \
                or (isinstance(pn, ast.Compare) and x in pn.comparators) or (isinstance(pn, (ast.For, ast.comprehension)) and pn.iter is x) \
                or (isinstance(pn, ast.Call) and x in pn.args and isinstance(pn.func, ast.Name) and pn.func.id in READ_ONLY_BUILTINS) \
                or (isinstance(pn, ast.Compare) and pn.left is x and all(isinstance(o, (ast.Is, ast.IsNot)) for o in pn.ops))
            if not fine:
                raise TranslateError(f'EntityFixup.{fn.name}:{x.lineno}: self.{T} escapes (`{ast.unparse(pn)[:50] if pn is not None else ""}`)')
        if changes:
            ok = all(reset_reaches(c) for c in changes)
            shapes.append((fn.name, f'(SChange {cb_(ok)})'))
            detail.append(f'{fn.name}: {len(changes)} key-changing site(s), cache reset {"at all" if ok else "MISSING at some"}')
        elif resets:
            shapes.append((fn.name, '(SChange true)'))
        for recv, d in sorted(others.items()):
            if C not in d or T not in d:
                raise TranslateError(f'EntityFixup.{fn.name}: `{recv}` gets only one of {C}/{T}')
            if is_none(d[C]):
                copies = False
            elif self_attr(d[C]) == C:
                copies = True
            else:
                raise TranslateError(f'EntityFixup.{fn.name}: `{recv}.{C} = {ast.unparse(d[C])[:40]}`')
            shapes.append((fn.name, f'(SCopy {cb_(same_keys(d[T]))} {cb_(copies)})'))
            detail.append(f'{fn.name}: builds `{recv}` (same keys: {same_keys(d[T])}, cache copied: {copies})')
        if not changes and not resets and not others:
            shapes.append((fn.name, 'SKeep'))
    # elsewhere: the cache attribute is private to the class; nobody else edits a dict reached through an attribute named T
    foreign: list[str] = []
    for fname, tree in [('vmf.py', vtree)] + sorted(other_trees.items()):
        inside = {id(x) for x in ast.walk(cls)} if fname == 'vmf.py' else set()
        for x in ast.walk(tree):
            if id(x) in inside:
                continue
            if isinstance(x, ast.Attribute) and x.attr == C:
                foreign.append(f'{fname}:{x.lineno}: {ast.unparse(x)[:50]}')
            if isinstance(x, ast.Subscript) and isinstance(x.ctx, (ast.Store, ast.Del)) and isinstance(x.value, ast.Attribute) and x.value.attr == T:
                foreign.append(f'{fname}:{x.lineno}: {ast.unparse(x)[:50]}')
            if isinstance(x, ast.Call) and isinstance(x.func, ast.Attribute) and x.func.attr in MUTATING_METHODS \
                    and isinstance(x.func.value, ast.Attribute) and x.func.value.attr == T:
                foreign.append(f'{fname}:{x.lineno}: {ast.unparse(x)[:50]}')
            if isinstance(x, ast.Attribute) and x.attr == T and isinstance(x.ctx, (ast.Store, ast.Del)) and not (
                    isinstance(x.value, ast.Name) and x.value.id == 'self'):
                foreign.append(f'{fname}:{x.lineno}: {ast.unparse(x)[:50]}')
    return {'cache_attr': C, 'table_attr': T, 'shapes': shapes, 'detail': detail, 'foreign': foreign}


def cb_(b: bool) -> str:
    return 'true' if b else 'false'


# ---------------------------------------------------------------------------------------------- value sites of collapse_one
SUBST_CALL, NAME_CALL, KEY_CALL = 'inst.fixup.substitute', 'inst.fixup_name', 'inst.fixup_key'
PARSE_CALLS = {'Angle.from_str', 'Vec.from_str', 'srctools.conv_float', 'conv_float', 'Matrix.from_angstr', 'srctools.conv_int', 'conv_int'}
WRAP_CALLS = {'str', 'format_float'}
OBJ_RAW = ('OBJ',)       # a loop variable whose string attributes are template data (an Output of the copy)


def _sx_coq(e) -> str:
    if e[0] in ('SRaw', 'SOther'):
        return e[0]
    return '(' + e[0] + ' ' + ' '.join(_sx_coq(x) for x in e[1:]) + ')'


class _Sites:
    """Data flow of the per-entity loop of collapse_one (fail-closed on statement forms it does not know)."""
    def __init__(self) -> None:
        self.sites: list[tuple[str, tuple]] = []
        self.consumer_calls = 0
        self.subst_defaults: list[str] = []

    def call_site(self, node: tuple) -> tuple:
        if ('call', node) not in self.sites:
            self.sites.append(('call', node))
        return node

    def wrap(self, xs: list) -> tuple:
        data = []
        for x in xs:
            if x != ('SOther',) and x not in data:
                data.append(x)
        if not data:
            return ('SOther',)
        if len(data) > 1:
            raise TranslateError('collapse_one: two template strings are combined in one expression')
        return data[0] if data[0][0] == 'SWrap' else ('SWrap', data[0])

    def sx(self, e: ast.expr, env: dict) -> tuple:
        if isinstance(e, ast.Constant):
            return ('SOther',)
        if isinstance(e, ast.Name):
            v = env.get(e.id, ('SOther',))
            return ('SOther',) if v is OBJ_RAW else v
        if isinstance(e, ast.Subscript):
            self.sx(e.slice, env)
            if isinstance(e.value, ast.Name) and e.value.id == 'new_ent':
                return ('SRaw',)
            return self.wrap([self.sx(e.value, env)])
        if isinstance(e, ast.Attribute):
            if isinstance(e.value, ast.Name):
                v = env.get(e.value.id)
                if v is OBJ_RAW:
                    return ('SRaw',)
                return v if v is not None else ('SOther',)
            return self.wrap([self.sx(e.value, env)])
        if isinstance(e, ast.Call):
            callee = ast.unparse(e.func)
            if any(isinstance(a, ast.Starred) for a in e.args) or any(k.arg is None for k in e.keywords):
                raise TranslateError(f'collapse_one line {e.lineno}: star arguments')
            args = [self.sx(a, env) for a in e.args] + [self.sx(k.value, env) for k in e.keywords]
            if callee == SUBST_CALL:
                self.consumer_calls += 1
                if not e.args:
                    raise TranslateError('collapse_one: substitute() without text')
                self.subst_defaults.append(ast.unparse(e.args[1]) if len(e.args) > 1 else
                                           next((ast.unparse(k.value) for k in e.keywords if k.arg == 'default'), 'None'))
                return self.call_site(('SSubst', args[0]))
            if callee == NAME_CALL:
                self.consumer_calls += 1
                if len(e.args) != 1:
                    raise TranslateError('collapse_one: fixup_name() call shape')
                return self.call_site(('SName', args[0]))
            if callee == KEY_CALL:
                self.consumer_calls += 1
                if len(e.args) != 4 or e.keywords:
                    raise TranslateError('collapse_one: fixup_key() call shape')
                return self.call_site(('SKey', args[3]))
            if callee in PARSE_CALLS:
                if not e.args:
                    raise TranslateError(f'collapse_one: {callee}() without argument')
                return self.call_site(('SParse', args[0])) if args[0] != ('SOther',) else ('SOther',)
            if isinstance(e.func, ast.Attribute):
                args = [self.sx(e.func.value, env)] + args
            return self.wrap(args)
        if isinstance(e, ast.UnaryOp):
            return self.wrap([self.sx(e.operand, env)])
        if isinstance(e, ast.BinOp):
            return self.wrap([self.sx(e.left, env), self.sx(e.right, env)])
        if isinstance(e, ast.BoolOp):
            return self.wrap([self.sx(v, env) for v in e.values])
        if isinstance(e, ast.Compare):
            for x in [e.left, *e.comparators]:
                self.sx(x, env)
            return ('SOther',)
        if isinstance(e, ast.JoinedStr):
            return self.wrap([self.sx(v.value, env) for v in e.values if isinstance(v, ast.FormattedValue)])
        if isinstance(e, (ast.Tuple, ast.List, ast.Set)):
            return self.wrap([self.sx(v, env) for v in e.elts])
        if isinstance(e, ast.IfExp):       # either branch can be the value (like the two arms of an if statement)
            self.sx(e.test, env)
            a, b = self.sx(e.body, env), self.sx(e.orelse, env)
            return a if a == b else ('SJoin', a, b)
        raise TranslateError(f'collapse_one line {getattr(e, "lineno", "?")}: expression {type(e).__name__} not supported in the per-entity loop')

    @staticmethod
    def label(t: ast.expr, env: dict) -> str | None:
        if isinstance(t, ast.Name):
            return 'local'
        if isinstance(t, ast.Subscript):
            base = ast.unparse(t.value)
            if base == 'new_ent':
                return 'entity-key'
            if base == 'new_ent.fixup':
                return 'nested-fixup'
            return None
        if isinstance(t, ast.Attribute) and isinstance(t.value, ast.Name):
            v = env.get(t.value.id)
            if v is OBJ_RAW:
                return 'output-' + t.attr
            if v is not None:
                return 'local'
        return None

    @staticmethod
    def merge(envs: list[dict]) -> dict:
        out: dict = {}
        for k in {k for e in envs for k in e}:
            vals = []
            for e in envs:
                if k in e and e[k] not in vals:
                    vals.append(e[k])
            if OBJ_RAW in vals and len(vals) > 1:
                raise TranslateError(f'collapse_one: `{k}` is an output in one branch and a string in another')
            acc = vals[-1]
            for v in reversed(vals[:-1]):
                acc = ('SJoin', v, acc)
            out[k] = acc
        return out

    def block(self, body: list[ast.stmt], env: dict) -> tuple[dict, bool]:
        """Returns (environment afterwards, control never reaches the end)."""
        for st in body:
            env, dead = self.stmt(st, env)
            if dead:
                return env, True
        return env, False

    def store(self, tgt: ast.expr, val: tuple, env: dict) -> None:
        lab = self.label(tgt, env)
        if isinstance(tgt, ast.Name):
            env[tgt.id] = val
        elif lab is None:
            return        # caches, counters: not a value of the collapsed map (a missing sink shows up in *_present)
        if val != ('SOther',) and lab != 'local' and (lab, val) not in self.sites:
            self.sites.append((lab, val))

    def stmt(self, st: ast.stmt, env: dict) -> tuple[dict, bool]:
        if isinstance(st, (ast.Continue, ast.Raise, ast.Return)):
            return env, True
        if isinstance(st, ast.Pass):
            return env, False
        if isinstance(st, ast.Expr):
            self.sx(st.value, env)
            return env, False
        if isinstance(st, ast.Assign):
            if len(st.targets) != 1 or isinstance(st.targets[0], (ast.Tuple, ast.List)):
                raise TranslateError(f'collapse_one line {st.lineno}: assignment shape')
            self.store(st.targets[0], self.sx(st.value, env), env)
            return env, False
        if isinstance(st, ast.AnnAssign) and st.value is not None:
            self.store(st.target, self.sx(st.value, env), env)
            return env, False
        if isinstance(st, ast.AugAssign):
            self.store(st.target, self.wrap([self.sx(_as_load(st.target), env), self.sx(st.value, env)]), env)
            return env, False
        if isinstance(st, ast.If):
            self.sx(st.test, env)
            e1, d1 = self.block(st.body, dict(env))
            e2, d2 = self.block(st.orelse, dict(env))
            live = [e for e, d in ((e1, d1), (e2, d2)) if not d]
            return (self.merge(live), False) if live else (env, True)
        if isinstance(st, ast.Try):
            if st.finalbody:
                raise TranslateError(f'collapse_one line {st.lineno}: try/finally')
            e1, d1 = self.block(st.body + st.orelse, dict(env))
            outs = [(e1, d1)] + [self.block(h.body, dict(env)) for h in st.handlers]
            live = [e for e, d in outs if not d]
            return (self.merge(live), False) if live else (env, True)
        if isinstance(st, ast.For):
            src = ast.unparse(st.iter)
            inner = dict(env)
            if src in ('new_ent.items()', 'list(new_ent.items())', 'new_ent.fixup.items()', 'list(new_ent.fixup.items())'):
                if not (isinstance(st.target, ast.Tuple) and len(st.target.elts) == 2 and all(isinstance(x, ast.Name) for x in st.target.elts)):
                    raise TranslateError(f'collapse_one line {st.lineno}: loop target')
                inner[st.target.elts[0].id] = ('SOther',)
                inner[st.target.elts[1].id] = ('SRaw',)
            elif src in ('new_ent.outputs', 'list(new_ent.outputs)') and isinstance(st.target, ast.Name):
                inner[st.target.id] = OBJ_RAW
            else:
                raise TranslateError(f'collapse_one line {st.lineno}: loop over `{src[:40]}` inside the per-entity loop')
            if st.orelse:
                raise TranslateError(f'collapse_one line {st.lineno}: for/else')
            e1, _ = self.block(st.body, inner)
            merged = self.merge([env, e1])       # zero or more iterations
            return {k: merged[k] for k in env}, False
        raise TranslateError(f'collapse_one line {st.lineno}: statement {type(st).__name__} not supported in the per-entity loop')


def _value_sites(c1: ast.FunctionDef) -> dict:
    loops = [n for n in c1.body if isinstance(n, ast.For) and ast.unparse(n.target) == 'new_ent' and ast.unparse(n.iter) == 'new_ents']
    if len(loops) != 1 or loops[0].orelse:
        raise TranslateError('collapse_one: the per-entity loop `for new_ent in new_ents` not found')
    S = _Sites()
    S.block(loops[0].body, {})
    total = sum(1 for n in ast.walk(c1) if isinstance(n, ast.Call) and ast.unparse(n.func) in (SUBST_CALL, NAME_CALL, KEY_CALL))
    # .fixup_name / .fixup_key / .substitute reached under another spelling are not followed: fail closed
    other = [ast.unparse(n.func) for n in ast.walk(c1) if isinstance(n, ast.Call) and isinstance(n.func, ast.Attribute)
             and n.func.attr in ('substitute', 'fixup_name', 'fixup_key') and ast.unparse(n.func) not in (SUBST_CALL, NAME_CALL, KEY_CALL)]
    if other:
        raise TranslateError(f'collapse_one: calls {other} are not made through `inst`')
    if total != S.consumer_calls:
        raise TranslateError(f'collapse_one: {total} substitute/fixup_name/fixup_key calls, {S.consumer_calls} of them in the per-entity loop')
    return {'sites': S.sites, 'subst_defaults': S.subst_defaults}


# ---------------------------------------------------------------------------------------------- process-global state
LOG_METHODS = {'debug', 'info', 'warning', 'warn', 'error', 'exception', 'critical', 'log'}
TYPING_CALLS = {'TypeVar', 'NewType', 'ParamSpec', 'TypeVarTuple', 'typing.TypeVar', 'typing.NewType'}
JUMPS = {ast.Continue: 'JContinue', ast.Break: 'JBreak', ast.Return: 'JReturn', ast.Raise: 'JRaise'}


def _immutable_value(e: ast.expr | None) -> bool:
    if e is None or isinstance(e, ast.Constant):
        return True
    if isinstance(e, ast.Tuple):
        return all(_immutable_value(x) for x in e.elts)
    if isinstance(e, ast.Call) and ast.unparse(e.func) == 'frozenset' and all(_immutable_value(a) for a in e.args) and not e.keywords:
        return True
    if isinstance(e, ast.Call) and ast.unparse(e.func) in TYPING_CALLS:
        return True
    if isinstance(e, ast.Call) and ast.unparse(e.func) in ('chr', 'str', 'int', 'float', 'bytes') and not e.keywords \
            and all(isinstance(a, ast.Constant) for a in e.args):
        return True
    if isinstance(e, ast.UnaryOp) and isinstance(e.operand, ast.Constant):
        return True
    if isinstance(e, (ast.Name, ast.Attribute, ast.Subscript)) :
        # an alias of something defined elsewhere (type aliases such as Union[...] / imported names): not state of this module
        return all(isinstance(n, (ast.Name, ast.Attribute, ast.Subscript, ast.Tuple, ast.Constant, ast.Load, ast.List, ast.BinOp, ast.BitOr))
                   for n in ast.walk(e)) and isinstance(e, (ast.Subscript, ast.Attribute, ast.Name))
    return False


def _module_state(tree: ast.Module, strict: bool = True) -> dict:
    """Module-level objects of instancing.py that live as long as the process and can change: name -> 'logger' | 'mutable';
    plus class-level ones (reported, they must not exist: reads through `self.` are not followed)."""
    names: dict[str, str] = {}
    class_level: list[str] = []
    for n in tree.body:
        tg, val = None, None
        if isinstance(n, ast.Assign) and len(n.targets) == 1:
            tg, val = n.targets[0], n.value
        elif isinstance(n, ast.AnnAssign):
            tg, val = n.target, n.value
            if 'TypeAlias' in ast.unparse(n.annotation):
                continue
        elif isinstance(n, ast.Assign):
            if strict or any(isinstance(t, ast.Name) for t in n.targets):
                raise TranslateError(f'line {n.lineno}: chained module-level assignment')
            continue          # Class.A = Class.b = ...: class attributes filled in at import time
        if isinstance(tg, ast.Name):
            if tg.id.startswith('__') and tg.id.endswith('__'):
                continue
            if isinstance(val, ast.Call) and ast.unparse(val.func).split('.')[-1] in ('get_logger', 'getLogger'):
                names[tg.id] = 'logger'
            elif isinstance(val, ast.Name) or not _immutable_value(val):
                names[tg.id] = 'mutable'
        elif tg is not None and (strict or not isinstance(tg, (ast.Attribute, ast.Tuple))):
            raise TranslateError(f'line {n.lineno}: module-level assignment target `{ast.unparse(tg)[:40]}`')
        elif isinstance(tg, ast.Tuple):
            for t in tg.elts:
                if not isinstance(t, ast.Name):
                    raise TranslateError(f'line {n.lineno}: module-level assignment target `{ast.unparse(tg)[:40]}`')
                names[t.id] = 'mutable'

        if isinstance(n, ast.ClassDef):
            is_enum = any(ast.unparse(b).split('.')[-1] in ('Enum', 'IntEnum', 'Flag', 'IntFlag') for b in n.bases)
            for c in n.body:
                ctg = c.targets[0] if isinstance(c, ast.Assign) and len(c.targets) == 1 else c.target if isinstance(c, ast.AnnAssign) else None
                cval = getattr(c, 'value', None)
                if isinstance(ctg, ast.Name) and cval is not None and not is_enum and ctg.id != '__slots__' and not _immutable_value(cval) \
                        and not (isinstance(cval, ast.Call) and ast.unparse(cval.func).split('.')[-1] in ('field', 'ib', 'Factory')):
                    class_level.append(f'{n.name}.{ctg.id}')
    for n in ast.walk(tree):
        if isinstance(n, ast.Global):
            for nm in n.names:
                names[nm] = 'mutable'
    return {'names': names, 'class_level': class_level}


READ_ONLY_METHODS = {'get', 'items', 'keys', 'values', 'index', 'count', 'copy', 'join', 'format', 'match', 'fullmatch', 'search',
                     'finditer', 'findall', 'sub', 'split', 'unpack', 'unpack_from', 'pack', 'iter_unpack', 'size', 'startswith',
                     'endswith', 'casefold', 'lower', 'upper', 'encode', 'translate', 'pattern', 'isdisjoint', 'issubset', 'issuperset'}
READ_ONLY_BUILTINS = {'len', 'enumerate', 'sorted', 'list', 'tuple', 'dict', 'set', 'frozenset', 'reversed', 'zip', 'iter', 'min', 'max',
                      'sum', 'any', 'all', 'isinstance', 'str', 'repr', 'bool', 'map', 'filter'}


def _foreign_module_state(tree: ast.Module, fname: str) -> dict:
    """Module-level objects of another module collapse_one runs code of (vmf.py): a table that no function ever updates is
    a constant of the process.  Counted: update sites inside functions (`global`, mutating method, store / del / augmented
    assignment through the name) and escapes (the object handed to something this census cannot follow)."""
    ms = _module_state(tree, strict=False)
    mut = {k for k, v in ms['names'].items() if v == 'mutable'}
    # names bound to functions / classes / imports are not data
    updates: list[str] = []
    escapes: list[str] = []
    parents: dict[int, ast.AST] = {}
    for n in ast.walk(tree):
        for c in ast.iter_child_nodes(n):
            parents[id(c)] = n
    def root(e: ast.AST):
        while isinstance(e, (ast.Subscript, ast.Attribute)):
            e = e.value
        return e.id if isinstance(e, ast.Name) else None
    for fn in ast.walk(tree):
        if not isinstance(fn, (ast.FunctionDef, ast.AsyncFunctionDef, ast.Lambda)):
            continue
        shadow = {a.arg for a in fn.args.args + fn.args.kwonlyargs + fn.args.posonlyargs} | \
            {x.id for x in ast.walk(fn) if isinstance(x, ast.Name) and isinstance(x.ctx, ast.Store)}
        declared = {nm for x in ast.walk(fn) if isinstance(x, ast.Global) for nm in x.names}
        for x in ast.walk(fn):
            if isinstance(x, ast.Global):
                updates += [f'{fname}:{x.lineno}: global {nm}' for nm in x.names]
            if not (isinstance(x, ast.Name) and x.id in mut and (x.id not in shadow or x.id in declared)):
                continue
            par = parents.get(id(x))
            where = f'{fname}:{x.lineno}: {ast.unparse(par)[:60] if par is not None else x.id}'
            if isinstance(x.ctx, (ast.Store, ast.Del)):
                updates.append(where)
            elif isinstance(par, ast.Subscript) and par.value is x:
                if isinstance(par.ctx, (ast.Store, ast.Del)) or isinstance(parents.get(id(par)), ast.AugAssign) and parents[id(par)].target is par:
                    updates.append(where)
                elif isinstance(parents.get(id(par)), (ast.Subscript, ast.Attribute)) and isinstance(parents[id(par)].ctx, (ast.Store, ast.Del)):
                    updates.append(where)          # X[k][j] = v, X[k].attr = v
            elif isinstance(par, ast.Attribute) and par.value is x:
                g = parents.get(id(par))
                if isinstance(par.ctx, (ast.Store, ast.Del)) or par.attr in MUTATING_METHODS:
                    updates.append(where)
                elif not (isinstance(g, ast.Call) and g.func is par and par.attr in READ_ONLY_METHODS) and par.attr not in READ_ONLY_METHODS:
                    escapes.append(where)
            elif isinstance(par, ast.Compare) and x in par.comparators and all(isinstance(o, (ast.In, ast.NotIn)) for o in par.ops):
                pass
            elif isinstance(par, (ast.For, ast.comprehension)) and par.iter is x:
                pass
            elif isinstance(par, ast.Call) and x in par.args and isinstance(par.func, ast.Name) and par.func.id in READ_ONLY_BUILTINS:
                pass
            elif isinstance(par, ast.Call) and x in par.args and isinstance(par.func, ast.Attribute) and par.func.attr in READ_ONLY_METHODS \
                    and root(par.func) not in mut:
                pass                                  # text.split(SEP), SEP handed to a read-only method of something else
            elif isinstance(par, ast.Starred) or isinstance(par, ast.keyword) and par.arg is None:
                pass                                  # f(*X) / f(**X): a copy is passed
            elif isinstance(par, (ast.JoinedStr, ast.FormattedValue, ast.BinOp, ast.BoolOp, ast.UnaryOp, ast.IfExp)):
                pass                                  # a value computed from it (immutable result for str / int operands)
            else:
                escapes.append(where)
    return {'module_level': sorted(mut), 'class_level': ms['class_level'], 'updates': updates, 'escapes': escapes}


class _Skel:
    """Statements of one function -> control-flow skeleton of SM/C17Global.v (fail-closed on statement forms)."""
    def __init__(self, mut: set[str], loggers: set[str], state_funcs: dict[str, ast.FunctionDef] | None = None,
                 state_methods: dict[str, ast.FunctionDef] | None = None, stack: tuple[str, ...] = ()) -> None:
        self.mut, self.loggers = mut, loggers
        # functions / methods of the module that (transitively) mention a module-level mutable object: a call of one of
        # them is not an opaque effect on the program state, it is `KCall <its skeleton>` (the global state is threaded through)
        self.state_funcs, self.state_methods = state_funcs or {}, state_methods or {}
        self.stack = stack
        self.n = 0
        self.global_tests: list[str] = []
        self.tainted: list[str] = []
        # round 5: what is evaluated at every numbered site (for the per-statement kinds of SM/C17Kinds.v); the sites of an
        # inlined callee are kept apart with the call expression they belong to
        self.site_nodes: dict[int, list[ast.AST]] = {}
        self.callee_sites: dict[int, ast.Call] = {}

    def calls(self, *nodes: ast.AST | None) -> list[str]:
        """`KCall` for every call of a state function inside the expressions [nodes], in source order; a state function
        used as a value (callback, alias) is not followed: fail closed."""
        out: list[tuple[int, int, str]] = []
        for node in nodes:
            if node is None:
                continue
            called = set()
            for x in ast.walk(node):
                if not isinstance(x, ast.Call):
                    continue
                fn = None
                if isinstance(x.func, ast.Name) and x.func.id in self.state_funcs:
                    fn, called = self.state_funcs[x.func.id], called | {id(x.func)}
                    qn = x.func.id
                elif isinstance(x.func, ast.Attribute) and x.func.attr in self.state_methods and not self.is_log_call(x) \
                        and not self.is_self_update(x):
                    fn, qn = self.state_methods[x.func.attr], '.' + x.func.attr
                if fn is None:
                    continue
                if qn in self.stack:
                    raise TranslateError(f'instancing.py:{x.lineno}: recursive call of `{qn}`, a function that touches module-level state')
                sub = _Skel(self.mut, self.loggers, self.state_funcs, self.state_methods, self.stack + (qn,))
                sub.n = self.n
                sk = sub.block(_body(fn))
                self.n = sub.n
                for i_ in list(sub.site_nodes) + list(sub.callee_sites):
                    self.callee_sites[i_] = x
                self.global_tests += [t for t in sub.global_tests if t not in self.global_tests]
                self.tainted += [t for t in sub.tainted if t not in self.tainted]
                out.append((x.lineno, x.col_offset, f'(KCall {sk})'))
            for x in ast.walk(node):
                if isinstance(x, ast.Name) and x.id in self.state_funcs and id(x) not in called:
                    raise TranslateError(f'instancing.py:{x.lineno}: `{x.id}` (touches module-level state) used as a value')
        return [c for _l, _c, c in sorted(out)]

    def fresh(self, *nodes: ast.AST | None) -> int:
        self.n += 1
        self.site_nodes[self.n] = [n for n in nodes if n is not None]
        return self.n

    def reads(self, node: ast.AST) -> bool:
        return any(isinstance(x, ast.Name) and x.id in self.mut for x in ast.walk(node))

    @staticmethod
    def inert(e: ast.expr | None) -> bool:
        """Evaluating [e] cannot raise or act: names, constants, tuples of those, comparisons / boolean operators on those."""
        if e is None:
            return True
        return all(isinstance(n, (ast.Name, ast.Constant, ast.Tuple, ast.Compare, ast.BoolOp, ast.UnaryOp, ast.Not, ast.And, ast.Or, ast.Load,
                                  ast.In, ast.NotIn, ast.Is, ast.IsNot, ast.Eq, ast.NotEq)) for n in ast.walk(e))

    @staticmethod
    def seq(parts: list[str]) -> str:
        parts = [p for p in parts if p != 'KNil']
        if not parts:
            return 'KNil'
        out = parts[-1]
        for p in reversed(parts[:-1]):
            out = f'(KSeq {p} {out})'
        return out

    def taint(self, st: ast.AST) -> str:
        self.tainted.append(f'line {getattr(st, "lineno", "?")}: {ast.unparse(st)[:70]}')
        return f'(KTainted {self.fresh(st)})'

    def eff(self, *nodes: ast.AST | None) -> str:
        return f'(KEff {self.fresh(*nodes)})'

    def block(self, body: list[ast.stmt]) -> str:
        return self.seq([self.stmt(st) for st in body])

    def is_log_call(self, e: ast.expr) -> bool:
        return isinstance(e, ast.Call) and isinstance(e.func, ast.Attribute) and (
            (isinstance(e.func.value, ast.Name) and e.func.value.id in self.loggers and e.func.attr in LOG_METHODS)
            or ast.unparse(e.func) == 'warnings.warn')

    def is_self_update(self, e: ast.expr) -> bool:
        return isinstance(e, ast.Call) and isinstance(e.func, ast.Attribute) and isinstance(e.func.value, ast.Name) \
            and e.func.value.id in self.mut and e.func.attr in MUTATING_METHODS

    def args_effect(self, call: ast.Call) -> list[str]:
        """The arguments of a log / update call are evaluated first: anything but inert expressions is an effect."""
        args = list(call.args) + [k.value for k in call.keywords]
        if all(self.inert(a) or isinstance(a, ast.JoinedStr) and all(self.inert(v.value) for v in a.values if isinstance(v, ast.FormattedValue))
               or isinstance(a, ast.Attribute) and self.inert(a.value) for a in args):
            return []
        return self.calls(*args) + [self.eff(*args)]

    def stmt(self, st: ast.stmt) -> str:
        if isinstance(st, ast.Expr):
            v = st.value
            if isinstance(v, ast.Constant):
                return 'KNil'
            if self.is_log_call(v):
                return self.seq(self.args_effect(v) + ['KLog'])          # what is logged may mention the global state
            if self.is_self_update(v):
                return self.seq(self.args_effect(v) + [f'(KUpd {self.fresh(v)})'])
            if self.reads(st):
                return self.taint(st)
            cs = self.calls(v)
            if cs and isinstance(v, ast.Call) and len(cs) == 1 and (
                    isinstance(v.func, ast.Name) and v.func.id in self.state_funcs
                    or isinstance(v.func, ast.Attribute) and v.func.attr in self.state_methods and self.inert(v.func.value)) and \
                    all(self.inert(a) for a in list(v.args) + [k.value for k in v.keywords]):
                return cs[0]                  # `helper(a, b)` as a statement, inert arguments: nothing but the call
            return self.seq(cs + [self.eff(v)])
        if isinstance(st, (ast.Pass, ast.Global, ast.Nonlocal, ast.Import, ast.ImportFrom)):
            return 'KNil'
        if isinstance(st, (ast.FunctionDef, ast.AsyncFunctionDef, ast.ClassDef)):
            if self.reads(st):
                raise TranslateError(f'instancing.py:{st.lineno}: nested definition `{st.name}` reads module-level state')
            return 'KNil'
        if isinstance(st, (ast.Assign, ast.AugAssign, ast.AnnAssign, ast.Delete)):
            tgs = st.targets if isinstance(st, (ast.Assign, ast.Delete)) else [st.target]
            roots = []
            for t in tgs:
                r = t
                while isinstance(r, (ast.Subscript, ast.Attribute)):
                    r = r.value
                roots.append(r.id if isinstance(r, ast.Name) else None)
            if roots and all(r in self.mut for r in roots) and all(isinstance(t, (ast.Subscript, ast.Name)) for t in tgs):
                val = getattr(st, 'value', None)
                pre = [] if val is None or self.inert(val) else [self.eff(val)]
                return self.seq(pre + [f'(KUpd {self.fresh(st)})'])        # G[k] = v / del G[k] / G = ... (with `global`)
            if isinstance(st, ast.AnnAssign) and st.value is None:
                return 'KNil'
            return self.taint(st) if self.reads(st) else self.seq(self.calls(st) + [self.eff(st)])
        if isinstance(st, ast.Assert):
            return self.taint(st) if self.reads(st) else self.seq(self.calls(st) + [self.eff(st)])
        if type(st) in JUMPS:
            val = getattr(st, 'value', None) if isinstance(st, ast.Return) else getattr(st, 'exc', None) if isinstance(st, ast.Raise) else None
            pre = []
            if val is not None and self.reads(val):
                pre = [self.taint(st)]
            elif val is not None and not self.inert(val):
                pre = self.calls(val) + [self.eff(val)]
            elif isinstance(st, ast.Return) and val is not None and not (isinstance(val, ast.Constant) and val.value is None):
                pre = [self.eff(val)]          # a returned value is data handed to the caller: only a bare `return` is quiet
            return self.seq(pre + [f'(KJump {JUMPS[type(st)]})'])
        if isinstance(st, ast.If):
            a, b = self.block(st.body), self.block(st.orelse)
            if self.reads(st.test):
                self.global_tests.append(f'line {st.lineno}: {ast.unparse(st.test)[:70]}')
                pre = [] if self.inert(st.test) else [self.taint(st.test)]
                return self.seq(pre + [f'(KIf (TGlobal {self.fresh(st.test)}) {a} {b})'])
            pre = [] if self.inert(st.test) else self.calls(st.test) + [self.eff(st.test)]
            return self.seq(pre + [f'(KIf (TOther {self.fresh(st.test)}) {a} {b})'])
        if isinstance(st, ast.For):
            if st.orelse:
                raise TranslateError(f'instancing.py:{st.lineno}: for/else in a function that reads module-level state')
            head = [self.taint(st.iter)] if self.reads(st.iter) or self.reads(st.target) else self.calls(st.iter) + [self.eff(st.iter)]
            return self.seq(head + [f'(KLoop {self.fresh(st.target, st.iter)} {self.block(st.body)})'])
        if isinstance(st, ast.Try):
            if st.finalbody:
                raise TranslateError(f'instancing.py:{st.lineno}: try/finally in a function that reads module-level state')
            chain = '(KJump JRaise)'
            for h in reversed(st.handlers):
                if h.type is not None and self.reads(h.type):
                    raise TranslateError(f'instancing.py:{h.lineno}: except clause reads module-level state')
                chain = f'(KIf (TOther {self.fresh(h.type)}) {self.block(h.body)} {chain})'
            return f'(KTry {self.block(st.body)} {chain} {self.block(st.orelse)})'
        raise TranslateError(f'instancing.py:{st.lineno}: statement {type(st).__name__} in a function that reads module-level state')


def _process_state(tree: ast.Module) -> dict:
    """Every function of instancing.py that mentions a module-level mutable object, as a skeleton; collapse_one always."""
    ms = _module_state(tree)
    mut = {k for k, v in ms['names'].items() if v == 'mutable'}
    loggers = {k for k, v in ms['names'].items() if v == 'logger'}
    funcs: list[tuple[str, ast.FunctionDef]] = []
    for n in tree.body:
        if isinstance(n, ast.FunctionDef) and not _is_overload(n):
            funcs.append((n.name, n))
        if isinstance(n, ast.ClassDef):
            funcs += [(f'{n.name}.{f.name}', f) for f in n.body if isinstance(f, ast.FunctionDef) and not _is_overload(f)]
    out, tests, tainted = [], [], []
    sites_c1: tuple = ({}, {}, None)
    logger_misuse: list[str] = []
    # functions that touch the module-level state, directly or through a call of such a function (fixpoint)
    direct = {qn for qn, fn in funcs if any(isinstance(x, ast.Name) and x.id in mut for x in ast.walk(fn))}
    state: set[str] = set(direct)
    while True:
        names = {qn for qn in state if '.' not in qn}
        meths = {qn.split('.', 1)[1] for qn in state if '.' in qn}
        more = {qn for qn, fn in funcs if qn not in state and any(
            isinstance(x, ast.Call) and (isinstance(x.func, ast.Name) and x.func.id in names
                                         or isinstance(x.func, ast.Attribute) and x.func.attr in meths) for x in ast.walk(fn))}
        if not more:
            break
        state |= more
    state_funcs = {qn: fn for qn, fn in funcs if qn in state and '.' not in qn}
    state_methods: dict[str, ast.FunctionDef] = {}
    for qn, fn in funcs:
        if qn in state and '.' in qn:
            m = qn.split('.', 1)[1]
            if m in state_methods:
                raise TranslateError(f'instancing.py: two methods named `{m}` touch module-level state (calls are resolved by name)')
            state_methods[m] = fn
    # other state that outlives a call: mutable default arguments, memoising decorators, function attributes
    hidden_state: list[str] = []
    for qn, fn in funcs:
        for d in fn.args.defaults + [d for d in fn.args.kw_defaults if d is not None]:
            if not _immutable_value(d) and not (isinstance(d, ast.Call) and not d.args and not d.keywords
                                                and ast.unparse(d.func) in ('frozenset', 'tuple', 'object')):
                if isinstance(d, (ast.List, ast.Dict, ast.Set, ast.ListComp, ast.DictComp, ast.SetComp, ast.Call)):
                    hidden_state.append(f'{qn}: mutable default argument `{ast.unparse(d)[:40]}`')
        for d in fn.decorator_list:
            dn = ast.unparse(d.func if isinstance(d, ast.Call) else d).split('.')[-1]
            if 'cache' in dn.lower() or dn in ('memoize', 'memoise', 'singledispatch'):
                hidden_state.append(f'{qn}: decorator `{dn}`')
    fnames = {qn for qn, _ in funcs if '.' not in qn}
    for x in ast.walk(tree):
        if isinstance(x, ast.Attribute) and isinstance(x.ctx, (ast.Store, ast.Del)) and isinstance(x.value, ast.Name) and x.value.id in fnames:
            hidden_state.append(f'line {x.lineno}: function attribute `{ast.unparse(x)}` is assigned')
    for qn, fn in funcs:
        # the logger is process-global too: anything but `LOGGER.<level>(...)` as a statement would be a read of its configuration
        stmt_calls = {id(st.value.func.value) for st in ast.walk(fn) if isinstance(st, ast.Expr) and isinstance(st.value, ast.Call)
                      and isinstance(st.value.func, ast.Attribute) and st.value.func.attr in LOG_METHODS}
        for x in ast.walk(fn):
            if isinstance(x, ast.Name) and x.id in loggers and id(x) not in stmt_calls:
                logger_misuse.append(f'{qn} line {x.lineno}')
        if qn != 'collapse_one' and qn not in state:
            continue
        if any(a.arg in mut for a in fn.args.args + fn.args.kwonlyargs) or \
                any(isinstance(x, ast.Name) and isinstance(x.ctx, ast.Store) and x.id in mut for x in ast.walk(fn)
                    if not any(isinstance(g, ast.Global) and x.id in g.names for g in ast.walk(fn))):
            raise TranslateError(f'instancing.py: {qn} shadows a module-level name')
        K = _Skel(mut, loggers, state_funcs, state_methods, (qn if '.' not in qn else '.' + qn.split('.', 1)[1],))
        sk = K.block(_body(fn))
        out.append((qn, sk))
        if qn == 'collapse_one':
            sites_c1 = (dict(K.site_nodes), dict(K.callee_sites), fn)
        tests += [f'{qn} {t}' for t in K.global_tests]
        tainted += [f'{qn} {t}' for t in K.tainted]
    return {'module_level': ms['names'], 'class_level': ms['class_level'], 'functions': out, 'global_tests': tests, 'tainted': tainted,
            'logger_misuse': logger_misuse, 'hidden_state': hidden_state, 'calls_inlined': sum(sk.count('(KCall ') for _q, sk in out),
            'sites_collapse_one': sites_c1}


# ---------------------------------------------------------------------------------------------- statement kinds (round 5)
SCALAR_TYPES = {'int', 'str', 'float', 'bool', 'None', 'bytes'}
VALUE_METHODS = {'casefold', 'lower', 'upper', 'startswith', 'endswith', 'strip', 'lstrip', 'rstrip', 'split', 'rsplit', 'partition',
                 'rpartition', 'format', 'join', 'encode', 'isdigit', 'find', 'replace', 'as_integer_ratio', 'is_integer'}


def _ann_name(t: ast.expr | None) -> str | None:
    if isinstance(t, ast.Name):
        return t.id
    if isinstance(t, ast.Constant) and isinstance(t.value, str) and t.value.isidentifier():
        return t.value
    if isinstance(t, ast.Constant) and t.value is None:
        return 'None'
    if isinstance(t, ast.Attribute):
        return t.attr
    return None


def _ann_scalar(t: ast.expr | None) -> bool:
    """The annotation denotes immutable scalars only: int / str / float / bool / None, Optional[..] or unions of those."""
    if t is None:
        return False
    if _ann_name(t) in SCALAR_TYPES:
        return True
    if isinstance(t, ast.BinOp) and isinstance(t.op, ast.BitOr):
        return _ann_scalar(t.left) and _ann_scalar(t.right)
    if isinstance(t, ast.Subscript) and _ann_name(t.value) in ('Optional', 'Union'):
        parts = t.slice.elts if isinstance(t.slice, ast.Tuple) else [t.slice]
        return all(_ann_scalar(x) for x in parts)
    return False


def _ann_parts(t: ast.expr | None, heads: set[str]) -> list[ast.expr] | None:
    if isinstance(t, ast.Subscript) and _ann_name(t.value) in heads:
        return list(t.slice.elts) if isinstance(t.slice, ast.Tuple) else [t.slice]
    return None


def _statement_kinds(c1: ast.FunctionDef, site_nodes: dict[int, list[ast.AST]], callee_sites: dict[int, ast.Call],
                     itree: ast.Module, vtree: ast.Module) -> dict:
    """Every numbered site of the skeleton of collapse_one -> KdLocal / KdRead / KdCopy cls / KdOther (SM/C17Kinds.v), decided
    from where the names bound to template objects occur in what the site evaluates.  Types come from the class-level
    annotations of instancing.py / vmf.py; a name of unknown type is treated as a mutable template object."""
    classes: dict[str, ast.ClassDef] = {}
    for tree in (vtree, itree):
        for n in tree.body:
            if isinstance(n, ast.ClassDef):
                classes[n.name] = n
    def field_ann(cls: str, attr: str) -> ast.expr | None:
        c = classes.get(cls)
        if c is None:
            return None
        for n in c.body:
            if isinstance(n, ast.AnnAssign) and isinstance(n.target, ast.Name) and n.target.id == attr:
                return n.annotation
        return None
    file_arg = next((a for a in c1.args.args + c1.args.kwonlyargs if a.arg == 'file'), None)
    if file_arg is None or _ann_name(file_arg.annotation) not in classes:
        raise TranslateError('collapse_one: parameter `file` with a class annotation not found')
    UNKNOWN = ast.Name(id='?unknown', ctx=ast.Load())
    tenv: dict[str, ast.expr] = {'file': file_arg.annotation}
    parents: dict[int, ast.AST] = {}
    for n in ast.walk(c1):
        for ch in ast.iter_child_nodes(n):
            parents[id(ch)] = n
    def root(e: ast.AST) -> str | None:
        while isinstance(e, (ast.Attribute, ast.Subscript)):
            e = e.value
        return e.id if isinstance(e, ast.Name) else None
    def typeof(e: ast.AST) -> ast.expr:
        if isinstance(e, ast.Name):
            return tenv.get(e.id, UNKNOWN)
        if isinstance(e, ast.Attribute):
            cls = _ann_name(typeof(e.value))
            return (field_ann(cls, e.attr) if cls in classes else None) or UNKNOWN
        if isinstance(e, ast.Subscript):
            t = typeof(e.value)
            d = _ann_parts(t, {'dict', 'Dict', 'Mapping', 'MutableMapping'})
            if d is not None and len(d) == 2:
                return d[1]
            l = _ann_parts(t, {'list', 'List', 'Sequence'})
            if l is not None and len(l) == 1 and not isinstance(e.slice, ast.Slice):
                return l[0]
        return UNKNOWN
    def elem_type(t: ast.expr) -> ast.expr:
        l = _ann_parts(t, {'list', 'List', 'Sequence', 'set', 'Set', 'frozenset', 'Iterable', 'Collection', 'AbstractSet'})
        return l[0] if l is not None and len(l) == 1 else UNKNOWN
    def is_chain(e: ast.AST) -> bool:
        return isinstance(e, ast.Name) or isinstance(e, (ast.Attribute, ast.Subscript)) and is_chain(e.value)
    kept: set[tuple[str, str, bool]] = set()
    def bind(target: ast.expr, t: ast.expr, src: ast.expr | None, elem: bool) -> bool:
        """target := a value of type t read from a template object; True when the environment grew."""
        if isinstance(target, ast.Tuple):
            parts = _ann_parts(t, {'tuple', 'Tuple'})
            ch = False
            for k, el in enumerate(target.elts):
                ch |= bind(el, parts[k] if parts is not None and len(parts) == len(target.elts) else UNKNOWN, None, False)
            return ch
        if not isinstance(target, ast.Name):
            return False                     # a store into something else: judged at the site
        if _ann_scalar(t):
            if elem and isinstance(src, ast.Attribute) and _ann_name(typeof(src.value)) in classes:
                kept.add((_ann_name(typeof(src.value)), src.attr, True))
            return False                     # an immutable value, not a template object
        old = tenv.get(target.id)
        tkey = lambda x: _ann_name(x) or ast.dump(x)
        new = t if old is None or tkey(old) == tkey(t) else UNKNOWN
        if old is None or tkey(old) != tkey(new):
            tenv[target.id] = new
            return True
        return False
    changed = True
    while changed:
        changed = False
        for n in ast.walk(c1):
            if isinstance(n, (ast.For, ast.comprehension)):
                it = n.iter
                it, tgt_ = _strip_adapters(it, n.target)
                if it is not n.iter and is_chain(it) and root(it) in tenv:
                    changed |= bind(tgt_, elem_type(typeof(it)), it, True)
                    continue
                it = n.iter
                if isinstance(it, ast.Call) and isinstance(it.func, ast.Name) and it.func.id == 'zip' and isinstance(n.target, ast.Tuple) \
                        and len(n.target.elts) == len(it.args) and not it.keywords:
                    for t_, a_ in zip(n.target.elts, it.args):
                        if is_chain(a_) and root(a_) in tenv:
                            changed |= bind(t_, elem_type(typeof(a_)), a_, True)
                elif is_chain(it) and root(it) in tenv:
                    changed |= bind(n.target, elem_type(typeof(it)), it, True)
                elif any(isinstance(x, ast.Name) and x.id in tenv for x in ast.walk(it)):
                    # template objects reach the loop through something else (enumerate(..), sorted(..), a method ..):
                    # every target name may be a template object, of unknown type
                    for x in ast.walk(n.target):
                        if isinstance(x, ast.Name):
                            changed |= bind(x, UNKNOWN, None, False)
            elif isinstance(n, ast.Assign) and is_chain(n.value) and root(n.value) in tenv:
                for tg in n.targets:
                    changed |= bind(tg, typeof(n.value), n.value, False)
            elif isinstance(n, (ast.AnnAssign, ast.NamedExpr)) and n.value is not None and is_chain(n.value) and root(n.value) in tenv:
                changed |= bind(n.target, typeof(n.value), n.value, False)
    # a template name bound in any other way (argument re-bound, with-item, augmented assignment ...) is not tracked: fail closed
    for n in ast.walk(c1):
        if isinstance(n, ast.Name) and isinstance(n.ctx, (ast.Store, ast.Del)) and n.id in tenv:
            par = parents.get(id(n))
            while isinstance(par, ast.Tuple):
                par = parents.get(id(par))
            if not isinstance(par, (ast.For, ast.comprehension, ast.Assign, ast.AnnAssign, ast.NamedExpr)):
                raise TranslateError(f'collapse_one line {n.lineno}: template name `{n.id}` bound by {type(par).__name__}')
            if isinstance(par, (ast.Assign, ast.AnnAssign, ast.NamedExpr)) and not (is_chain(par.value) and root(par.value) in tenv):
                tenv[n.id] = UNKNOWN          # also bound to something else: unknown type, still a template name
    # functions of vmf.py that only read a parameter: `param.attr` loads of scalar fields, nothing else
    def reads_only(call: ast.Call, arg: ast.expr) -> str | None:
        """None when the callee only reads the parameter [arg] is passed for, else the reason."""
        f = call.func
        if not (isinstance(f, ast.Attribute) and isinstance(f.value, ast.Name) and f.value.id in classes):
            return 'callee is not Class.method of vmf.py / instancing.py'
        fn = next((m for m in classes[f.value.id].body if isinstance(m, ast.FunctionDef) and m.name == f.attr and not _is_overload(m)), None)
        if fn is None:
            return f'{f.value.id}.{f.attr} not found'
        decos = {ast.unparse(d) for d in fn.decorator_list}
        if not decos <= {'classmethod', 'staticmethod'} or not decos:
            return f'{f.value.id}.{f.attr} is not a classmethod / staticmethod'
        params = [a for a in fn.args.posonlyargs + fn.args.args][1 if 'classmethod' in decos else 0:]
        if call.keywords or any(isinstance(a, ast.Starred) for a in call.args) or arg not in call.args or call.args.index(arg) >= len(params):
            return 'argument passing form'
        prm = params[call.args.index(arg)]
        pcls = _ann_name(prm.annotation)
        if pcls not in classes or pcls != _ann_name(typeof(arg)):
            return f'parameter `{prm.arg}` is not annotated with the class of the argument'
        fpar: dict[int, ast.AST] = {}
        for n in ast.walk(fn):
            for ch in ast.iter_child_nodes(n):
                fpar[id(ch)] = n
        for n in ast.walk(fn):
            if isinstance(n, (ast.FunctionDef, ast.Lambda)) and n is not fn:
                return 'nested function'
            if isinstance(n, ast.Name) and n.id == prm.arg:
                par = fpar.get(id(n))
                if not (isinstance(n.ctx, ast.Load) and isinstance(par, ast.Attribute) and par.value is n and isinstance(par.ctx, ast.Load)):
                    return f'`{prm.arg}` used as `{ast.unparse(par)[:40]}`'
                if not _ann_scalar(field_ann(pcls, par.attr)):
                    return f'`{prm.arg}.{par.attr}` is not a scalar field'
                kept.add((pcls, par.attr, False))
        return None
    kinds: dict[int, str] = {}
    why: dict[int, str] = {}
    census = {'KdLocal': 0, 'KdRead': 0, 'KdCopy': 0, 'KdOther': 0}
    def judge(node: ast.AST) -> tuple[list[str], list[str], int]:
        """(reasons for KdOther, copied classes, number of template reads) of one evaluated node."""
        bad: list[str] = []
        copies: list[str] = []
        reads = 0
        for n in ast.walk(node):
            if not (isinstance(n, ast.Name) and n.id in tenv):
                continue
            if not isinstance(n.ctx, ast.Load):
                continue                      # the binding of a template local (judged through its value)
            reads += 1
            top: ast.AST = n
            while True:
                par = parents.get(id(top))
                if isinstance(par, (ast.Attribute, ast.Subscript)) and par.value is top:
                    if not isinstance(par.ctx, ast.Load):
                        bad.append(f'line {n.lineno}: store / del through `{ast.unparse(par)[:50]}`')
                        break
                    if isinstance(parents.get(id(par)), ast.Call) and parents[id(par)].func is par:
                        break                 # a method call on `top`
                    top = par
                else:
                    break
            par = parents.get(id(top))
            if bad and bad[-1].startswith(f'line {n.lineno}: store'):
                continue
            gp = parents.get(id(par)) if par is not None else None
            if isinstance(par, ast.Attribute) and par.value is top and isinstance(gp, ast.Call) and gp.func is par:
                cls = _ann_name(typeof(top))
                if par.attr == 'copy' and cls in classes:
                    copies.append(cls)
                elif par.attr in VALUE_METHODS and _ann_scalar(typeof(top)):
                    pass
                else:
                    bad.append(f'line {n.lineno}: method `{par.attr}` called on the template object `{ast.unparse(top)[:40]}`')
                continue
            if isinstance(par, ast.AugAssign) and par.target is top:
                bad.append(f'line {n.lineno}: augmented assignment to `{ast.unparse(top)[:40]}`')
                continue
            t = typeof(top)
            if _ann_scalar(t):
                if isinstance(top, ast.Attribute) and _ann_name(typeof(top.value)) in classes:
                    kept.add((_ann_name(typeof(top.value)), top.attr, False))
                continue                      # an immutable value: may be compared, kept, used as a key
            # a mutable (or unknown) object of the template: only consumed
            if isinstance(par, (ast.For, ast.comprehension)) and par.iter is top:
                continue
            if isinstance(par, ast.Call) and isinstance(par.func, ast.Name) and par.func.id == 'zip' and top in par.args \
                    and isinstance(gp, (ast.For, ast.comprehension)) and gp.iter is par:
                continue
            if isinstance(par, ast.Call) and isinstance(par.func, ast.Name) and top in par.args and not par.keywords:
                if par.func.id in ('len', 'bool', 'any', 'all', 'isinstance'):
                    continue                  # a number / truth value
                if par.func.id in ('enumerate', 'reversed', 'sorted', 'list', 'tuple', 'iter'):
                    outer, up = par, gp
                    while isinstance(up, ast.Call) and isinstance(up.func, ast.Name) and up.func.id in ('enumerate', 'reversed', 'sorted', 'list', 'tuple', 'iter') \
                            and outer in up.args and not up.keywords:
                        outer, up = up, parents.get(id(up))
                    if isinstance(up, (ast.For, ast.comprehension)) and up.iter is outer:
                        continue              # iterated over at once: the elements are bound to tracked template names
            if isinstance(par, (ast.Compare, ast.BoolOp)) or isinstance(par, ast.UnaryOp) and isinstance(par.op, ast.Not) \
                    or isinstance(par, (ast.If, ast.IfExp, ast.While)) and par.test is top:
                continue
            if isinstance(par, (ast.Assign, ast.AnnAssign, ast.NamedExpr)) and par.value is top:
                tgs = par.targets if isinstance(par, ast.Assign) else [par.target]
                flat = [x for tg in tgs for x in (tg.elts if isinstance(tg, ast.Tuple) else [tg])]
                if all(isinstance(x, ast.Name) and (x.id in tenv or True) for x in flat) and all(isinstance(x, ast.Name) for x in flat):
                    scal = _ann_parts(t, {'tuple', 'Tuple'})
                    if all(x.id in tenv for x in flat if not (scal is not None and len(scal) == len(flat) and _ann_scalar(scal[flat.index(x)]))):
                        continue              # bound to tracked template locals
            if isinstance(par, ast.Call) and top in par.args:
                r = reads_only(par, top)
                if r is None:
                    continue
                bad.append(f'line {n.lineno}: template object `{ast.unparse(top)[:40]}` handed to `{ast.unparse(par.func)[:40]}`: {r}')
                continue
            bad.append(f'line {n.lineno}: template object `{ast.unparse(top)[:40]}` used in `{ast.unparse(par)[:50] if par is not None else "?"}`')
        return bad, copies, reads
    for i, nodes in sorted(site_nodes.items()):
        bad: list[str] = []
        copies: list[str] = []
        reads = 0
        for nd in nodes:
            b, c, r = judge(nd)
            bad += b
            copies += c
            reads += r
        if len(set(copies)) > 1:
            bad.append(f'copies of {sorted(set(copies))} in one statement')
        if bad:
            kinds[i], why[i] = 'KdOther', '; '.join(bad)
        elif copies:
            kinds[i] = f'(KdCopy "{copies[0]}")'
        elif reads:
            kinds[i] = 'KdRead'
        else:
            kinds[i] = 'KdLocal'
    # completeness of the walk: every load of a template name lies in what some site evaluates, or in a logging statement
    # (KLog: modelled as a no-op, its arguments are only formatted); nested functions / lambdas that mention one are not followed
    covered = {id(x) for nodes in site_nodes.values() for nd in nodes for x in ast.walk(nd)}
    for n in ast.walk(c1):
        if isinstance(n, (ast.FunctionDef, ast.AsyncFunctionDef, ast.Lambda)) and n is not c1 \
                and any(isinstance(x, ast.Name) and x.id in tenv for x in ast.walk(n)):
            raise TranslateError(f'collapse_one line {n.lineno}: a nested function / lambda mentions a template object')
        if isinstance(n, ast.Name) and n.id in tenv and isinstance(n.ctx, ast.Load) and id(n) not in covered:
            st_ = n
            while st_ is not None and not isinstance(st_, ast.stmt):
                st_ = parents.get(id(st_))
            is_log = isinstance(st_, ast.Expr) and isinstance(st_.value, ast.Call) and isinstance(st_.value.func, ast.Attribute) \
                and (st_.value.func.attr in LOG_METHODS or ast.unparse(st_.value.func) == 'warnings.warn')
            if not is_log:
                raise TranslateError(f'collapse_one line {n.lineno}: template name `{n.id}` is used outside every site of the skeleton')
    for i, call in callee_sites.items():
        # statements of an inlined helper: local when no template object goes in, otherwise not classified
        if any(isinstance(x, ast.Name) and x.id in tenv for x in ast.walk(call)):
            kinds[i], why[i] = 'KdOther', f'line {call.lineno}: inlined helper `{ast.unparse(call.func)}` receives a template object'
        else:
            kinds[i] = 'KdLocal'
    for k in kinds.values():
        census['KdCopy' if k.startswith('(KdCopy') else k] += 1
    return {'kinds': kinds, 'why_other': why, 'census': census, 'kept': sorted(kept),
            'template_names': {k: ast.unparse(v) for k, v in sorted(tenv.items())}}


# ---------------------------------------------------------------------------------------------- visible objects, ID maps
def _unalias(e: ast.expr, aliases: dict[str, ast.expr], depth: int = 0) -> ast.expr:
    """`template.brushes` with the single assignment `template = file.vmf` -> `file.vmf.brushes` (attribute chains only)."""
    if isinstance(e, ast.Attribute):
        return ast.Attribute(value=_unalias(e.value, aliases, depth), attr=e.attr, ctx=ast.Load())
    if isinstance(e, ast.Name) and e.id in aliases and depth < 5 and isinstance(aliases[e.id], (ast.Attribute, ast.Name)):
        return _unalias(aliases[e.id], aliases, depth + 1)
    return e


def _visibility_and_ids(c1: ast.FunctionDef, fk: ast.FunctionDef) -> dict:
    """`for old_brush in file.vmf.brushes` / `for old_ent in file.vmf.entities`: the guard that skips hidden objects, that
    nothing else skips one, and that both copies and the SIDE_LIST branch of fixup_key use the same face-ID map."""
    def loop(attr: str) -> ast.For:
        al = _single_assigned_locals(c1)
        found = [n for n in ast.walk(c1) if isinstance(n, ast.For)
                 and ast.unparse(_unalias(_strip_adapters(n.iter, n.target)[0], al)) == f'file.vmf.{attr}']
        if len(found) != 1:
            raise TranslateError(f'collapse_one: expected exactly one loop over file.vmf.{attr}')
        return found[0]

    def guard(lp: ast.For, var: str, tests: tuple[str, ...]) -> tuple[bool, bool]:
        first = lp.body[0]
        skips = isinstance(first, ast.If) and ast.unparse(first.test) in tests and len(first.body) == 1 \
            and isinstance(first.body[0], ast.Continue) and not first.orelse
        # no other way to leave an iteration early / to drop a copy
        others = [n for st in lp.body[(1 if skips else 0):] for n in ast.walk(st)
                  if isinstance(n, (ast.Continue, ast.Break, ast.Return)) and _innermost_loop(lp, n) is lp]
        return skips, not others
    wb, eb = loop('brushes'), loop('entities')
    w_skip, w_only = guard(wb, 'old_brush', ('old_brush.hidden or not old_brush.vis_shown', 'not old_brush.vis_shown or old_brush.hidden'))
    e_skip, e_only = guard(eb, 'old_ent', ('visgroup is False and (old_ent.hidden or not old_ent.vis_shown)',
                                           'visgroup is False and (not old_ent.vis_shown or old_ent.hidden)'))
    adds = {'vmf.add_brush(new_brush)': wb, 'vmf.add_ent(new_ent)': eb}
    added = all(any(isinstance(st, ast.Expr) and ast.unparse(st.value) == call for st in lp.body) for call, lp in adds.items())
    copies = [n for n in ast.walk(c1) if isinstance(n, ast.Call) and isinstance(n.func, ast.Attribute) and n.func.attr == 'copy'
              and ast.unparse(n.func.value) in ('old_brush', 'old_ent')]
    same_map = len(copies) == 2 and all({k.arg: ast.unparse(k.value) for k in c.keywords}.get('side_mapping') == 'inst.face_ids' for c in copies)
    to_target = len(copies) == 2 and all({k.arg: ast.unparse(k.value) for k in c.keywords}.get('vmf_file') == 'vmf' for c in copies)
    sl = [nd for nms, nd in _fixup_key_branches(fk) if 'SIDE_LIST' in nms]
    sl_nodes = [n for st in (sl[0].body if len(sl) == 1 else []) for n in ast.walk(st)]
    reads_map = any(isinstance(n, ast.Subscript) and ast.unparse(n.value) == 'self.face_ids' for n in sl_nodes) \
        and not any(isinstance(n, ast.Attribute) and n.attr.endswith('_ids') and n.attr != 'face_ids' for n in sl_nodes)
    return {'hidden_world_brushes_skipped': w_skip, 'world_brush_loop_skips_nothing_else': w_only,
            'hidden_entities_skipped_when_visgroups_stripped': e_skip, 'entity_loop_skips_nothing_else': e_only,
            'copies_added_to_target': added and to_target, 'face_ids_shared_by_copies': same_map, 'side_lists_read_face_ids': reads_map}


def _innermost_loop(root: ast.For, node: ast.AST):
    """The innermost for/while loop inside [root] (inclusive) that contains [node]."""
    best = None
    for lp in ast.walk(root):
        if isinstance(lp, (ast.For, ast.While)) and any(n is node for n in ast.walk(lp)):
            if best is None or any(n is lp for n in ast.walk(best)):
                best = lp
    return best


# ---------------------------------------------------------------------------------------------- what localise writes
def _write_modes(before: dict[str, Any], after: SObj, cls: str) -> list[tuple[str, str, str]]:
    """For every field of a symbolic object: was the object it refers to modified in place, re-bound, or left alone?"""
    def snap_eq(a, b) -> bool:
        return a == b
    out = []
    for f, (obj0, snap0) in before.items():
        obj1 = after.f[f]
        items0 = obj0 if isinstance(obj0, list) else [obj0]
        items1 = obj1 if isinstance(obj1, list) else [obj1]
        if obj0 is None and obj1 is None:
            continue
        if obj1 is not obj0 or len(items0) != len(items1) or any(x is not y for x, y in zip(items0, items1)):
            out.append((cls, f, 'WRebound'))
        elif _deep_snap(obj1) != snap0:
            out.append((cls, f, 'WInPlace'))
        else:
            out.append((cls, f, 'WUntouched'))
    return out


def _deep_snap(o):
    if isinstance(o, list):
        return [_deep_snap(x) for x in o]
    if isinstance(o, SObj):
        return (o.kind, {k: _deep_snap(v) for k, v in o.f.items()})
    return o


# ---------------------------------------------------------------------------------------------- main
def translate() -> tuple[str, dict]:
    I = Interp()
    E = Emitter()
    side: dict[str, Any] = {}
    V, Mx, U = 'vec', 'mat', 'uvaxis'

    # --- math.py primitives ------------------------------------------------------------------
    v = sym_vec('v'); m = sym_mat('m')
    I.call_method(m, '_vec_rot', [v])
    E.define('g_vec_rot', [('m', Mx), ('v', V)], out_vec(v), 'MatrixBase._vec_rot(self=m, vec=v): the vector afterwards')

    v = sym_vec('v'); m = sym_mat('m')
    r = I.call_method(v, '__matmul__', [m])
    E.define('g_vec_matmul', [('v', V), ('m', Mx)], out_vec(r), 'VecBase.__matmul__: v @ m (the returned vector)')
    E.define('g_vec_matmul_self_after', [('v', V), ('m', Mx)], out_vec(v), 'v @ m must not change v')

    a = sym_vec('a'); b = sym_vec('b')
    r = I.call_method(a, '__add__', [b])
    E.define('g_vec_add', [('a', V), ('b', V)], out_vec(r), 'VecBase.__add__ (exec template, Vec operand): a + b')

    a = sym_vec('a'); b = sym_vec('b')
    r = I.call_method(a, '__iadd__', [b])
    if r is not a:
        raise TranslateError('Vec.__iadd__ does not return self')
    E.define('g_vec_iadd', [('a', V), ('b', V)], out_vec(a), 'Vec.__iadd__ (exec template): a += b, a afterwards')

    a = sym_vec('a'); b = sym_vec('b')
    r = I.call_method(a, 'dot', [b])
    E.define('g_dot', [('a', V), ('b', V)], [r], 'VecBase.dot')

    p = sym_vec('p'); o = sym_vec('o'); m = sym_mat('m')
    I.call_method(p, 'localise', [o, m])
    E.define('g_vec_localise', [('p', V), ('o', V), ('m', Mx)], out_vec(p), 'Vec.localise(origin=o, angles=m): the point afterwards')
    E.define('g_vec_localise_origin_after', [('p', V), ('o', V), ('m', Mx)], out_vec(o), 'Vec.localise must not change the origin argument')

    a = sym_mat('a'); b = sym_mat('b')
    I.call_method(a, '_mat_mul', [b])
    E.define('g_mat_mul', [('a', Mx), ('b', Mx)], out_mat(a), 'MatrixBase._mat_mul(self=a, other=b): a afterwards')
    E.define('g_mat_mul_other_after', [('a', Mx), ('b', Mx)], out_mat(b), '_mat_mul must not change its argument')

    # --- vmf.py ------------------------------------------------------------------------------
    ax = sym_uv('ax'); o = sym_vec('o'); m = sym_mat('m')
    r = I.call_method(ax, 'localise', [o, m])
    E.define('g_uv_localise', [('ax', U), ('o', V), ('m', Mx)], out_uv(r), 'UVAxis.localise(origin=o, angles=m): the returned axis')

    def mk_side(is_disp: bool):
        return SObj('Side', {
            'planes': [sym_vec('p0'), sym_vec('p1'), sym_vec('p2')], 'uaxis': sym_uv('u'), 'vaxis': sym_uv('w'),
            'strata_points': [sym_vec('sp')],
            'is_disp': is_disp, 'disp_pos': sym_vec('dp') if is_disp else None,
            '_disp_verts': [SObj('DispVertex', {'offset': sym_vec('vo'), 'normal': sym_vec('vn'), 'offset_norm': sym_vec('von')})]
            if is_disp else None})
    sd = mk_side(True); o = sym_vec('o'); m = sym_mat('m')
    side_fields = ['planes', 'uaxis', 'vaxis', 'strata_points', 'disp_pos', '_disp_verts']
    before_side = {f: (sd.f[f], _deep_snap(sd.f[f])) for f in side_fields}
    vert0 = sd.f['_disp_verts'][0]
    before_vert = {f: (vert0.f[f], _deep_snap(vert0.f[f])) for f in ('offset', 'normal', 'offset_norm')}
    I.call_method(sd, 'localise', [o, m])
    writes = _write_modes(before_side, sd, 'Side')
    if sd.f['_disp_verts'] and sd.f['_disp_verts'][0] is vert0:
        writes += _write_modes(before_vert, vert0, 'DispVertex_in_Side')
    P3 = [('p0', V), ('p1', V), ('p2', V), ('o', V), ('m', Mx)]
    for i in range(3):
        E.define(f'g_side_plane{i}', P3, out_vec(sd.f['planes'][i]), f'Side.localise: planes[{i}] afterwards')
    E.define('g_side_uaxis', [('u', U), ('o', V), ('m', Mx)], out_uv(sd.f['uaxis']), 'Side.localise: uaxis afterwards')
    E.define('g_side_vaxis', [('w', U), ('o', V), ('m', Mx)], out_uv(sd.f['vaxis']), 'Side.localise: vaxis afterwards')
    E.define('g_side_strata_point', [('sp', V), ('o', V), ('m', Mx)], out_vec(sd.f['strata_points'][0]),
             'Side.localise: an explicit vertex (strata_points / point_data) afterwards')
    E.define('g_side_disp_pos', [('dp', V), ('o', V), ('m', Mx)], out_vec(sd.f['disp_pos']), 'Side.localise (displacement): disp_pos afterwards')
    vert = sd.f['_disp_verts'][0]
    E.define('g_side_vert_offset', [('vo', V), ('m', Mx)], out_vec(vert.f['offset']), 'Side.localise (displacement): vertex offset afterwards')
    E.define('g_side_vert_normal', [('vn', V), ('m', Mx)], out_vec(vert.f['normal']), 'Side.localise (displacement): vertex normal afterwards')
    E.define('g_side_vert_offset_norm', [('von', V), ('m', Mx)], out_vec(vert.f['offset_norm']), 'Side.localise (displacement): vertex offset_norm afterwards')
    # non-displacement side must transform planes/uaxis/vaxis identically
    sd2 = mk_side(False); o2 = sym_vec('o'); m2 = sym_mat('m')
    I.call_method(sd2, 'localise', [o2, m2])
    same = all(out_vec(sd.f['planes'][i]) == out_vec(sd2.f['planes'][i]) for i in range(3)) and \
        out_uv(sd.f['uaxis']) == out_uv(sd2.f['uaxis']) and out_uv(sd.f['vaxis']) == out_uv(sd2.f['vaxis']) and \
        out_vec(sd.f['strata_points'][0]) == out_vec(sd2.f['strata_points'][0])
    E.lines.append(f'Definition g_side_plain_same_as_disp : bool := {"true" if same else "false"}.')

    sd = mk_side(False)
    sol = SObj('Solid', {'sides': [sd]})
    o = sym_vec('o'); m = sym_mat('m')
    before_sol = {'sides': (sol.f['sides'], _deep_snap(sol.f['sides']))}
    I.call_method(sol, 'localise', [o, m])
    writes += _write_modes(before_sol, sol, 'Solid')
    side['localise_writes'] = writes
    E.lines.append('Definition g_localise_writes : list write := [' + '; '.join(f'("{c}", "{f}", {md})' for c, f, md in writes) + '].')
    E.define('g_solid_plane0', P3, out_vec(sd.f['planes'][0]), 'Solid.localise: sides[0].planes[0] afterwards')
    E.define('g_solid_plane2', P3, out_vec(sd.f['planes'][2]), 'Solid.localise: sides[0].planes[2] afterwards')
    E.define('g_solid_strata_point', [('sp', V), ('o', V), ('m', Mx)], out_vec(sd.f['strata_points'][0]),
             'Solid.localise: sides[0].strata_points[0] afterwards')
    E.define('g_solid_uaxis', [('u', U), ('o', V), ('m', Mx)], out_uv(sd.f['uaxis']), 'Solid.localise: sides[0].uaxis afterwards')

    # --- instancing.py sites -----------------------------------------------------------------
    itree = ast.parse(src_text('instancing.py'))
    c1 = _find_func(itree, 'collapse_one')
    binds = {ast.unparse(s.targets[0]): ast.unparse(s.value) for s in c1.body
             if isinstance(s, ast.Assign) and isinstance(s.targets[0], ast.Name)}
    if binds.get('origin') != 'inst.pos' or binds.get('orient') != 'inst.orient':
        raise TranslateError('collapse_one: `origin = inst.pos` / `orient = inst.orient` not found')
    rebinds = [n.lineno for n in ast.walk(c1) for t in (n.targets if isinstance(n, ast.Assign) else
               [n.target] if isinstance(n, (ast.AugAssign, ast.For, ast.AnnAssign)) else [])
               for nm in ast.walk(t) if isinstance(nm, ast.Name) and nm.id in ('origin', 'orient')]
    if len(rebinds) != 2:
        raise TranslateError(f'collapse_one: origin/orient are re-bound (lines {rebinds})')
    loc_sites = []
    for lp in [n for n in ast.walk(c1) if isinstance(n, ast.For)]:
        for n in lp.body:
            for c in ([n.value] if isinstance(n, ast.Expr) and isinstance(n.value, ast.Call) else []):
                if isinstance(c.func, ast.Attribute) and c.func.attr == 'localise':
                    loc_sites.append({'recv': ast.unparse(c.func.value), 'args': [ast.unparse(a) for a in c.args],
                                      'loop': ast.unparse(_unalias(_strip_adapters(lp.iter, lp.target)[0], _single_assigned_locals(c1))), 'line': c.lineno,
                                      'unconditional': True})
    all_loc = [n for n in ast.walk(c1) if isinstance(n, ast.Call) and isinstance(n.func, ast.Attribute) and n.func.attr == 'localise']
    side['localise_sites'] = loc_sites
    world = [s for s in loc_sites if s['loop'] == 'file.vmf.brushes']
    entb = [s for s in loc_sites if s['loop'].startswith('zip(old_ent.solids')]
    # origin / orient are bound once to inst.pos / inst.orient and never re-bound (checked above): either spelling is the placement
    def placement_args(args: list[str]) -> bool:
        return [binds.get(a_, a_) if a_ in ('origin', 'orient') else a_ for a_ in args] == ['inst.pos', 'inst.orient']
    args_ok = all(placement_args(s['args']) for s in loc_sites) and len(all_loc) == len(loc_sites)
    E.lines.append(f'Definition g_collapse_world_brush_localise_sites : nat := {len(world)}.')
    E.lines.append(f'Definition g_collapse_ent_brush_localise_sites : nat := {len(entb)}.')
    E.lines.append(f'Definition g_collapse_localise_args_are_instance_placement : bool := {"true" if args_ok else "false"}.')

    def from_str_hook(name):
        return lambda *_a: sym_vec(name)

    def site_interp(vec_name='p'):
        J = Interp()
        J.opaque['Vec.from_str'] = from_str_hook(vec_name)
        J.opaque['str'] = lambda x: x
        return J, None

    # entity origin: if folded == 'origin': new_ent['origin'] = str(Vec.from_str(value) @ orient + origin)
    org_expr = None
    ang_rot = None
    for n in ast.walk(c1):
        if isinstance(n, ast.If) and ast.unparse(n.test) == "folded == 'origin'":
            st = n.body[0]
            if isinstance(st, ast.Assign) and ast.unparse(st.targets[0]) == "new_ent['origin']":
                org_expr = st.value
        if isinstance(n, ast.AugAssign) and ast.unparse(n.target) == 'angles' and isinstance(n.op, ast.MatMult):
            ang_rot = n
        # the same rotation written as a re-binding: angles = angles @ orient  (AngleBase.__matmul__, same matrix: g_angle_matmul)
        if isinstance(n, ast.Assign) and len(n.targets) == 1 and ast.unparse(n.targets[0]) == 'angles' and isinstance(n.value, ast.BinOp) \
                and isinstance(n.value.op, ast.MatMult) and ast.unparse(n.value.left) == 'angles':
            ang_rot = n
    if org_expr is None:
        raise TranslateError("collapse_one: store to new_ent['origin'] not found")
    ang_arg = None if ang_rot is None else ang_rot.value if isinstance(ang_rot, ast.AugAssign) else ang_rot.value.right
    if ang_arg is None or binds.get(ast.unparse(ang_arg), ast.unparse(ang_arg)) != 'inst.orient':
        raise TranslateError('collapse_one: `angles @= orient` not found')
    J, _ = site_interp()
    o_, m_ = sym_vec('o'), sym_mat('m')
    r = J.eval(org_expr, {'value': SStr('value'), 'orient': m_, 'origin': o_, 'inst': SObj('Instance', {'pos': o_, 'orient': m_})})
    E.define('g_collapse_ent_origin', [('p', V), ('o', V), ('m', Mx)], out_vec(r),
             "collapse_one: new_ent['origin'] as a function of the old origin p")

    # angles @= orient  (Angle.__imatmul__): the matrix handed to _to_angle
    def angle_site(call: Callable[[Interp, SObj, SObj], Any]) -> list:
        J = Interp()
        got: list = []
        J.opaque['Py_Matrix.from_angle'] = lambda *_a: sym_mat('a')
        J.opaque['mat._to_angle'] = lambda *_a: got.append(J._cur_mat) or SObj('Angle', {'done': True})
        # capture `mat` at the time of the _to_angle call: wrap eval_call
        orig = J.eval_call

        def wrapped(e, env):
            if ast.unparse(e.func) == 'mat._to_angle':
                J._cur_mat = env['mat']
            return orig(e, env)
        J.eval_call = wrapped            # type: ignore[method-assign]
        call(J, SObj('Angle', {}), sym_mat('r'))
        if len(got) != 1:
            raise TranslateError('Angle rotation: _to_angle call not found')
        return out_mat(got[0])
    comps = angle_site(lambda J, ang, r: J.call_method(ang, '__imatmul__', [r]))
    E.define('g_angle_imatmul', [('a', Mx), ('r', Mx)], comps,
             'Angle.__imatmul__(Matrix r): the matrix converted back to angles, a = Matrix.from_angle(self)')
    comps = angle_site(lambda J, ang, r: J.call_method(ang, '__matmul__', [r]))
    E.define('g_angle_matmul', [('a', Mx), ('r', Mx)], comps,
             'AngleBase.__matmul__(Matrix r): the matrix converted back to angles, a = Matrix.from_angle(self)')

    # Instance.fixup_key: vector-valued key types
    fk = _find_func(itree, 'fixup_key', 'Instance')
    branches = _fixup_key_branches(fk)
    side['fixup_key_branches'] = [b[0] for b in branches]
    want = {'VEC': None, 'EXT_VEC_DIRECTION': None, 'ANGLES': None, 'VEC_AXIS': None}
    for names, node in branches:
        for w in want:
            if w in names:
                want[w] = (names, node)
    for w, vv in want.items():
        if vv is None:
            raise TranslateError(f'fixup_key: no branch for ValueTypes.{w}')
    env0 = lambda: {'value': SStr('value'), 'self': SObj('Side', {'orient': sym_mat('m'), 'pos': sym_vec('o')})}
    names, node = want['VEC']
    E.lines.append('Definition g_fixup_key_position_types : list (list N) := [' + '; '.join(_coq_codes(n) for n in names) + '].')
    side['position_types'] = names
    J, _ = site_interp()
    if not (len(node.body) == 1 and isinstance(node.body[0], ast.Return)):
        raise TranslateError('fixup_key: VEC branch is not a single return')
    E.define('g_fixup_key_position', [('p', V), ('o', V), ('m', Mx)], out_vec(J.eval(node.body[0].value, env0())),
             'Instance.fixup_key for VEC / VEC_ORIGIN / VEC_LINE keyvalues')
    names, node = want['EXT_VEC_DIRECTION']
    J, _ = site_interp()
    E.define('g_fixup_key_direction', [('p', V), ('m', Mx)], out_vec(J.eval(node.body[0].value, env0())),
             'Instance.fixup_key for EXT_VEC_DIRECTION keyvalues (no offset)')
    names, node = want['VEC_AXIS']
    axis_vals = [s.value for s in node.body if isinstance(s, ast.Assign) and any(isinstance(x, ast.BinOp) and isinstance(x.op, ast.MatMult) for x in ast.walk(s.value))]
    if len(axis_vals) != 2:
        raise TranslateError('fixup_key: VEC_AXIS branch does not transform two points')
    for k, val in enumerate(axis_vals):
        J, _ = site_interp()
        E.define(f'g_fixup_key_axis{k}', [('p', V), ('o', V), ('m', Mx)], out_vec(J.eval(val, {**env0(), 'first_str': SStr('a'), 'second_str': SStr('b')})),
                 f'Instance.fixup_key for VEC_AXIS keyvalues, point {k}')
    names, node = want['ANGLES']
    if ast.unparse(node.body[0]) != 'return str(Angle.from_str(value) @ self.orient)':
        raise TranslateError('fixup_key: ANGLES branch not recognised')
    # --- census of every use of the placement (round 4): SM/C17Whole.v applies the placement to a placement-independent content,
    # item by item, through the generated arithmetic; that is the code only if the placement is read nowhere else.  Recognised
    # sites = the expressions executed symbolically above; every other load of origin / orient / inst.pos / inst.orient in
    # collapse_one, of self.pos / self.orient in a method of Instance, every store to them outside __init__ and every use of
    # the bare `inst` object other than as the receiver of an attribute access is counted as a use outside the arithmetic.
    ang_branch_ret = node.body[0].value if isinstance(node.body[0], ast.Return) else None
    bind_stmts = [s_ for s_ in c1.body if isinstance(s_, ast.Assign) and isinstance(s_.targets[0], ast.Name)
                  and s_.targets[0].id in ('origin', 'orient')]
    recognised: list[ast.AST] = [c_ for c_ in all_loc if placement_args([ast.unparse(a_) for a_ in c_.args]) and not c_.keywords]
    recognised += [org_expr, ang_rot, *bind_stmts, want['VEC'][1].body[0].value, want['EXT_VEC_DIRECTION'][1].body[0].value, *axis_vals]
    if ang_branch_ret is not None:
        recognised.append(ang_branch_ret)
    inside = {id(x) for nd in recognised for x in ast.walk(nd)}
    receivers = {id(n.value) for f_ in [c1] for n in ast.walk(f_) if isinstance(n, ast.Attribute)}
    uses_in: list[str] = []
    uses_out: list[str] = []

    def use(n: ast.AST, what: str) -> None:
        (uses_in if id(n) in inside else uses_out).append(f'{what}@{getattr(n, "lineno", 0)}')
    for n in ast.walk(c1):
        if isinstance(n, ast.Name) and n.id in ('origin', 'orient'):
            if isinstance(n.ctx, ast.Load) or id(n) not in inside:
                use(n, n.id)
        elif isinstance(n, ast.Attribute) and isinstance(n.value, ast.Name) and n.value.id == 'inst' and n.attr in ('pos', 'orient'):
            if isinstance(n.ctx, ast.Load):
                use(n, 'inst.' + n.attr)
            else:
                uses_out.append(f'store inst.{n.attr}@{n.lineno}')
        elif isinstance(n, ast.Name) and n.id == 'inst' and id(n) not in receivers:
            uses_out.append(f'inst passed on@{n.lineno}')
    inst_cls = next((n for n in itree.body if isinstance(n, ast.ClassDef) and n.name == 'Instance'), None)
    if inst_cls is None:
        raise TranslateError('class Instance not found')
    for meth in [m_ for m_ in inst_cls.body if isinstance(m_, (ast.FunctionDef, ast.AsyncFunctionDef)) and m_.name != '__init__']:
        recv_m = {id(n.value) for n in ast.walk(meth) if isinstance(n, ast.Attribute)}
        self_name = meth.args.args[0].arg if meth.args.args else 'self'
        for n in ast.walk(meth):
            if isinstance(n, ast.Attribute) and isinstance(n.value, ast.Name) and n.value.id in (self_name, 'inst') and n.attr in ('pos', 'orient'):
                if isinstance(n.ctx, ast.Load):
                    use(n, f'{meth.name}: {n.value.id}.{n.attr}')
                elif meth.name != 'from_entity':
                    uses_out.append(f'{meth.name}: store {n.value.id}.{n.attr}@{n.lineno}')
            elif isinstance(n, ast.Name) and n.id == self_name and self_name == 'self' and id(n) not in recv_m and isinstance(n.ctx, ast.Load):
                uses_out.append(f'{meth.name}: self passed on@{n.lineno}')
    side['placement_uses'] = {'at_arithmetic_sites': uses_in, 'elsewhere': uses_out}
    E.lines.append(f'Definition g_placement_uses_at_arithmetic_sites : nat := {len(uses_in)}.')
    E.lines.append(f'Definition g_placement_uses_elsewhere : nat := {len(uses_out)}.')

    # --- census of the engine database objects (round 4): EntityDef.engine_def() hands out objects of a process-wide cache of
    # srctools.fgd (state outside instancing.py / vmf.py); collapse_one must only READ them: a local bound from engine_cache[...]
    # / EntityDef.engine_def(...) / EntityDef(...) (and, transitively, from `<such>.kv[...]`) may be the base of an attribute or
    # subscript load, the value stored into the caller's engine_cache, or an operand of a comparison - nothing else.
    def _db_source(e: ast.expr, db: set[str]) -> bool:
        if isinstance(e, ast.Subscript) and isinstance(e.value, ast.Name) and e.value.id == 'engine_cache':
            return True
        if isinstance(e, ast.Call) and ast.unparse(e.func) in ('EntityDef.engine_def', 'EntityDef'):
            return True
        base = e                      # any chain of attribute / subscript loads below such a local: ent_type.kv, ent_type.kv[k], kvs[k]
        while isinstance(base, (ast.Attribute, ast.Subscript)):
            base = base.value
        if base is not e and isinstance(base, ast.Name) and base.id in db:
            return True
        return False
    db_names: set[str] = set()
    grown = True
    while grown:
        grown = False
        for n in ast.walk(c1):
            if isinstance(n, ast.Assign) and len(n.targets) == 1 and isinstance(n.targets[0], ast.Name) and _db_source(n.value, db_names) \
                    and n.targets[0].id not in db_names:
                db_names.add(n.targets[0].id)
                grown = True
    db_reads: list[str] = []
    db_other: list[str] = []
    parent: dict[int, ast.AST] = {id(ch): nd for nd in ast.walk(c1) for ch in ast.iter_child_nodes(nd)}
    for n in ast.walk(c1):
        if isinstance(n, ast.Name) and n.id in db_names:
            par = parent.get(id(n))
            where = f'{n.id}@{n.lineno}'
            if isinstance(n.ctx, ast.Store):
                if not (isinstance(par, ast.Assign) and _db_source(par.value, db_names)):
                    db_other.append('re-bound from elsewhere: ' + where)
            elif isinstance(par, (ast.Attribute, ast.Subscript)) and par.value is n and isinstance(par.ctx, ast.Load):
                top: ast.AST = par            # climb the chain of loads x.a[b].c ...: a call of a method anywhere on it may mutate
                gp = parent.get(id(top))
                while isinstance(gp, (ast.Attribute, ast.Subscript)) and gp.value is top and isinstance(gp.ctx, ast.Load):
                    top, gp = gp, parent.get(id(gp))
                if isinstance(gp, ast.Call) and gp.func is top:
                    db_other.append('method call: ' + where)
                elif isinstance(gp, ast.Call) and ast.unparse(gp.func) not in ('inst.fixup_key',):
                    db_other.append('passed to a call: ' + where)
                else:
                    db_reads.append(where)
            elif isinstance(par, ast.Assign) and par.value is n and len(par.targets) == 1 and isinstance(par.targets[0], ast.Subscript) \
                    and isinstance(par.targets[0].value, ast.Name) and par.targets[0].value.id == 'engine_cache':
                db_reads.append('kept in the caller\'s engine_cache: ' + where)
            elif isinstance(par, ast.Compare):
                db_reads.append(where)
            else:
                db_other.append(f'{type(par).__name__}: {where}')
    # stores / deletes through such an object: ent_type.kv[...] = ..., kv.type = ..., del ent_type.kv[...]
    for n in ast.walk(c1):
        if isinstance(n, (ast.Attribute, ast.Subscript)) and isinstance(n.ctx, (ast.Store, ast.Del)):
            base = n
            while isinstance(base, (ast.Attribute, ast.Subscript)):
                base = base.value
            if isinstance(base, ast.Name) and base.id in db_names:
                db_other.append(f'store through {base.id}@{n.lineno}')
    side['engine_db_objects'] = {'locals': sorted(db_names), 'reads': db_reads, 'other_uses': db_other}
    E.lines.append(f'Definition g_collapse_engine_db_reads : nat := {len(db_reads)}.')
    E.lines.append(f'Definition g_collapse_engine_db_other_uses : nat := {len(db_other)}.')

    # --- Instance.from_entity (round 4): how collapse_all turns a func_instance entity into the Instance it collapses - which
    # keyvalue feeds which constructor parameter.  Read by meaning: the `cls(...)` call is matched against the parameter list of
    # __init__ (positional or keyword), single-assignment locals are inlined.
    fe = _find_func(itree, 'from_entity', 'Instance')
    init = _find_func(itree, '__init__', 'Instance')
    fe_locals = _single_assigned_locals(fe)
    params = [a_.arg for a_ in init.args.args[1:]]
    ctor = [n for n in ast.walk(fe) if isinstance(n, ast.Call) and isinstance(n.func, ast.Name) and n.func.id == fe.args.args[0].arg]
    if len(ctor) != 1:
        raise TranslateError('Instance.from_entity: exactly one cls(...) call expected')
    bound: dict[str, str] = {}
    for k_, a_ in enumerate(ctor[0].args):
        if isinstance(a_, ast.Starred) or k_ >= len(params):
            raise TranslateError('Instance.from_entity: cls(...) arguments not understood')
        bound[params[k_]] = ast.unparse(fe_locals.get(a_.id, a_) if isinstance(a_, ast.Name) else a_)
    for kw_ in ctor[0].keywords:
        if kw_.arg is None or kw_.arg not in params:
            raise TranslateError('Instance.from_entity: cls(...) keyword not understood')
        bound[kw_.arg] = ast.unparse(fe_locals.get(kw_.value.id, kw_.value) if isinstance(kw_.value, ast.Name) else kw_.value)
    ent_arg = fe.args.args[1].arg
    want_args = {'name': f"{ent_arg}['targetname']", 'filename': f"{ent_arg}['file']", 'pos': f"Vec.from_str({ent_arg}['origin'])",
                 'orient': f"Matrix.from_angstr({ent_arg}['angles'])", 'outputs': f'{ent_arg}.outputs', 'fixup': f'{ent_arg}.fixup.copy_values()'}
    args_as_wanted = all(bound.get(k_) == v_ for k_, v_ in want_args.items())
    # the style: FixupStyle(int(ent['fixup_style', '0'])) inside try / except ValueError -> FixupStyle.PREFIX
    style_try = [n for n in ast.walk(fe) if isinstance(n, ast.Try)]
    style_ok = False
    if len(style_try) == 1 and len(style_try[0].body) == 1 and isinstance(style_try[0].body[0], ast.Assign):
        tgt = ast.unparse(style_try[0].body[0].targets[0])
        val = ast.unparse(style_try[0].body[0].value)
        hs = style_try[0].handlers
        fall = [st_ for h_ in hs for st_ in h_.body if isinstance(st_, ast.Assign) and ast.unparse(st_.targets[0]) == tgt]
        style_ok = val == f"FixupStyle(int({ent_arg}['fixup_style', '0']))" and len(hs) == 1 and ast.unparse(hs[0].type) == 'ValueError' \
            and len(fall) == 1 and ast.unparse(fall[0].value) == 'FixupStyle.PREFIX' and bound.get('fixup_type') == tgt
    init_stores = {ast.unparse(st_.targets[0]): ast.unparse(st_.value) for st_ in init.body if isinstance(st_, ast.Assign)}
    init_ok = all(init_stores.get(f'self.{k_}') == v_ for k_, v_ in (('name', 'name'), ('filename', 'filename'), ('pos', 'pos'), ('orient', 'orient'),
                                                                     ('fixup_type', 'fixup_type'), ('fixup', 'EntityFixup(fixup)'), ('outputs', 'list(outputs)')))
    side['from_entity'] = {'constructor_arguments': bound, 'style_branch_ok': style_ok, 'init_stores_ok': init_ok}
    E.lines.append(f'Definition g_from_entity_reads_instance_keyvalues : bool := {"true" if args_as_wanted and init_ok else "false"}.')
    E.lines.append(f'Definition g_from_entity_style_default_prefix : bool := {"true" if style_ok else "false"}.')

    # --- Manifest (round 5): a VMM sub-map is an Instance "collapsed directly at the existing position", names unaltered: the
    # super().__init__(...) call of Manifest.__init__ matched against Instance.__init__ (positional or keyword, locals inlined)
    # must pass Vec() / Matrix() without arguments (origin 0, identity) and FixupStyle.NONE, name and file name through.
    man_cls = next((n for n in itree.body if isinstance(n, ast.ClassDef) and n.name == 'Manifest'), None)
    man_ok, man_info = False, {'present': man_cls is not None}
    if man_cls is not None:
        if [ast.unparse(b_) for b_ in man_cls.bases] != ['Instance']:
            raise TranslateError('instancing.py: Manifest is not a direct subclass of Instance')
        m_init = next((f_ for f_ in man_cls.body if isinstance(f_, ast.FunctionDef) and f_.name == '__init__'), None)
        overridden = sorted(f_.name for f_ in man_cls.body if isinstance(f_, ast.FunctionDef) and f_.name in ('fixup_name', 'fixup_key', 'from_entity'))
        if m_init is None:
            raise TranslateError('instancing.py: Manifest.__init__ not found')
        m_locals = _single_assigned_locals(m_init)
        stores_: dict[str, int] = {}
        for n_ in ast.walk(m_init):
            if isinstance(n_, ast.Name) and isinstance(n_.ctx, (ast.Store, ast.Del)):
                stores_[n_.id] = stores_.get(n_.id, 0) + 1
        for st_ in m_init.body:          # `a, b = X, Y` at the top level of __init__, each name bound once
            if isinstance(st_, ast.Assign) and len(st_.targets) == 1 and isinstance(st_.targets[0], ast.Tuple) and isinstance(st_.value, ast.Tuple) \
                    and len(st_.targets[0].elts) == len(st_.value.elts):
                for t_, v_ in zip(st_.targets[0].elts, st_.value.elts):
                    if isinstance(t_, ast.Name) and stores_.get(t_.id) == 1 and not any(isinstance(x_, ast.Name) for x_ in ast.walk(v_) if x_ is not getattr(v_, 'func', None)):
                        m_locals[t_.id] = v_
        sup = [n for n in ast.walk(m_init) if isinstance(n, ast.Call) and isinstance(n.func, ast.Attribute) and n.func.attr == '__init__'
               and ast.unparse(n.func.value) in ('super()', 'Instance', 'super(Manifest, self)')]
        if len(sup) != 1:
            raise TranslateError('Manifest.__init__: exactly one call of Instance.__init__ expected')
        s_args = list(sup[0].args)[(1 if ast.unparse(sup[0].func.value) == 'Instance' else 0):]
        m_bound: dict[str, str] = {}
        for k_, a_ in enumerate(s_args):
            if isinstance(a_, ast.Starred) or k_ >= len(params):
                raise TranslateError('Manifest.__init__: arguments of Instance.__init__ not understood')
            m_bound[params[k_]] = ast.unparse(m_locals.get(a_.id, a_) if isinstance(a_, ast.Name) else a_)
        for kw_ in sup[0].keywords:
            if kw_.arg is None or kw_.arg not in params:
                raise TranslateError('Manifest.__init__: keyword of Instance.__init__ not understood')
            m_bound[kw_.arg] = ast.unparse(m_locals.get(kw_.value.id, kw_.value) if isinstance(kw_.value, ast.Name) else kw_.value)
        m_params = [a_.arg for a_ in m_init.args.args[1:]]
        # pos / orient / fixup_type are not re-assigned afterwards in __init__
        later = [ast.unparse(t_) for st_ in ast.walk(m_init) if isinstance(st_, (ast.Assign, ast.AugAssign, ast.AnnAssign))
                 for t_ in (st_.targets if isinstance(st_, ast.Assign) else [st_.target])]
        man_ok = m_bound.get('pos') == 'Vec()' and m_bound.get('orient') == 'Matrix()' and m_bound.get('fixup_type') == 'FixupStyle.NONE' \
            and len(m_params) >= 2 and m_bound.get('name') == m_params[0] and m_bound.get('filename') == m_params[1] \
            and not overridden and not any(t_ in ('self.pos', 'self.orient', 'self.fixup_type', 'self.name', 'self.filename') for t_ in later)
        man_info.update(arguments=m_bound, overridden=overridden, stores=later)
    side['manifest'] = man_info
    E.lines.append(f'Definition g_manifest_identity_placement_names_unaltered : bool := {cb_(man_ok)}.')

    # name-typed keyvalues (type.is_ent_name, TARG_DEST_CLASS when not a classname): the value goes through fixup_name, whole
    name_br = [nd for nms, nd in branches if '<is_ent_name>' in nms]
    cls_br = [nd for nms, nd in branches if 'TARG_DEST_CLASS' in nms]
    renames = len(name_br) == 1 and [ast.unparse(x) for x in name_br[0].body] == ['return self.fixup_name(value)']
    cls_ok = len(cls_br) == 1 and len(cls_br[0].body) == 1 and isinstance(cls_br[0].body[0], ast.If) and \
        ast.unparse(cls_br[0].body[0].test) == 'value.casefold() not in classnames' and \
        [ast.unparse(x) for x in cls_br[0].body[0].body] == ['return self.fixup_name(value)'] and not cls_br[0].body[0].orelse
    tail = _body(fk)[-1]
    falls_through = isinstance(tail, ast.Return) and ast.unparse(tail) == 'return value'
    E.lines.append(f'Definition g_fixup_key_name_types_renamed : bool := {"true" if renames and cls_ok else "false"}.')
    E.lines.append(f'Definition g_fixup_key_other_types_unchanged : bool := {"true" if falls_through else "false"}.')
    side['fixup_key_name_branch'] = {'renames': renames, 'classname_guard': cls_ok, 'falls_through': falls_through}

    # fixup_name + FixupStyle
    fn_tab = _fixup_name_table(_find_func(itree, 'fixup_name', 'Instance'))
    styles = {}
    for n in itree.body:
        if isinstance(n, ast.ClassDef) and n.name == 'FixupStyle':
            for s in n.body:
                if isinstance(s, ast.Assign) and isinstance(s.value, ast.Constant) and isinstance(s.value.value, int):
                    styles[s.targets[0].id] = s.value.value
    if sorted(styles) != ['NONE', 'PREFIX', 'SUFFIX']:
        raise TranslateError(f'FixupStyle members are {sorted(styles)}')
    smap = {'PREFIX': 'SPrefix', 'SUFFIX': 'SSuffix', 'NONE': 'SNone'}

    def piece(pc):
        return pc[0] if pc[0] != 'PLit' else f'PLit {_coq_codes(pc[1])}'
    E.lines.append('Definition g_fixup_name_cfg : name_cfg := {|\n  guard_prefixes := [' + '; '.join(_coq_codes(p) for p in fn_tab['prefixes']) + '];\n'
                   '  rules := [' + ';\n            '.join(f'({smap[s]}, [{"; ".join(piece(p) for p in pcs)}])' for s, pcs in fn_tab['rules']) + '] |}.')
    E.lines.append('Definition g_fixup_style_values : list (style * Z) := [' + '; '.join(f'({smap[k]}, {v}%Z)' for k, v in sorted(styles.items(), key=lambda kv: kv[1])) + '].')
    side['fixup_name'] = fn_tab
    side['fixup_styles'] = styles

    # EntityFixup.substitute: the regular expression and the replacer
    sc = _substitute_cfg()
    side['substitute'] = sc
    cb = lambda b: 'true' if b else 'false'      # noqa: E731
    E.lines.append('Definition g_subst_cfg : subst_cfg := {|\n'
                   f'  sc_longest_first := {cb(sc["longest_first"])}; sc_ident_fallback := {cb(sc["ident_fallback"])};\n'
                   f'  sc_ignore_case := {cb(sc["ignore_case"])}; sc_bang_group := {cb(sc["bang_group"])}; sc_bang_readd := {cb(sc["bang_readd"])};\n'
                   f'  sc_lookup_folded := {cb(sc["lookup_folded"])};\n'
                   '  sc_bools := [' + '; '.join(f'({_coq_codes(k)}, {cb(v_)})' for k, v_ in sc['bools']) + '] |}.')

    # value sites of collapse_one: in which order substitute / fixup_name / fixup_key / parsers see the template strings
    vs = _value_sites(c1)
    side['value_sites'] = [(lab, _sx_coq(e)) for lab, e in vs['sites']]
    E.lines.append('Definition g_collapse_sites : list site := [\n  ' +
                   ';\n  '.join(f'({_coq_codes(lab)}, {_sx_coq(e)})' for lab, e in vs['sites']) + '].')
    E.lines.append(f'Definition g_collapse_subst_defaults_empty : bool := {cb(all(d == repr("") for d in vs["subst_defaults"]))}.')

    # process-global state: which decisions read module-level mutable objects, and what they guard (SM/C17Global.v)
    ps = _process_state(itree)
    side['process_state'] = {k: v for k, v in ps.items() if k not in ('functions', 'sites_collapse_one')}
    # round 5: the kind of every numbered site of collapse_one's skeleton (SM/C17Kinds.v): what is left of `respects`
    sk_nodes, sk_callee, sk_fn = ps['sites_collapse_one']
    if sk_fn is None:
        raise TranslateError('instancing.py: no skeleton of collapse_one')
    kd = _statement_kinds(sk_fn, sk_nodes, sk_callee, itree, ast.parse(src_text('vmf.py')))
    side['statement_kinds'] = {'census': kd['census'], 'why_other': {str(k): v for k, v in kd['why_other'].items()},
                               'kept': [list(x) for x in kd['kept']], 'template_names': kd['template_names'],
                               'kinds': {str(k): v for k, v in sorted(kd['kinds'].items())}}
    E.lines.append('Definition g_collapse_statement_kinds : kind_table := [' +
                   '; '.join(f'({i}%nat, {k})' for i, k in sorted(kd['kinds'].items())) + '].')
    E.lines.append('Definition g_collapse_template_values_kept : list (string * string * bool)%type := [' +
                   '; '.join(f'("{c}", "{f}", {cb_(e)})' for c, f, e in kd['kept']) + '].')
    side['process_state']['functions'] = [qn for qn, _ in ps['functions']]
    E.lines.append('Definition g_process_state_functions : list (list N * skel) := [\n  ' +
                   ';\n  '.join(f'({_coq_codes(qn)}, {sk})' for qn, sk in ps['functions']) + '].')
    E.lines.append(f'Definition g_module_state_untracked : nat := {len(ps["class_level"]) + len(ps["logger_misuse"]) + len(ps["hidden_state"])}.')
    # vmf.py (copy / localise / substitute run there): its module-level tables are never updated by a function and never escape
    vs_state = _foreign_module_state(ast.parse(src_text('vmf.py')), 'vmf.py')
    side['vmf_module_state'] = vs_state
    fc = _fixup_cache(ast.parse(src_text('vmf.py')), {'instancing.py': itree})
    side['fixup_pattern_cache'] = fc
    E.lines.append('Definition g_fixup_cache_shapes : list (list N * shape) := [\n  ' +
                   ';\n  '.join(f'({_coq_codes(nm)}, {sh})' for nm, sh in fc['shapes']) + '].')
    E.lines.append(f'Definition g_fixup_cache_foreign : nat := {len(fc["foreign"])}.')
    E.lines.append(f'Definition g_vmf_module_state_updates : nat := {len(vs_state["updates"])}.')
    E.lines.append(f'Definition g_vmf_module_state_escapes : nat := {len(vs_state["escapes"])}.')

    # collapse_all loop shape
    shape = _collapse_all_shape(_find_func(itree, 'collapse_all'), itree)
    side['collapse_all'] = shape
    for k, val in shape.items():
        if isinstance(val, bool):
            E.lines.append(f'Definition g_collapse_all_{k} : bool := {"true" if val else "false"}.')

    # round 6: the counter of the automatic instance names (SM/C17AutoNames.v)
    auto = _auto_name_counter(_find_func(itree, 'collapse_all'))
    side['auto_name_counter'] = auto
    E.lines.append(f'Definition g_collapse_all_auto_counter : list cevent := [{"; ".join(auto["events"])}].')

    # round 4: the ancestry check that stops instance cycles (SM/C17Rounds.v loop2)
    cyc = _cycle_repair(itree)
    side['cycle_repair'] = cyc
    E.lines.append(f'Definition g_collapse_all_ancestry_check : bool := {cb_(cyc["ancestry_check"])}.')
    E.lines.append(f'Definition g_collapse_one_parents_extended : bool := {cb_(cyc["parents_extended"])}.')
    E.lines.append(f'Definition g_instance_parents_roundtrip : bool := {cb_(cyc["parents_roundtrip"])}.')

    # template census
    cen = _template_census(c1)
    side['template_census'] = cen
    ro_calls = {'copy', 'casefold'}
    # the classes of the template objects that are copied: `for X in file.vmf.<attr>` with VMF.<attr>: list[<Class>]
    vmf_cls = next((n for n in ast.parse(src_text('vmf.py')).body if isinstance(n, ast.ClassDef) and n.name == 'VMF'), None)
    if vmf_cls is None:
        raise TranslateError('vmf.py: class VMF not found')
    vmf_ann = {n.target.id: ast.unparse(n.annotation) for n in vmf_cls.body if isinstance(n, ast.AnnAssign) and isinstance(n.target, ast.Name)}
    # innermost enclosing loop that binds the receiver
    c1_aliases = _single_assigned_locals(c1)
    def binder(recv: str, line: int) -> str:
        return ast.unparse(_unalias(ast.parse(binder0(recv, line), mode='eval').body, c1_aliases)) if binder0(recv, line) else ''
    def binder0(recv: str, line: int) -> str:
        best = ''
        for lp in ast.walk(c1):
            if isinstance(lp, ast.For) and lp.lineno <= line <= (lp.end_lineno or lp.lineno):
                lp_iter, lp_target = _strip_adapters(lp.iter, lp.target)
                if isinstance(lp_target, ast.Name) and lp_target.id == recv:
                    best = ast.unparse(lp_iter)
                elif isinstance(lp_target, ast.Tuple) and isinstance(lp_iter, ast.Call) and ast.unparse(lp_iter.func) == 'zip':
                    for t, a in zip(lp_target.elts, lp_iter.args):
                        if isinstance(t, ast.Name) and t.id == recv:
                            best = ast.unparse(a)
        return best
    copied: list[str] = []
    for recv, meth, line in cen['calls']:
        if meth != 'copy':
            continue
        src = binder(recv, line)
        if src.startswith('file.vmf.') and src[len('file.vmf.'):] in vmf_ann:
            ann = vmf_ann[src[len('file.vmf.'):]]
            cls = ann[len('list['):-1].strip('\'"') if ann.startswith('list[') and ann.endswith(']') else ''
            if not cls.isidentifier():
                raise TranslateError(f'VMF.{src[len("file.vmf."):]}: annotation `{ann}` is not list[Class]')
            if cls not in copied:
                copied.append(cls)
        else:
            raise TranslateError(f'collapse_one line {line}: `{recv}.copy()` on a template object of unknown class (from `{src}`)')
    side['copied_classes'] = copied
    # which template objects are copied at all: the guards at the head of the two copying loops, and the ID maps they share
    vis = _visibility_and_ids(c1, fk)
    side['visibility_and_ids'] = vis
    for k, val in vis.items():
        E.lines.append(f'Definition g_collapse_{k} : bool := {"true" if val else "false"}.')
    E.lines.append('Definition g_collapse_copied_classes : list string := [' + '; '.join(f'"{c}"' for c in copied) + '].')
    E.lines.append('Definition g_collapse_template_method_calls : list (list N) := [' + '; '.join(_coq_codes(c[1]) for c in cen['calls']) + '].')
    E.lines.append(f'Definition g_collapse_template_stores : nat := {len(cen["stores"])}.')
    E.lines.append('Definition g_template_readonly_methods : list (list N) := [' + '; '.join(_coq_codes(c) for c in sorted(ro_calls)) + '].')

    side['bodies_executed'] = sorted(I.used)
    side['digests'] = {'collapse_one': ast_digest(c1), 'collapse_all': ast_digest(_find_func(itree, 'collapse_all')),
                       'fixup_key': ast_digest(fk), 'substitute': sc['digest']}
    head = ['(* GENERATED by translate/c17_formulas.py from src/srctools/{math,vmf,instancing}.py. Do not edit. *)',
            'From Coq Require Import Reals ZArith NArith List String.',
            'From SV Require Import Rot.C17Base SM.C17Name SM.C17Subst SM.C17Sites SM.C17Frame SM.C17Global SM.C17Cache SM.C17Kinds SM.C17AutoNames.',
            'Import ListNotations.', 'Open Scope string_scope.', 'Open Scope R_scope.', '']
    side['defs'] = sorted(E.defs)
    _LAST.clear()
    _LAST.update(E.defs)
    return '\n'.join(head + E.lines) + '\n', side


_LAST: dict = {}


def formulas() -> dict[str, tuple[list[tuple[str, str]], list]]:
    """The generated definitions as expression trees (for the numeric tie in checks/c17.py)."""
    translate()
    return dict(_LAST)


GEN = {'C17Formulas_gen': translate}
