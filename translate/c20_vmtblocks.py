"""C20 translator `VmtBlocks_gen` (fail-closed, Python ast): the sub-blocks and proxies of a VMT material.

vmt.py writes them with the recursive helper

    def _write_block(f, block, indent):
        if block.has_children():
            f.write(OPEN)                                  # one field: the name of the block
            for child in block:
                _write_block(f, child, indent + STEP)
            f.write(CLOSE)
        else:
            f.write(LEAF)                                  # two fields: name, value

and Material.export calls it, after the parameter lines, for every block of the material with a constant indent and, when there are
proxies, for every proxy between the two writes that frame the Proxies block.  This module reads exactly that control flow (the
test may be negated with the branches swapped, the leaf branch may end in `return`; anything else: TranslateError), turns the written
templates into Fmt/TextLines.v items (through the text census of translate/c20_formats.py, so the same notion of field / literal /
run-time indent) and emits `vmt_bcfg : bcfg` for Fmt/VmtBlocks.v, plus which attribute of the block each field carries.
"""
from __future__ import annotations

import ast

from harness.common import TranslateError, src_text  # noqa: F401  (src_text is used through _TextCensus)
from translate import c20_formats as F

REL = 'vmt.py'


def _template(tc: 'F._TextCensus', expr: ast.AST, env: dict[str, str], where: str) -> list[tuple]:
    alts = tc.pieces(expr, env, {}, where)
    if len(alts) != 1:
        raise TranslateError(f'{REL}: {where}: a written template with alternatives')
    flat: list[tuple] = []
    for p in alts[0]:
        if p[0] == 'lit':
            if flat and flat[-1][0] == 'lit':
                flat[-1] = ('lit', flat[-1][1] + p[1])
            elif p[1] != '':
                flat.append(('lit', p[1]))
        else:
            if p[1]:
                raise TranslateError(f'{REL}: {where}: escape_text in a VMT block (Material.parse reads with escapes disabled)')
            flat.append(('fld', p[3], False))
    return flat


def _items(tpl: list[tuple], where: str) -> list[str]:
    it = F._line_items(tpl)
    if it is None:
        raise TranslateError(f'{REL}: {where}: the written template is not made of self-delimiting items')
    return it


def _const_str(e: ast.AST, where: str) -> str:
    if isinstance(e, ast.Constant) and isinstance(e.value, str):
        return e.value
    raise TranslateError(f'{REL}: {where}: `{ast.unparse(e)}` is not a string literal')


def _strip_doc(body: list[ast.stmt]) -> list[ast.stmt]:
    return [b for b in body if not (isinstance(b, ast.Expr) and isinstance(b.value, ast.Constant) and isinstance(b.value.value, str))]


def _coq_str(s: str) -> str:
    return '[' + '; '.join(str(ord(c)) for c in s) + ']%N'


def _write_of(st: ast.stmt, fname: str) -> ast.AST | None:
    return F._is_file_write(st, fname)


def translate_vmt_blocks() -> tuple[str, dict]:
    tc = F._TextCensus(REL)
    for a in ('real_name', 'value', 'name', 'shader'):
        tc.ann.setdefault(a, set()).add('str')
    wb = tc.funcs.get('_write_block')
    ex = tc.funcs.get('Material.export')
    if wb is None or ex is None:
        raise TranslateError(f'{REL}: _write_block / Material.export not found')
    params = [a.arg for a in wb.args.args]
    if len(params) != 3:
        raise TranslateError(f'{REL}: _write_block takes {len(params)} parameters; the model has (file, block, indent)')
    fname, bname, iname = params
    env = {iname: 'layout', bname: 'TyWord'}
    body = F._early_return_to_else(_strip_doc(wb.body))
    if len(body) != 1 or not isinstance(body[0], ast.If):
        raise TranslateError(f'{REL}: _write_block is not a single has_children() test')
    test, yes, no = body[0].test, _strip_doc(body[0].body), _strip_doc(body[0].orelse)
    if isinstance(test, ast.UnaryOp) and isinstance(test.op, ast.Not):
        test, yes, no = test.operand, no, yes
    if not (isinstance(test, ast.Call) and isinstance(test.func, ast.Attribute) and test.func.attr == 'has_children' and not test.args
            and isinstance(test.func.value, ast.Name) and test.func.value.id == bname):
        raise TranslateError(f'{REL}: _write_block line {body[0].lineno}: the test is not `{bname}.has_children()`')
    yes = [s for s in yes if not isinstance(s, ast.Pass)]
    no = [s for s in no if not isinstance(s, ast.Pass)]
    if len(yes) != 3 or len(no) != 1:
        raise TranslateError(f'{REL}: _write_block: expected open / loop over the children / close, and one write for a leaf')
    w_open, loop, w_close = _write_of(yes[0], fname), yes[1], _write_of(yes[2], fname)
    w_leaf = _write_of(no[0], fname)
    if w_open is None or w_close is None or w_leaf is None or not isinstance(loop, ast.For):
        raise TranslateError(f'{REL}: _write_block: a branch is not made of writes to `{fname}`')
    # the loop: for child in block: _write_block(f, child, indent + STEP)
    if not (isinstance(loop.target, ast.Name) and isinstance(loop.iter, ast.Name) and loop.iter.id == bname and not loop.orelse
            and len(loop.body) == 1 and isinstance(loop.body[0], ast.Expr) and isinstance(loop.body[0].value, ast.Call)):
        raise TranslateError(f'{REL}: _write_block line {loop.lineno}: the loop over the children is not recognised')
    call = loop.body[0].value
    if not (isinstance(call.func, ast.Name) and call.func.id == '_write_block' and len(call.args) == 3 and not call.keywords
            and isinstance(call.args[0], ast.Name) and call.args[0].id == fname
            and isinstance(call.args[1], ast.Name) and call.args[1].id == loop.target.id):
        raise TranslateError(f'{REL}: _write_block line {loop.lineno}: the recursive call is not `_write_block({fname}, child, ...)`')
    ind = call.args[2]
    if isinstance(ind, ast.Name) and ind.id == iname:
        step = ''                       # children at the indent of their parent: layout only
    elif isinstance(ind, ast.BinOp) and isinstance(ind.op, ast.Add) and isinstance(ind.left, ast.Name) and ind.left.id == iname:
        step = _const_str(ind.right, f'_write_block line {loop.lineno}')
    else:
        raise TranslateError(f'{REL}: _write_block line {loop.lineno}: the indent of the children is not `{iname} + <literal>`')
    t_open = _template(tc, w_open, env, '_write_block open')
    t_close = _template(tc, w_close, env, '_write_block close')
    t_leaf = _template(tc, w_leaf, env, '_write_block leaf')
    open_fields = [p[1] for p in t_open if p[0] == 'fld']
    leaf_fields = [p[1] for p in t_leaf if p[0] == 'fld']
    close_fields = [p[1] for p in t_close if p[0] == 'fld']
    # ---- Material.export: ... ; for block in self.blocks: _write_block(f, block, TOP); if self.proxies: write; loop; write ; write
    ex_params = [a.arg for a in ex.args.args]
    if len(ex_params) != 2:
        raise TranslateError(f'{REL}: Material.export takes {len(ex_params)} parameters')
    efile = ex_params[1]

    def block_loop(st: ast.stmt, attr: str) -> str | None:
        """`for b in self.<attr>: _write_block(f, b, <literal>)` -> the literal"""
        if not (isinstance(st, ast.For) and isinstance(st.target, ast.Name) and F._self_attr(st.iter) == attr and not st.orelse
                and len(st.body) == 1 and isinstance(st.body[0], ast.Expr) and isinstance(st.body[0].value, ast.Call)):
            return None
        c = st.body[0].value
        if not (isinstance(c.func, ast.Name) and c.func.id == '_write_block' and len(c.args) == 3 and not c.keywords
                and isinstance(c.args[0], ast.Name) and c.args[0].id == efile and isinstance(c.args[1], ast.Name) and c.args[1].id == st.target.id):
            return None
        return _const_str(c.args[2], f'Material.export line {st.lineno}')
    ebody = _strip_doc(ex.body)

    def mentions_write_block(st: ast.stmt) -> bool:
        return any(isinstance(n, ast.Name) and n.id == '_write_block' for n in ast.walk(st))
    idx = [i for i, st in enumerate(ebody) if mentions_write_block(st)]
    if len(idx) != 2 or idx[1] != idx[0] + 1 or idx[1] != len(ebody) - 2:
        raise TranslateError(f'{REL}: Material.export: expected the loop over the blocks, then the Proxies part, then one last write')
    top = block_loop(ebody[idx[0]], 'blocks')
    if top is None:
        raise TranslateError(f'{REL}: Material.export line {ebody[idx[0]].lineno}: not `for block in self.blocks: _write_block({efile}, block, <literal>)`')
    pif = ebody[idx[1]]
    if not (isinstance(pif, ast.If) and F._self_attr(F._strip_test(pif.test)) == 'proxies' and not pif.orelse and len(pif.body) == 3
            and not (isinstance(pif.test, ast.UnaryOp))):
        raise TranslateError(f'{REL}: Material.export line {pif.lineno}: the Proxies part is not `if self.proxies: write; loop; write`')
    if isinstance(pif.test, ast.Compare):
        raise TranslateError(f'{REL}: Material.export line {pif.lineno}: the Proxies block is guarded by a comparison, not by the list being non-empty')
    p_open, p_close = _write_of(pif.body[0], efile), _write_of(pif.body[2], efile)
    p_ind = block_loop(pif.body[1], 'proxies')
    if p_open is None or p_close is None or p_ind is None:
        raise TranslateError(f'{REL}: Material.export line {pif.lineno}: the Proxies part is not write / loop over self.proxies / write')
    last = _write_of(ebody[-1], efile)
    if last is None:
        raise TranslateError(f'{REL}: Material.export does not end in a write')
    t_popen = _template(tc, p_open, {}, 'Material.export Proxies open')
    t_pclose = _template(tc, p_close, {}, 'Material.export Proxies close')
    if any(p[0] == 'fld' for p in t_popen + t_pclose):
        raise TranslateError(f'{REL}: Material.export: the frame of the Proxies block interpolates a value')
    # nothing after the parameter lines writes anything else: the statements before the block loop are the first write and the
    # parameter loop (their shape is the business of the vmt_* obligations of TextFields_gen)
    for st in ebody[:idx[0]]:
        if mentions_write_block(st):
            raise TranslateError(f'{REL}: Material.export line {st.lineno}: _write_block before the parameter lines')

    def items(tpl, where):
        return '[' + '; '.join(_items(tpl, where)) + ']%N'
    text = '\n'.join([
        '(* GENERATED by translate/c20_vmtblocks.py from vmt.py (_write_block, Material.export). Do not edit. *)',
        'From Coq Require Import NArith List Bool.', 'Import ListNotations.',
        'From SV Require Import Fmt.TextLines Fmt.VmtBlocks.',
        'Definition vmt_bcfg : bcfg := mkB',
        f'  {items(t_open, "open")}   (* written before the children *)',
        f'  {items(t_close, "close")}   (* written after them *)',
        f'  {items(t_leaf, "leaf")}   (* a block without children *)',
        f'  {_coq_str(step)} {_coq_str(top)}   (* indent step of the recursive call; indent of the material\'s blocks *)',
        f'  {items(t_popen, "Proxies open")}',
        f'  {items(t_pclose, "Proxies close")}',
        f'  {_coq_str(p_ind)}.   (* indent of the proxies *)',
        f'Definition vmt_block_open_writes_the_name_of_the_block : bool := {str(open_fields == [bname + ".real_name"]).lower()}.',
        f'Definition vmt_block_leaf_writes_the_name_then_the_value : bool := {str(leaf_fields == [bname + ".real_name", bname + ".value"]).lower()}.',
        f'Definition vmt_block_close_writes_no_value : bool := {str(close_fields == []).lower()}.',
        f'Definition vmt_file_ends_with_the_closing_brace_line : bool := {str(_template(tc, last, {}, "Material.export last write") == [("lit", chr(9) + "}" + chr(10))]).lower()}.',
        '',
    ])
    side = {'open': [list(p) for p in t_open], 'close': [list(p) for p in t_close], 'leaf': [list(p) for p in t_leaf], 'step': step, 'top_indent': top,
            'proxies_open': [list(p) for p in t_popen], 'proxies_close': [list(p) for p in t_pclose], 'proxies_indent': p_ind,
            'open_fields': open_fields, 'leaf_fields': leaf_fields}
    return text, side


GEN = {'VmtBlocks_gen': translate_vmt_blocks}
