"""C11 translators: normalisation of the source tree before the pattern matchers look at it.

The matchers of c11_glue.py / c11_formats.py recognise a decisive statement by its shape.  A behaviour-preserving rewrite
of the source (a hoisted constant, a precompiled `struct.Struct`, an extra local, `if ok: continue` instead of
`if not ok: raise`) must not change what they read.  Instead of listing spellings, the tree is brought to one form:

`struct_constants(tree)` (whole module, used by every C11 translator)
    module-level `NAME = struct.Struct(FMT)` (assigned once): `NAME.pack(a..)` -> `struct.pack(FMT, a..)`, likewise
    `unpack`, `unpack_from`, `iter_unpack`, `pack_into`, and `NAME.size` -> `struct.calcsize(FMT)`.

`function(fn, tree)` (a copy of one function, used by the glue matchers)
  1. module-level literal constants (`LIMIT = 128`, `LIMIT: Final = 128`; int / str / bytes; assigned once in the module,
     never a local, parameter or `global` of the function) are substituted for their name;
  2. aliases: a local assigned once, at the top level of the function, to a name or an attribute chain whose base is never
     re-assigned, is replaced by that chain everywhere;
  3. single-use locals: `x = E; (only pure assignments to other names); S(x)` with `x` assigned once, loaded once, in a
     statement S of the same block (anywhere in a simple statement, the test of an `if`, the iterable of a `for`) and E
     pure (operators, attribute access, subscripts, f-strings, calls of the functions/methods listed in PURE_*): E is put
     where x was.  Repeated to a fixed point;
  4. `for v in list(E)` / `tuple(E)` -> `for v in E`, unless the function grows or otherwise changes E (finder table, append, ...);
  5. inside a loop body `if C: continue` followed by REST -> `if not C: REST` (comparison operators are flipped instead of
     wrapped in `not`);
  6. `if not C: A else: B` -> `if C: B else: A` (so the order of the branches, and with it the order of the format sites, does
     not depend on how the test is phrased).

Soundness of 3: E is evaluated later than before, after assignments that are pure and do not bind a name E reads, and after
the sub-expressions of S that precede the use; an S that changes what E reads before it reaches x (`f(buf.pop(), n)`) would be
normalised wrongly.  This is part of the trusted translator (docs/C11.md).
"""
from __future__ import annotations

import ast
import copy

STRUCT_METHODS = {'pack', 'unpack', 'unpack_from', 'iter_unpack', 'pack_into'}
PURE_FUNCS = {'len', 'round', 'int', 'float', 'str', 'bytes', 'bytearray', 'list', 'tuple', 'min', 'max', 'abs', 'bool', 'chr', 'ord', 'repr',
              'math.ceil', 'math.floor', 'ceil', 'floor', 'escape_text', 'itertools.chain', 'chain', 'zip', 'enumerate', 'range', 'sorted',
              'reversed', 'struct.calcsize', 'struct.pack', 'struct.unpack', 'struct.unpack_from', 'memoryview', 'divmod', 'sum', 'set', 'frozenset',
              'runlength_encode', 'runlength_decode', 'identity'}
PURE_METHODS = {'encode', 'decode', 'casefold', 'lower', 'upper', 'find', 'rfind', 'index', 'count', 'items', 'keys', 'values', 'get', 'tell',
                'getvalue', 'exp_out', 'exp_in', 'copy', 'startswith', 'endswith', 'rstrip', 'strip', 'lstrip', 'format', 'join', 'split',
                'bit_length', 'to_bytes'}


def _module_assigns(tree: ast.Module) -> dict[str, list[ast.AST]]:
    out: dict[str, list[ast.AST]] = {}
    for n in tree.body:
        if isinstance(n, ast.Assign):
            for t in n.targets:
                for x in ast.walk(t):
                    if isinstance(x, ast.Name):
                        out.setdefault(x.id, []).append(n.value if len(n.targets) == 1 and isinstance(t, ast.Name) else None)
        elif isinstance(n, ast.AnnAssign) and isinstance(n.target, ast.Name):
            out.setdefault(n.target.id, []).append(n.value)
        elif isinstance(n, (ast.AugAssign,)) and isinstance(n.target, ast.Name):
            out.setdefault(n.target.id, []).append(None)
        elif isinstance(n, (ast.FunctionDef, ast.ClassDef)):
            out.setdefault(n.name, []).append(None)
    # `global X` anywhere makes X unusable
    for n in ast.walk(tree):
        if isinstance(n, ast.Global):
            for x in n.names:
                out.setdefault(x, []).append(None)
    return out


def _bound_names(fn: ast.AST) -> set[str]:
    """Every name a function binds (parameters, assignment / loop / with / except / import / comprehension targets)."""
    out: set[str] = set()
    for n in ast.walk(fn):
        if isinstance(n, ast.arg):
            out.add(n.arg)
        elif isinstance(n, ast.Name) and isinstance(n.ctx, (ast.Store, ast.Del)):
            out.add(n.id)
        elif isinstance(n, ast.ExceptHandler) and n.name:
            out.add(n.name)
        elif isinstance(n, ast.alias):
            out.add((n.asname or n.name).split('.')[0])
        elif isinstance(n, (ast.FunctionDef, ast.ClassDef)) and n is not fn:
            out.add(n.name)
    return out


# ------------------------------------------------------------------------------------------------ struct.Struct constants
def struct_constants(tree: ast.Module) -> ast.Module:
    asg = _module_assigns(tree)
    consts: dict[str, ast.AST] = {}
    for name, vals in asg.items():
        if len(vals) == 1 and isinstance(vals[0], ast.Call) and ast.unparse(vals[0].func) in ('struct.Struct', 'Struct') \
                and len(vals[0].args) == 1 and not vals[0].keywords:
            consts[name] = vals[0].args[0]
    if not consts:
        return tree

    class T(ast.NodeTransformer):
        def __init__(self) -> None:
            self.shadow: list[set[str]] = []

        def visit_FunctionDef(self, node: ast.FunctionDef) -> ast.AST:
            self.shadow.append(_bound_names(node))
            self.generic_visit(node)
            self.shadow.pop()
            return node

        def free(self, e: ast.AST) -> bool:
            return isinstance(e, ast.Name) and e.id in consts and not any(e.id in s for s in self.shadow)

        def visit_Call(self, node: ast.Call) -> ast.AST:
            self.generic_visit(node)
            f = node.func
            if isinstance(f, ast.Attribute) and f.attr in STRUCT_METHODS and self.free(f.value):
                new = ast.Call(func=ast.Attribute(value=ast.Name(id='struct', ctx=ast.Load()), attr=f.attr, ctx=ast.Load()),
                               args=[copy.deepcopy(consts[f.value.id])] + node.args, keywords=node.keywords)
                ast.copy_location(new, node)
                for x in ast.walk(new):
                    if not hasattr(x, 'lineno'):
                        ast.copy_location(x, node)
                for x in ast.walk(new.args[0]):
                    ast.copy_location(x, node)
                return new
            return node

        def visit_Attribute(self, node: ast.Attribute) -> ast.AST:
            self.generic_visit(node)
            if node.attr == 'size' and isinstance(node.ctx, ast.Load) and self.free(node.value):
                new = ast.Call(func=ast.Attribute(value=ast.Name(id='struct', ctx=ast.Load()), attr='calcsize', ctx=ast.Load()),
                               args=[copy.deepcopy(consts[node.value.id])], keywords=[])
                for x in ast.walk(new):
                    ast.copy_location(x, node)
                return new
            return node

    return ast.fix_missing_locations(T().visit(tree))


# ------------------------------------------------------------------------------------------------ one function
_PURE_EXTRA: set[str] = set()      # value classes and classes of the module being normalised (constructor calls)


def _is_pure(e: ast.AST) -> bool:
    for n in ast.walk(e):
        if isinstance(n, (ast.Await, ast.Yield, ast.YieldFrom, ast.NamedExpr, ast.Lambda, ast.ListComp, ast.SetComp, ast.DictComp,
                          ast.GeneratorExp, ast.Starred)):
            return False
        if isinstance(n, ast.Call):
            f = ast.unparse(n.func)
            if f in PURE_FUNCS or f in _PURE_EXTRA:
                continue
            if isinstance(n.func, ast.Attribute) and n.func.attr in PURE_METHODS:
                continue
            return False
    return True


def _names(e: ast.AST) -> set[str]:
    return {x.id for x in ast.walk(e) if isinstance(x, ast.Name)}


def _header(st: ast.stmt) -> list[ast.AST]:
    """The expressions of a statement that are evaluated exactly once when the statement is reached."""
    if isinstance(st, (ast.Assign, ast.AugAssign, ast.AnnAssign, ast.Expr, ast.Return, ast.Raise, ast.Assert)):
        return [st]
    if isinstance(st, ast.If):
        return [st.test]
    if isinstance(st, ast.For):
        return [st.iter]
    return []


class _Subst(ast.NodeTransformer):
    def __init__(self, env: dict[str, ast.AST]) -> None:
        self.env = env
        self.done = 0

    def visit_Name(self, node: ast.Name) -> ast.AST:
        if isinstance(node.ctx, ast.Load) and node.id in self.env:
            self.done += 1
            new = copy.deepcopy(self.env[node.id])
            for x in ast.walk(new):
                ast.copy_location(x, node)
            return new
        return node


def _blocks(fn: ast.AST):
    for n in ast.walk(fn):
        for field in ('body', 'orelse', 'finalbody'):
            b = getattr(n, field, None)
            if isinstance(b, list) and b and isinstance(b[0], ast.stmt):
                yield n, field, b


def _negate(t: ast.AST) -> ast.AST:
    flip = {ast.Eq: ast.NotEq, ast.NotEq: ast.Eq, ast.Lt: ast.GtE, ast.GtE: ast.Lt, ast.Gt: ast.LtE, ast.LtE: ast.Gt,
            ast.In: ast.NotIn, ast.NotIn: ast.In, ast.Is: ast.IsNot, ast.IsNot: ast.Is}
    if isinstance(t, ast.Compare) and len(t.ops) == 1 and type(t.ops[0]) in flip:
        new: ast.AST = ast.Compare(left=t.left, ops=[flip[type(t.ops[0])]()], comparators=t.comparators)
    elif isinstance(t, ast.UnaryOp) and isinstance(t.op, ast.Not):
        return t.operand
    else:
        new = ast.UnaryOp(op=ast.Not(), operand=t)
    return ast.copy_location(new, t)


def function(fn: ast.FunctionDef, tree: ast.Module, consts: bool = True, aliases: bool | str = True) -> ast.FunctionDef:
    fn = copy.deepcopy(fn)
    bound = _bound_names(fn)
    _PURE_EXTRA.clear()
    _PURE_EXTRA.update({'Vec', 'FrozenVec', 'Angle', 'FrozenAngle', 'Matrix', 'FrozenMatrix'})
    _PURE_EXTRA.update(n.name for n in tree.body if isinstance(n, ast.ClassDef))
    # 1. module-level literal constants
    env: dict[str, ast.AST] = {}
    for name, vals in (_module_assigns(tree).items() if consts else ()):
        if consts and len(vals) == 1 and isinstance(vals[0], ast.Constant) and type(vals[0].value) in (int, str, bytes) and name not in bound:
            env[name] = vals[0]
    if env:
        _Subst(env).visit(fn)

    def stores(name: str) -> int:
        return sum(1 for n in ast.walk(fn) if (isinstance(n, ast.Name) and n.id == name and isinstance(n.ctx, (ast.Store, ast.Del)))
                   or (isinstance(n, ast.arg) and n.arg == name))

    def loads(name: str, root: ast.AST | None = None) -> int:
        return sum(1 for n in ast.walk(root or fn) if isinstance(n, ast.Name) and n.id == name and isinstance(n.ctx, ast.Load))

    # 2. aliases of names / attribute chains
    changed = bool(aliases)
    while changed:
        changed = False
        for i, st in enumerate(fn.body):
            if isinstance(st, ast.Assign) and len(st.targets) == 1 and isinstance(st.targets[0], ast.Name) and stores(st.targets[0].id) == 1:
                v = st.value
                chain = v
                while isinstance(chain, ast.Attribute) or (isinstance(chain, ast.Subscript) and isinstance(chain.slice, ast.Constant)):
                    chain = chain.value
                if not isinstance(chain, ast.Name):
                    continue
                if aliases == 'table-entries' and not isinstance(v, ast.Subscript):
                    continue            # only `x = table['KEY']`
                if stores(chain.id) > 1 or chain.id == st.targets[0].id:
                    continue
                text = ast.unparse(v)
                if any(isinstance(n, (ast.Attribute, ast.Subscript)) and isinstance(n.ctx, (ast.Store, ast.Del))
                       and (ast.unparse(n).startswith(text) or text.startswith(ast.unparse(n))) for n in ast.walk(fn)):
                    continue            # the chain (or a prefix of it) is re-bound somewhere in the function
                name = st.targets[0].id
                if loads(name, ast.Module(body=fn.body[:i + 1], type_ignores=[])) > 0:
                    continue            # used before / in its own definition
                del fn.body[i]
                _Subst({name: v}).visit(fn)
                changed = True
                break

    # 3. single-use locals
    changed = True
    while changed:
        changed = False
        for _owner, _field, block in _blocks(fn):
            for i, st in enumerate(block):
                if not (isinstance(st, (ast.Assign, ast.AnnAssign)) and (st.value is not None)):
                    continue
                tg = st.targets[0] if isinstance(st, ast.Assign) and len(st.targets) == 1 else st.target if isinstance(st, ast.AnnAssign) else None
                if not isinstance(tg, ast.Name) or stores(tg.id) != 1 or loads(tg.id) != 1 or not _is_pure(st.value):
                    continue
                reads = _names(st.value)
                for j in range(i + 1, len(block)):
                    s2 = block[j]
                    if loads(tg.id, s2):
                        heads = _header(s2)
                        if sum(loads(tg.id, h) for h in heads) == 1:
                            sub = _Subst({tg.id: st.value})
                            if isinstance(s2, ast.If):
                                s2.test = sub.visit(s2.test)
                            elif isinstance(s2, ast.For):
                                s2.iter = sub.visit(s2.iter)
                            else:
                                sub.visit(s2)
                            del block[i]
                            changed = True
                        break
                    t2 = s2.targets[0] if isinstance(s2, ast.Assign) and len(s2.targets) == 1 else s2.target if isinstance(s2, ast.AnnAssign) else None
                    if not (isinstance(t2, ast.Name) and getattr(s2, 'value', None) is not None and _is_pure(s2.value) and t2.id not in reads):
                        break
                if changed:
                    break
            if changed:
                break

    # 4. list(E) as the iterable of a for loop - unless the function may change E while the loop runs: E is the table of a
    #    find_or_insert / find_or_extend closure, or is appended to / extended / inserted into / popped from somewhere in the function
    #    (then `for x in list(E)` is a snapshot and `for x in E` a work list: translate/c11_worklist.py reads which one it is)
    grown: set[str] = set()
    for n in ast.walk(fn):
        if isinstance(n, ast.Call) and ast.unparse(n.func) in ('find_or_insert', 'find_or_extend') and n.args:
            grown.add(ast.unparse(n.args[0]))
        elif isinstance(n, ast.Call) and isinstance(n.func, ast.Attribute) and n.func.attr in ('append', 'extend', 'insert', 'pop', 'remove', 'clear', 'sort', 'reverse'):
            grown.add(ast.unparse(n.func.value))
        elif isinstance(n, (ast.Subscript,)) and isinstance(n.ctx, (ast.Store, ast.Del)):
            grown.add(ast.unparse(n.value))
    for n in ast.walk(fn):
        if isinstance(n, ast.For):
            while isinstance(n.iter, ast.Call) and ast.unparse(n.iter.func) in ('list', 'tuple') and len(n.iter.args) == 1 and not n.iter.keywords \
                    and ast.unparse(n.iter.args[0]) not in grown:
                n.iter = n.iter.args[0]

    # 5. `if C: continue` + rest  ->  `if not C: rest`
    changed = True
    while changed:
        changed = False
        for n in ast.walk(fn):
            if isinstance(n, (ast.For, ast.While)):
                for i, st in enumerate(n.body):
                    if isinstance(st, ast.If) and not st.orelse and len(st.body) == 1 and isinstance(st.body[0], ast.Continue) and i + 1 < len(n.body):
                        new = ast.If(test=_negate(st.test), body=n.body[i + 1:], orelse=[])
                        ast.copy_location(new, st)
                        n.body[i:] = [new]
                        changed = True
                        break
    # 6. `if not C: A else: B` -> `if C: B else: A`
    for n in ast.walk(fn):
        if isinstance(n, ast.If) and n.orelse and isinstance(n.test, ast.UnaryOp) and isinstance(n.test.op, ast.Not) \
                and not (len(n.orelse) == 1 and isinstance(n.orelse[0], ast.If)):
            n.test, n.body, n.orelse = n.test.operand, n.orelse, n.body
    return ast.fix_missing_locations(fn)


def functions(tree: ast.Module, names: set[str] | None, consts: bool = True, aliases: bool | str = True) -> ast.Module:
    """A copy of the module in which the named functions (module level or methods; None = all) are normalised."""
    tree = copy.deepcopy(tree)

    class T(ast.NodeTransformer):
        def visit_FunctionDef(self, node: ast.FunctionDef) -> ast.AST:
            if names is None or node.name in names:
                return function(node, tree, consts, aliases)
            self.generic_visit(node)
            return node
    return T().visit(tree)


_CACHE: dict[tuple, ast.Module] = {}


def module(text: str) -> ast.Module:
    """bsp.py as every C11 translator reads it: struct constants resolved, every function normalised (no constant substitution,
    only table-entry aliases).  Memoised on the source text; callers must not modify the tree."""
    key = (hash(text), len(text))
    if key not in _CACHE:
        _CACHE[key] = functions(struct_constants(ast.parse(text)), None, consts=False, aliases='table-entries')
    return _CACHE[key]
