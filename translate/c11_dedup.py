"""C11 translator, fourth part: the KEY of every de-duplicating index table of the lump writers.

Every writer turns object references into indexes through a table "key -> index": `find_or_insert(table, key_func)` /
`find_or_extend(table, key_func)` of binformat.py, or a local dict that is looked up with `d[key]` and filled with
`d[key] = next index`.  The record stored at an index belongs to the FIRST object that had the key; so the reader gets
the requested record back only if the key determines the whole record (Fmt/BspDedup.v: `key_determines`).

For every such table this module reads from today's source
  * the key function (argument / keyword of the call, else the default of the signature in binformat.py; for a dict the
    subscript expression, followed through single-assignment locals), normalised to
      identity  - `id`, `lambda x: id(x)`, or the object itself when its class hashes by identity (attrs `eq=False`, a
                  plain class without `__eq__`/`__hash__`),
      value     - the item itself compared by value (`identity`-like function `return x`, `lambda x: x`) for str / numbers /
                  tuples of them,
      fields    - a list of (attribute, transformation): `lambda p: (p.a, p.b.casefold())`, `str.casefold`,
                  `operator.attrgetter('a')`, `tdat.mat.casefold()`; an attrs class compared by value gives its `eq` fields;
  * the attributes of the item class (attrs fields incl. inherited ones; `<value>` for plain values), from the annotation
    of the table (`self.planes: ParsedLump[list[Plane]]`, `models: list[str]`, parameter `texinfos: list['TexInfo']`, the
    annotation of the attribute the object was taken from).

Hard-wired: ADMITTED (tables whose values are pairwise distinct under a transformation by a documented well-formedness
rule) and the set of str methods treated as transformations.  Fail-closed: a key function, key expression or item type
that cannot be classified -> TranslateError.
"""
from __future__ import annotations

import ast
from typing import Any

from harness.common import TranslateError, src_text

FINDERS = ('find_or_insert', 'find_or_extend')
STR_TRANSFORMS = {'casefold', 'lower', 'upper', 'strip', 'rstrip', 'lstrip', 'title', 'capitalize', 'swapcase'}
PLAIN = {'str', 'int', 'float', 'bytes', 'bool'}
VALUE = '<value>'
# material names are case-insensitive: the names of bsp.textures are pairwise distinct after casefold (well-formedness
# rule of harness/c11_util.py, docs/C11.md); a key that casefolds them therefore still tells them apart
ADMITTED = {'self.textures': ['casefold']}


def coq_s(s: str) -> str:
    return '"' + s.replace('"', "'") + '"'


def _strip_ann(t: str) -> str:
    t = t.strip().strip('\'"').strip()
    for wrap in ('Optional[', 'typing.Optional['):
        if t.startswith(wrap) and t.endswith(']'):
            t = t[len(wrap):-1].strip().strip('\'"')
    return t


def elem_type(ann: ast.AST | None) -> str | None:
    """`list[X]` (possibly inside ParsedLump[...], quoted) -> 'X'."""
    if ann is None:
        return None
    if isinstance(ann, ast.Constant) and isinstance(ann.value, str):
        try:
            ann = ast.parse(ann.value, mode='eval').body
        except SyntaxError:
            return None
    for n in ast.walk(ann):
        if isinstance(n, ast.Subscript) and ast.unparse(n.value) in ('list', 'List', 'typing.List', 'Sequence', 'Iterable', 'Iterator',
                                                                     'typing.Sequence', 'typing.Iterable', 'Collection'):
            return _strip_ann(ast.unparse(n.slice))
    return None


class Classes:
    """What equality / hashing of the classes of the module means."""

    def __init__(self, tree: ast.Module) -> None:
        self.raw: dict[str, ast.ClassDef] = {n.name: n for n in tree.body if isinstance(n, ast.ClassDef)}

    def is_attrs(self, c: str) -> bool:
        return c in self.raw and any('attrs.' in ast.unparse(d) or ast.unparse(d).startswith('attr.') for d in self.raw[c].decorator_list)

    def bases(self, c: str) -> list[str]:
        return [ast.unparse(b) for b in self.raw[c].bases if ast.unparse(b) in self.raw]

    def own_fields(self, c: str) -> list[tuple[str, str, bool]]:
        """(name, annotation, takes part in ==) of the attrs fields declared in c."""
        out = []
        for s in self.raw[c].body:
            if isinstance(s, ast.AnnAssign) and isinstance(s.target, ast.Name):
                a = ast.unparse(s.annotation)
                if a.startswith('ClassVar') or a.startswith('typing.ClassVar'):
                    continue
                in_eq = True
                if isinstance(s.value, ast.Call) and ast.unparse(s.value.func) in ('attrs.field', 'attr.ib', 'attrs.Factory', 'field'):
                    for k in s.value.keywords:
                        if k.arg in ('eq', 'hash') and isinstance(k.value, ast.Constant) and k.value.value is False:
                            in_eq = False
                        elif k.arg in ('eq', 'hash') and not isinstance(k.value, ast.Constant):
                            raise TranslateError(f'class {c}: field {s.target.id}: eq=/hash= argument not a literal')
                out.append((s.target.id, _strip_ann(a), in_eq))
        return out

    def fields(self, c: str) -> list[tuple[str, str, bool]]:
        out: list[tuple[str, str, bool]] = []
        for b in self.bases(c):
            out += self.fields(b)
        return out + self.own_fields(c)

    def defines(self, c: str, names: set[str]) -> bool:
        if any(isinstance(s, ast.FunctionDef) and s.name in names for s in self.raw[c].body):
            return True
        if any(isinstance(s, ast.Assign) and any(isinstance(t, ast.Name) and t.id in names for t in s.targets) for s in self.raw[c].body):
            return True
        return any(self.defines(b, names) for b in self.bases(c))

    def hash_mode(self, c: str) -> str:
        """'identity' or 'value' (attrs-generated == over the eq fields)."""
        if c not in self.raw:
            raise TranslateError(f'class {c} is not defined in bsp.py: how its objects compare is unknown')
        if self.defines(c, {'__eq__', '__hash__'}):
            raise TranslateError(f'class {c} defines __eq__/__hash__ by hand: not classified')
        if not self.is_attrs(c):
            if any(ast.unparse(b) not in self.raw and ast.unparse(b) not in ('object', 'Generic[T]') for b in self.raw[c].bases):
                raise TranslateError(f'class {c} has a base class outside bsp.py: how its objects compare is unknown')
            return 'identity'
        mode = None
        for d in self.raw[c].decorator_list:
            if isinstance(d, ast.Call):
                name = ast.unparse(d.func)
                for k in d.keywords:
                    if k.arg == 'eq':
                        if not isinstance(k.value, ast.Constant):
                            raise TranslateError(f'class {c}: eq= argument not a literal')
                        mode = 'value' if k.value.value else 'identity'
                if mode is None and ('attrs.' in name or name.startswith('attr.')):
                    mode = 'value'
            elif 'attrs.' in ast.unparse(d) or ast.unparse(d).startswith('attr.'):
                mode = 'value'
        if mode is None:
            raise TranslateError(f'class {c}: decorator not recognised')
        return mode


def plain_type(t: str) -> bool:
    t = t.strip()
    if t in PLAIN:
        return True
    if t.startswith(('tuple[', 'Tuple[')) and t.endswith(']'):
        try:
            body = ast.parse(t, mode='eval').body
        except SyntaxError:
            return False
        sl = body.slice     # type: ignore[attr-defined]
        elts = sl.elts if isinstance(sl, ast.Tuple) else [sl]
        return all((isinstance(e, ast.Constant) and e.value is Ellipsis) or plain_type(ast.unparse(e)) for e in elts)
    return False


# ------------------------------------------------------------------------------------------------ key functions
def proj_of(e: ast.AST, var: str, where: str) -> list[tuple[str, str]] | str:
    """The body of a key function of one parameter `var`: 'identity', 'value' or a list of (attribute path, transformation)."""
    if isinstance(e, ast.Name) and e.id == var:
        return 'value'
    if isinstance(e, ast.Call) and ast.unparse(e.func) == 'id' and len(e.args) == 1 and not e.keywords:
        inner = proj_of(e.args[0], var, where)
        if inner == 'value':
            return 'identity'
        if isinstance(inner, list) and all(t == '' for _, t in inner):
            return inner            # identity of a sub-object: that attribute, untransformed
        raise TranslateError(f'{where}: id() of a transformed value: {ast.unparse(e)[:60]}')
    if isinstance(e, ast.Tuple):
        out: list[tuple[str, str]] = []
        for el in e.elts:
            p = proj_of(el, var, where)
            if p == 'value':
                return 'value'      # the item itself is part of the key
            if p == 'identity':
                return 'identity'
            out += p                # type: ignore[operator]
        return out
    if isinstance(e, ast.Call) and isinstance(e.func, ast.Attribute) and e.func.attr in STR_TRANSFORMS and not e.keywords:
        inner = proj_of(e.func.value, var, where)
        if inner == 'value':
            return [(VALUE, e.func.attr)]
        if isinstance(inner, list) and len(inner) == 1:
            return [(inner[0][0], (inner[0][1] + '+' if inner[0][1] else '') + e.func.attr)]
        raise TranslateError(f'{where}: method call on a compound key: {ast.unparse(e)[:60]}')
    if isinstance(e, ast.Attribute):
        parts: list[str] = []
        cur: ast.AST = e
        while isinstance(cur, ast.Attribute):
            parts.append(cur.attr)
            cur = cur.value
        if isinstance(cur, ast.Name) and cur.id == var:
            return [('.'.join(reversed(parts)), '')]
    raise TranslateError(f'{where}: key expression not recognised: {ast.unparse(e)[:80]}')


def key_of_callable(e: ast.AST, module_fns: dict[str, ast.FunctionDef], where: str) -> list[tuple[str, str]] | str:
    if isinstance(e, ast.Name) and e.id == 'id':
        return 'identity'
    if isinstance(e, ast.Name) and e.id in module_fns:
        f = module_fns[e.id]
        body = [s for s in f.body if not (isinstance(s, ast.Expr) and isinstance(s.value, ast.Constant))]
        if len(f.args.args) == 1 and len(body) == 1 and isinstance(body[0], ast.Return) and body[0].value is not None:
            return proj_of(body[0].value, f.args.args[0].arg, f'{where}: key function {e.id}')
        raise TranslateError(f'{where}: key function {e.id} is not a single `return <expression of its parameter>`')
    if isinstance(e, ast.Lambda) and len(e.args.args) == 1 and not e.args.defaults and not e.args.kwonlyargs:
        return proj_of(e.body, e.args.args[0].arg, f'{where}: lambda')
    if isinstance(e, ast.Attribute) and isinstance(e.value, ast.Name) and e.value.id == 'str' and e.attr in STR_TRANSFORMS:
        return [(VALUE, e.attr)]
    if isinstance(e, ast.Call) and ast.unparse(e.func) in ('operator.attrgetter', 'attrgetter') and e.args and not e.keywords \
            and all(isinstance(a, ast.Constant) and isinstance(a.value, str) for a in e.args):
        return [(a.value, '') for a in e.args]      # type: ignore[attr-defined]
    raise TranslateError(f'{where}: key function not recognised: {ast.unparse(e)[:80]}')


def default_keys(bin_tree: ast.Module) -> dict[str, tuple[int, str, ast.AST]]:
    """finder name -> (position of the key parameter, its name, its default)."""
    out = {}
    for n in bin_tree.body:
        if isinstance(n, ast.FunctionDef) and n.name in FINDERS:
            args = n.args.args
            if len(args) != 2 or len(n.args.defaults) != 1 or n.args.kwonlyargs:
                raise TranslateError(f'binformat.{n.name}: expected (item_list, key_func=<default>)')
            out[n.name] = (1, args[1].arg, n.args.defaults[0])
    if set(out) != set(FINDERS):
        raise TranslateError('binformat.py: find_or_insert / find_or_extend not found')
    return out


# ------------------------------------------------------------------------------------------------ types of expressions
class Typer:
    def __init__(self, fn: ast.FunctionDef, bsp_ann: dict[str, ast.AST], cls: Classes) -> None:
        self.fn, self.bsp_ann, self.cls = fn, bsp_ann, cls
        self.params = {a.arg: a.annotation for a in fn.args.args}
        self.ann_locals: dict[str, ast.AST] = {}
        self.assigns: dict[str, list[ast.AST]] = {}
        self.loops: dict[str, ast.AST] = {}
        for n in ast.walk(fn):
            if isinstance(n, ast.AnnAssign) and isinstance(n.target, ast.Name):
                self.ann_locals[n.target.id] = n.annotation
                if n.value is not None:
                    self.assigns.setdefault(n.target.id, []).append(n.value)
            elif isinstance(n, ast.Assign):
                for t in n.targets:
                    if isinstance(t, ast.Name):
                        self.assigns.setdefault(t.id, []).append(n.value)
            elif isinstance(n, (ast.For, ast.comprehension)):
                t, it = n.target, n.iter
                if isinstance(t, ast.Name):
                    self.loops[t.id] = it
                elif isinstance(t, ast.Tuple) and len(t.elts) == 2 and isinstance(t.elts[1], ast.Name) and isinstance(it, ast.Call) \
                        and ast.unparse(it.func) == 'enumerate' and it.args:
                    self.loops[t.elts[1].id] = it.args[0]

    def list_elem(self, e: ast.AST) -> str | None:
        """Element type of a list-valued expression."""
        if isinstance(e, ast.Name):
            if e.id in self.ann_locals:
                return elem_type(self.ann_locals[e.id])
            if e.id in self.params:
                return elem_type(self.params[e.id])
            vals = self.assigns.get(e.id, [])
            if len(vals) == 1 and isinstance(vals[0], ast.List) and vals[0].elts:
                ts = {self.type_of(x, frozenset()) for x in vals[0].elts}
                return ts.pop() if len(ts) == 1 else None
            return None
        if isinstance(e, ast.Attribute) and isinstance(e.value, ast.Name) and e.value.id == 'self':
            return elem_type(self.bsp_ann.get(e.attr))
        if isinstance(e, ast.Call) and ast.unparse(e.func) in ('list', 'reversed', 'sorted', 'iter') and len(e.args) == 1:
            return self.list_elem(e.args[0])
        return None

    def type_of(self, e: ast.AST, seen: frozenset[str]) -> str | None:
        if isinstance(e, ast.Name):
            if e.id in seen:
                return None
            if e.id in self.loops:
                return self.list_elem(self.loops[e.id])
            if e.id in self.params and self.params[e.id] is not None:
                return _strip_ann(ast.unparse(self.params[e.id]))
            if e.id in self.ann_locals:
                return _strip_ann(ast.unparse(self.ann_locals[e.id]))
            ts = {self.type_of(v, seen | {e.id}) for v in self.assigns.get(e.id, [])}
            return ts.pop() if len(ts) == 1 else None
        if isinstance(e, ast.Attribute):
            base = self.type_of(e.value, seen)
            if base is None or base not in self.cls.raw:
                return None
            for f, t, _ in self.cls.fields(base):
                if f == e.attr:
                    return t
            return None
        if isinstance(e, ast.Subscript):
            return self.list_elem(e.value)
        if isinstance(e, ast.Call) and isinstance(e.func, ast.Name) and e.func.id in self.cls.raw:
            return e.func.id
        if isinstance(e, ast.Constant) and isinstance(e.value, str):
            return 'str'
        return None


def object_key(t: str | None, cls: Classes, where: str) -> tuple[Any, list[str]]:
    """The key `the object itself` for an object of type t -> (keyspec, attributes of the class)."""
    if t is None:
        raise TranslateError(f'{where}: the type of the object used as key could not be determined')
    if plain_type(t):
        return 'value', [VALUE]
    mode = cls.hash_mode(t)
    fl = cls.fields(t) if cls.is_attrs(t) else []
    names = [f for f, _, _ in fl]
    if mode == 'identity':
        return 'identity', names
    return [(f, '') for f, _, q in fl if q], names


def resolve_fields(proj: list[tuple[str, str]], t: str | None, cls: Classes, where: str) -> list[str]:
    """Attributes of the item class for a key that reads attributes."""
    if all(f == VALUE for f, _ in proj):
        return [VALUE]
    if any(f == VALUE for f, _ in proj):
        raise TranslateError(f'{where}: key mixes the item itself with its attributes')
    heads = {f.split('.')[0] for f, _ in proj}
    if t is not None and t in cls.raw and cls.is_attrs(t):
        return [f for f, _, _ in cls.fields(t)]
    cands = [c for c in cls.raw if cls.is_attrs(c) and heads <= {f for f, _, _ in cls.fields(c)}]
    if len(cands) == 1:
        return [f for f, _, _ in cls.fields(cands[0])]
    raise TranslateError(f'{where}: item class of the table not determined (candidates {sorted(cands)[:6]})')


# ------------------------------------------------------------------------------------------------ census
def finder_tables(fn: ast.FunctionDef, typer: Typer, cls: Classes, module_fns: dict[str, ast.FunctionDef],
                  defaults: dict[str, tuple[int, str, ast.AST]]) -> list[tuple[str, list[str], list[str], Any, str]]:
    out = []
    for n in ast.walk(fn):
        if not (isinstance(n, ast.Call) and ast.unparse(n.func) in FINDERS):
            continue
        which = ast.unparse(n.func)
        pos, kwname, dflt = defaults[which]
        if not n.args or any(isinstance(a, ast.Starred) for a in n.args) or any(k.arg is None for k in n.keywords):
            raise TranslateError(f'{fn.name}: line {n.lineno}: {which}(...) call not recognised')
        table = ast.unparse(n.args[0])
        where = f'{fn.name}: line {n.lineno}: {which}({table})'
        keyexpr: ast.AST = dflt
        if len(n.args) > pos:
            keyexpr = n.args[pos]
        for k in n.keywords:
            if k.arg == kwname:
                keyexpr = k.value
            else:
                raise TranslateError(f'{where}: keyword {k.arg} not recognised')
        if isinstance(keyexpr, ast.Name) and keyexpr.id not in ('id',) and keyexpr.id not in module_fns:
            vals = typer.assigns.get(keyexpr.id, [])
            if len(vals) == 1:
                keyexpr = vals[0]
        key = key_of_callable(keyexpr, module_fns, where)
        et = typer.list_elem(n.args[0])
        fields: list[str]
        if key == 'identity':
            spec: Any = 'identity'
            fields = [f for f, _, _ in cls.fields(et)] if et in cls.raw and cls.is_attrs(et) else ([VALUE] if et and plain_type(et) else [])
        elif key == 'value':
            spec, fields = object_key(et, cls, where + ' (items compared by value)')
        else:
            fields = resolve_fields(key, et, cls, where)       # type: ignore[arg-type]
            spec = key
        out.append((f'{fn.name}:{table}', ADMITTED.get(table, []), fields, spec, ast.unparse(keyexpr)))
    return out


def dict_tables(fn: ast.FunctionDef, typer: Typer, cls: Classes) -> list[tuple[str, list[str], list[str], Any, str]]:
    """Local dicts used as index tables: subscripted both for reading and for writing."""
    locals_: set[str] = set()
    for n in ast.walk(fn):
        if isinstance(n, (ast.Assign, ast.AnnAssign)) and n.value is not None:
            v = n.value
            is_dict = (isinstance(v, ast.Dict) and not v.keys) or \
                      (isinstance(v, ast.Call) and ast.unparse(v.func) in ('dict', 'collections.OrderedDict', 'OrderedDict') and not v.args and not v.keywords)
            tg = n.targets if isinstance(n, ast.Assign) else [n.target]
            if is_dict:
                for t in tg:
                    if isinstance(t, ast.Name):
                        locals_.add(t.id)
    out = []
    for d in sorted(locals_):
        loads: list[ast.AST] = []
        stores: list[ast.AST] = []
        for n in ast.walk(fn):
            if isinstance(n, ast.Subscript) and isinstance(n.value, ast.Name) and n.value.id == d:
                (stores if isinstance(n.ctx, ast.Store) else loads).append(n.slice)
            elif isinstance(n, ast.Call) and isinstance(n.func, ast.Attribute) and isinstance(n.func.value, ast.Name) and n.func.value.id == d:
                if n.func.attr in ('get', 'pop') and n.args:
                    loads.append(n.args[0])
                elif n.func.attr == 'setdefault' and n.args:
                    loads.append(n.args[0])
                    stores.append(n.args[0])
                elif n.func.attr in ('items', 'values', 'keys', 'clear', 'copy'):
                    pass
                else:
                    raise TranslateError(f'{fn.name}: line {n.lineno}: use of dict `{d}` not recognised: {ast.unparse(n)[:60]}')
            elif isinstance(n, ast.Compare) and len(n.ops) == 1 and isinstance(n.ops[0], (ast.In, ast.NotIn)) \
                    and isinstance(n.comparators[0], ast.Name) and n.comparators[0].id == d:
                loads.append(n.left)
        if not loads or not stores:
            continue            # not an index table (only filled, or only read)
        specs = []
        for k in loads + stores:
            specs.append(dict_key(k, fn, typer, cls, f'{fn.name}: line {k.lineno}: {d}[{ast.unparse(k)[:40]}]'))
        first = specs[0]
        if any((s[0], s[1]) != (first[0], first[1]) for s in specs[1:]):
            raise TranslateError(f'{fn.name}: dict `{d}` is subscripted with different keys: {sorted({s[2] for s in specs})}')
        out.append((f'{fn.name}:{d}', ADMITTED.get(d, []), first[1], first[0], first[2]))
    return out


def dict_key(k: ast.AST, fn: ast.FunctionDef, typer: Typer, cls: Classes, where: str) -> tuple[Any, list[str], str]:
    """A subscript expression -> (keyspec, attributes of the class of the object it was computed from, source text)."""
    # follow single-assignment locals that hold a computed key
    seen: set[str] = set()
    while isinstance(k, ast.Name) and k.id not in typer.loops and k.id not in typer.params and k.id not in seen:
        vals = typer.assigns.get(k.id, [])
        if len(vals) != 1 or isinstance(vals[0], (ast.Name, ast.Attribute)) and typer.type_of(vals[0], frozenset()) is not None \
                and not plain_type(typer.type_of(vals[0], frozenset()) or ''):
            break
        seen.add(k.id)
        k = vals[0]
    text = ast.unparse(k)
    # the object itself
    if isinstance(k, (ast.Name, ast.Attribute)):
        t = typer.type_of(k, frozenset())
        spec, fields = object_key(t, cls, where)
        return spec, fields, text
    if isinstance(k, ast.Call) and ast.unparse(k.func) == 'id' and len(k.args) == 1:
        t = typer.type_of(k.args[0], frozenset())
        fields = [f for f, _, _ in cls.fields(t)] if t in cls.raw and cls.is_attrs(t) else []
        return 'identity', fields, text
    # a projection of one object: find the root object (the longest prefix whose type is a class of the module)
    roots: list[tuple[str, str]] = []

    def root_of(e: ast.AST) -> None:
        if isinstance(e, (ast.Name, ast.Attribute)):
            cur: ast.AST = e
            while True:
                t = typer.type_of(cur, frozenset())
                if t is not None and t in cls.raw:
                    roots.append((ast.unparse(cur), t))
                    return
                if isinstance(cur, ast.Attribute):
                    cur = cur.value
                else:
                    raise TranslateError(f'{where}: the object `{ast.unparse(e)}` is read from could not be typed')
        for ch in ast.iter_child_nodes(e):
            if isinstance(ch, ast.expr) and not (isinstance(e, ast.Call) and ch is e.func and isinstance(ch, ast.Name)):
                if isinstance(e, ast.Call) and ch is e.func and isinstance(ch, ast.Attribute):
                    root_of(ch.value)
                else:
                    root_of(ch)
    root_of(k)
    if len({r for r, _ in roots}) != 1:
        raise TranslateError(f'{where}: key is not computed from one object: {text[:60]}')
    rtext, rtype = roots[0]
    # rewrite the root to a parameter name and reuse the key-function classifier
    var = '__item__'

    class Sub(ast.NodeTransformer):
        def generic_visit(self, node: ast.AST) -> ast.AST:
            if isinstance(node, (ast.Name, ast.Attribute)) and ast.unparse(node) == rtext:
                return ast.Name(id=var, ctx=ast.Load())
            return super().generic_visit(node)
    k2 = Sub().visit(ast.parse(text, mode='eval').body)
    proj = proj_of(k2, var, where)
    if proj in ('identity', 'value'):
        spec, fields = object_key(rtype, cls, where)
        return ('identity' if proj == 'identity' else spec), fields, text
    return proj, resolve_fields(proj, rtype, cls, where), text      # type: ignore[arg-type]


def coq_spec(spec: Any) -> str:
    if spec == 'identity':
        return 'KIdentity'
    if spec == 'value':
        return 'KValue'
    return 'KFields [' + '; '.join(f'({coq_s(f)}, {coq_s(t)})' for f, t in spec) + ']'


def generate(tree: ast.Module) -> tuple[str, dict]:
    bin_tree = ast.parse(src_text('binformat.py'))
    defaults = default_keys(bin_tree)
    cls = Classes(tree)
    bsp_cls = next((n for n in tree.body if isinstance(n, ast.ClassDef) and n.name == 'BSP'), None)
    if bsp_cls is None:
        raise TranslateError('class BSP not found')
    bsp_ann = {s.target.id: s.annotation for s in bsp_cls.body if isinstance(s, ast.AnnAssign) and isinstance(s.target, ast.Name)}
    module_fns = {f.name: f for f in tree.body if isinstance(f, ast.FunctionDef)}
    fns = [f for f in bsp_cls.body if isinstance(f, ast.FunctionDef)] + list(module_fns.values())
    tables: dict[str, tuple[list[str], list[str], Any, str]] = {}
    n_sites = 0
    for fn in fns:
        typer = Typer(fn, bsp_ann, cls)
        found = finder_tables(fn, typer, cls, module_fns, defaults)
        if fn.name.startswith(('_lmp_write', '_write_')):
            found += dict_tables(fn, typer, cls)
        for name, adm, fields, spec, text in found:
            n_sites += 1
            if name in tables and (tables[name][0], tables[name][1], tables[name][2]) != (adm, fields, spec):
                k = 2
                while f'{name}#{k}' in tables:
                    k += 1
                name = f'{name}#{k}'
            tables[name] = (adm, fields, spec, text)
    if not tables:
        raise TranslateError('no de-duplicating table found in bsp.py')
    lines = []
    side: dict[str, Any] = {'dedup_tables': {}, 'dedup_sites': n_sites}
    for name, (adm, fields, spec, text) in tables.items():
        lines.append(f'  ({coq_s(name)}, [{"; ".join(coq_s(a) for a in adm)}], [{"; ".join(coq_s(f) for f in fields)}], {coq_spec(spec)})')
        side['dedup_tables'][name] = {'key': text, 'spec': spec if isinstance(spec, str) else [list(p) for p in spec],
                                      'class_fields': fields, 'admitted': adm}
    text = '\n'.join(['(* every de-duplicating index table of the lump writers: function:table, transformations admitted by a',
                      '   well-formedness rule, attributes of the item class, key *)',
                      'Definition dedup_tables : list dedup_table := [', ';\n'.join(lines), '].'])
    return text, side
