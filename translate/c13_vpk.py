"""C13 translator: format constants, struct layouts, sentinel tests and placement sites of vpk.py -> Gen/VpkPlace_gen.v.

Fail-closed on the parts the model is *defined over* (constants, struct format strings, field order of the
entry on both sides, sentinel comparisons).  The placement / validation sites of FileInfo.write, VPK.add_file and
VPK.new_file are reported as booleans (site recognised or not); the check turns them into named instance obligations.
"""
from __future__ import annotations

import ast

from harness.common import TranslateError, ast_digest, src_text
from translate.c13_nullstr import module_constants


def _const_int(node) -> int:
    if isinstance(node, ast.Constant) and isinstance(node.value, int) and not isinstance(node.value, bool):
        return node.value
    raise TranslateError(f'line {getattr(node, "lineno", "?")}: integer literal expected, got {ast.dump(node)[:80]}')


def _find(body, kind, name):
    for n in body:
        if isinstance(n, kind) and getattr(n, 'name', None) == name:
            return n
    raise TranslateError(f'{kind.__name__} {name} not found')


def _calls(node, pred):
    return [n for n in ast.walk(node) if isinstance(n, ast.Call) and pred(n)]


def _is_attr_call(n: ast.Call, obj: str, attr: str) -> bool:
    return isinstance(n.func, ast.Attribute) and n.func.attr == attr and isinstance(n.func.value, ast.Name) and n.func.value.id == obj


def _fmt_widths(fmt: str) -> list[int]:
    if not fmt.startswith('<'):
        raise TranslateError(f'struct format {fmt!r} is not little-endian')
    w = {'I': 4, 'H': 2}
    try:
        return [w[ch] for ch in fmt[1:]]
    except KeyError as e:
        raise TranslateError(f'struct format {fmt!r}: unsupported code {e}')


def _local_env(fn: ast.FunctionDef) -> dict:
    """Locals of a function that are bound exactly once, by a plain `name = <expr>`."""
    stores: dict[str, int] = {}
    for n in ast.walk(fn):
        if isinstance(n, ast.Name) and isinstance(n.ctx, (ast.Store, ast.Del)):
            stores[n.id] = stores.get(n.id, 0) + 1
    env = {}
    for n in ast.walk(fn):
        if isinstance(n, ast.Assign) and len(n.targets) == 1 and isinstance(n.targets[0], ast.Name) and stores.get(n.targets[0].id) == 1:
            env[n.targets[0].id] = n.value
    return env


def _resolve(node, *envs):
    """Follow a name through single-assignment locals, then module constants."""
    for _ in range(6):
        if isinstance(node, ast.Name):
            for env in envs:
                if node.id in env:
                    node = env[node.id]
                    break
            else:
                return node
        else:
            return node
    return node


def _str_const(node, *envs):
    node = _resolve(node, *envs)
    return node.value if isinstance(node, ast.Constant) and isinstance(node.value, str) else None


def _struct_site(call: ast.Call, op: str, *envs):
    """`struct.<op>(fmt, *args)`, `<Struct object>.<op>(*args)` (the object may be a local or module constant bound to
    `struct.Struct(fmt)`), and for op == 'unpack' also `struct_read(fmt, file)`  ->  (fmt, args) or None."""
    f = call.func
    if call.keywords:
        return None
    if isinstance(f, ast.Attribute) and f.attr == op:
        if isinstance(f.value, ast.Name) and f.value.id == 'struct' and call.args:
            fmt = _str_const(call.args[0], *envs)
            return (fmt, call.args[1:]) if fmt is not None else None
        obj = _resolve(f.value, *envs)
        if isinstance(obj, ast.Call) and not obj.keywords and len(obj.args) == 1 and (
                (isinstance(obj.func, ast.Attribute) and obj.func.attr == 'Struct' and isinstance(obj.func.value, ast.Name) and obj.func.value.id == 'struct')
                or (isinstance(obj.func, ast.Name) and obj.func.id == 'Struct')):
            fmt = _str_const(obj.args[0], *envs)
            return (fmt, call.args) if fmt is not None else None
    if op == 'unpack' and isinstance(f, ast.Name) and f.id == 'struct_read' and len(call.args) == 2:
        fmt = _str_const(call.args[0], *envs)
        return (fmt, call.args[1:]) if fmt is not None else None
    return None


def _sites(fn: ast.FunctionDef, op: str, consts: dict) -> list:
    env = _local_env(fn)
    out = []
    for n in ast.walk(fn):
        if isinstance(n, ast.Call):
            r = _struct_site(n, op, env, consts)
            if r is not None:
                out.append((n, r[0], r[1]))
    return sorted(out, key=lambda t: (t[0].lineno, t[0].col_offset))


def _split_site(tree) -> tuple[str, int, dict]:
    """_get_file_parts: the statement that cuts the extension off the file name -> ('SplitLast'|'SplitFirst', separator code point)."""
    gfp = _find(tree.body, ast.FunctionDef, '_get_file_parts')
    found = []
    for n in ast.walk(gfp):
        if not isinstance(n, ast.If):
            continue
        asg = [b for b in n.body if isinstance(b, ast.Assign) and isinstance(b.targets[0], ast.Tuple)
               and any(isinstance(e, ast.Name) and e.id == 'ext' for e in b.targets[0].elts)
               and isinstance(b.value, ast.Call) and isinstance(b.value.func, ast.Attribute)]
        if asg:
            found.append((n, asg))
    if len(found) != 1 or len(found[0][1]) != 1 or found[0][0].orelse:
        raise TranslateError('_get_file_parts: expected exactly one `if ...: <names> = filename.<split>(...)` statement')
    iff, (asg,) = found[0]
    # `filename, ext = os.path.splitext(filename)` followed by dropping the dot of the extension: SplitExt (Fmt/VpkNameSplit.v [splitext])
    fcall = asg.value
    if ast.unparse(fcall.func) in ('os.path.splitext', 'posixpath.splitext') and not fcall.keywords and len(fcall.args) == 1 \
            and ast.unparse(fcall.args[0]) == 'filename' and [ast.unparse(e) for e in asg.targets[0].elts] == ['filename', 'ext'] \
            and len(iff.body) == 2 and iff.body[0] is asg and ast.unparse(iff.body[1]) in (
                'ext = ext[1:]', "ext = ext.removeprefix('.')", "ext = ext.lstrip('.')") \
            and ast.unparse(iff.test) in ('not ext', "not ext and '.' in filename", "'.' in filename and (not ext)", "ext == ''"):
        return 'SplitExt', None, {'line': asg.lineno, 'statement': ast.unparse(asg), 'digest': ast_digest(gfp)}
    if len(iff.body) != 1:
        raise TranslateError('_get_file_parts: expected exactly one `if ...: <names> = filename.<split>(...)` statement')
    conds = iff.test.values if isinstance(iff.test, ast.BoolOp) and isinstance(iff.test.op, ast.And) else [iff.test]
    no_ext = False
    guard_sep = None
    for c in conds:
        if ast.unparse(c) == 'not ext':
            no_ext = True
        elif isinstance(c, ast.Compare) and len(c.ops) == 1 and isinstance(c.ops[0], ast.In) and isinstance(c.left, ast.Constant) \
                and isinstance(c.left.value, str) and ast.unparse(c.comparators[0]) == 'filename':
            guard_sep = c.left.value
        else:
            raise TranslateError(f'line {iff.lineno}: _get_file_parts: condition {ast.unparse(c)!r} not recognised')
    if not no_ext:
        raise TranslateError(f'line {iff.lineno}: _get_file_parts: the split is not guarded by `not ext`')
    call = asg.value
    tg = [e.id if isinstance(e, ast.Name) else None for e in asg.targets[0].elts]
    meth = call.func.attr
    if ast.unparse(call.func.value) != 'filename' or call.keywords or not call.args or not (isinstance(call.args[0], ast.Constant) and isinstance(call.args[0].value, str)):
        raise TranslateError(f'line {asg.lineno}: _get_file_parts: split call {ast.unparse(call)!r} not recognised')
    sep = call.args[0].value
    if len(sep) != 1 or (guard_sep is not None and guard_sep != sep):
        raise TranslateError(f'line {asg.lineno}: _get_file_parts: separator {sep!r} / guard {guard_sep!r} not recognised')
    two = tg == ['filename', 'ext'] and len(call.args) == 2 and isinstance(call.args[1], ast.Constant) and call.args[1].value == 1
    three = len(tg) == 3 and tg[0] == 'filename' and tg[2] == 'ext' and tg[1] not in ('filename', 'ext', 'path') and len(call.args) == 1
    if meth == 'rsplit' and two and guard_sep is not None:
        kind = 'SplitLast'
    elif meth == 'split' and two and guard_sep is not None:
        kind = 'SplitFirst'
    elif meth == 'partition' and three:
        kind = 'SplitFirst'
    elif meth == 'rpartition' and three and guard_sep is not None:
        kind = 'SplitLast'
    else:
        raise TranslateError(f'line {asg.lineno}: _get_file_parts: split statement {ast.unparse(asg)!r} under {ast.unparse(iff.test)!r} not recognised')
    return kind, ord(sep), {'line': asg.lineno, 'statement': ast.unparse(asg), 'digest': ast_digest(gfp)}


def translate() -> tuple[str, dict]:
    tree = ast.parse(src_text('vpk.py'))
    side: dict = {}
    consts: dict[str, int] = {}
    mconsts = module_constants(tree)
    for nm in ('VPK_SIG', 'DIR_ARCH_INDEX', 'MAX_PRELOAD'):
        if nm in mconsts:
            consts[nm] = _const_int(_resolve(mconsts[nm], mconsts))
    for c in ('VPK_SIG', 'DIR_ARCH_INDEX'):
        if c not in consts:
            raise TranslateError(f'constant {c} not found')
    vpk = _find(tree.body, ast.ClassDef, 'VPK')
    finfo = _find(tree.body, ast.ClassDef, 'FileInfo')
    load = _find(vpk.body, ast.FunctionDef, 'load_dirfile')
    wdir = _find(vpk.body, ast.FunctionDef, 'write_dirfile')
    newf = _find(vpk.body, ast.FunctionDef, 'new_file')
    addf = _find(vpk.body, ast.FunctionDef, 'add_file')
    fwrite = _find(finfo.body, ast.FunctionDef, 'write')
    side['digests'] = {f.name: ast_digest(f) for f in (load, wdir, newf, addf, fwrite)}

    # ---------------- reader: the unpack sites (struct.unpack / Struct object / struct_read), target order, sentinels
    usites = _sites(load, 'unpack', mconsts)
    targets = {}
    for n in ast.walk(load):
        if isinstance(n, ast.Assign) and len(n.targets) == 1 and isinstance(n.targets[0], ast.Tuple) and isinstance(n.value, ast.Call):
            targets[id(n.value)] = [e.id if isinstance(e, ast.Name) else None for e in n.targets[0].elts]
    in_loops = {id(c) for f in ast.walk(load) if isinstance(f, ast.For) for b in f.body for c in ast.walk(b)}
    entry_sites = [(c, fmt) for c, fmt, _ in usites if id(c) in in_loops]
    head_sites = [(c, fmt) for c, fmt, _ in usites if id(c) not in in_loops]
    if len(entry_sites) != 1 or id(entry_sites[0][0]) not in targets:
        raise TranslateError('load_dirfile: exactly one entry unpack site `a, b, ... = <struct>.unpack(...)` inside the tree loops expected')
    read_fmt = entry_sites[0][1]
    read_fields = targets[id(entry_sites[0][0])]
    if None in read_fields or len(read_fields) != len(_fmt_widths(read_fmt)):
        raise TranslateError('load_dirfile: entry.unpack target tuple not recognised')
    hdr_fmts = [fmt for _, fmt in head_sites]
    if not hdr_fmts or hdr_fmts[0] != '<III':
        raise TranslateError(f'load_dirfile: header format {hdr_fmts!r} not recognised')
    # FileInfo(self, directory, file, ext, crc, arch_ind, offset, arch_len, dirfile.read(index_len)) — matched by the ROLE of each
    # unpack target (position in the format), not by the names of the locals
    fi = _calls(load, lambda c: isinstance(c.func, ast.Name) and c.func.id == 'FileInfo')
    if len(fi) != 1 or fi[0].keywords:
        raise TranslateError('load_dirfile: FileInfo(...) construction not recognised')
    fi_args = [ast.unparse(a) for a in fi[0].args]
    t_crc, t_plen, t_idx, t_off, t_alen, t_end = read_fields if len(read_fields) == 6 else [None] * 6
    fors = [n for n in ast.walk(load) if isinstance(n, ast.For) and isinstance(n.target, ast.Name)]
    loop_vars = [f.target.id for f in sorted(fors, key=lambda f: f.lineno)]       # ext, directory, file (outermost first)
    file_obj = ast.unparse(entry_sites[0][0].args[-1].func.value) if entry_sites[0][0].args and isinstance(entry_sites[0][0].args[-1], ast.Call) \
        and isinstance(entry_sites[0][0].args[-1].func, ast.Attribute) else ast.unparse(entry_sites[0][0].args[-1]) if entry_sites[0][0].args else None
    # sentinel tests
    read_dir_sentinel = read_term = None
    zero_len_resets_offset = False

    def cval(r):
        return _const_int(_resolve(r, mconsts))
    for n in ast.walk(load):
        if isinstance(n, ast.If) and isinstance(n.test, ast.Compare) and len(n.test.ops) == 1 and not n.orelse:
            l, o, r = n.test.left, n.test.ops[0], n.test.comparators[0]
            if not isinstance(l, ast.Name) and isinstance(r, ast.Name):
                l, r = r, l
            if not isinstance(l, ast.Name):
                continue
            l = l.id
            if l == t_idx and isinstance(o, ast.Eq) and len(n.body) == 1 and ast.unparse(n.body[0]) == f'{t_idx} = None':
                read_dir_sentinel = cval(r)
            elif l == t_alen and isinstance(o, ast.Eq) and len(n.body) == 1 and ast.unparse(n.body[0]) == f'{t_off} = 0':
                zero_len_resets_offset = cval(r) == 0
            elif l == t_end and isinstance(o, ast.NotEq) and isinstance(n.body[0], ast.Raise):
                read_term = cval(r)
    if read_dir_sentinel is None or read_term is None:
        raise TranslateError('load_dirfile: sentinel tests (arch_ind == DIR_ARCH_INDEX / end != 0xffff) not recognised')

    # ---------------- writer
    psites = _sites(wdir, 'pack', mconsts)
    entry_pack = [(fmt, a) for _, fmt, a in psites if len(a) == 6]
    head_pack = [(fmt, a) for _, fmt, a in psites if len(a) == 3]
    if len(entry_pack) != 1 or len(head_pack) != 1:
        raise TranslateError('write_dirfile: struct pack sites (one header with 3 values, one entry with 6) not recognised')
    write_fmt = entry_pack[0][0]
    write_fields = [ast.unparse(a) for a in entry_pack[0][1]]
    write_term = _const_int(_resolve(entry_pack[0][1][5], _local_env(wdir), mconsts))
    if head_pack[0][0] != '<III' or ast.unparse(head_pack[0][1][0]) != 'VPK_SIG':
        raise TranslateError('write_dirfile: header pack not recognised')
    # the loop variable that holds the FileInfo: `for <name>, <info> in sorted(files.items(), ...)` (innermost loop)
    wfors = sorted([n for n in ast.walk(wdir) if isinstance(n, ast.For)], key=lambda f: f.lineno)
    if len(wfors) != 3 or not (isinstance(wfors[2].target, ast.Tuple) and len(wfors[2].target.elts) == 2 and isinstance(wfors[2].target.elts[1], ast.Name)):
        raise TranslateError('write_dirfile: three nested loops, the innermost over (name, info) pairs, expected')
    iv = wfors[2].target.elts[1].id
    # the archive index written: `X = DIR_ARCH_INDEX if info.arch_index is None else info.arch_index` as if/else or conditional expression
    write_dir_sentinel = None
    idx_expr = write_fields[2]

    def sentinel_choice(test, a_none, a_some):
        src = ast.unparse(test)
        if src == f'{iv}.arch_index is not None':
            a_none, a_some = a_some, a_none
        elif src != f'{iv}.arch_index is None':
            return None
        return _const_int(_resolve(a_none, mconsts)) if ast.unparse(a_some) == f'{iv}.arch_index' else None
    for n in ast.walk(wdir):
        if isinstance(n, ast.If) and len(n.body) == 1 and len(n.orelse) == 1 and all(
                isinstance(x, ast.Assign) and len(x.targets) == 1 and ast.unparse(x.targets[0]) == idx_expr for x in (n.body[0], n.orelse[0])):
            write_dir_sentinel = sentinel_choice(n.test, n.body[0].value, n.orelse[0].value)
        if isinstance(n, ast.Assign) and len(n.targets) == 1 and ast.unparse(n.targets[0]) == idx_expr and isinstance(n.value, ast.IfExp):
            write_dir_sentinel = sentinel_choice(n.value.test, n.value.body, n.value.orelse)
    ix = entry_pack[0][1][2]
    if write_dir_sentinel is None and isinstance(ix, ast.IfExp):
        write_dir_sentinel = sentinel_choice(ix.test, ix.body, ix.orelse)
        idx_expr = None
    if write_dir_sentinel is None:
        raise TranslateError('write_dirfile: arch_index None -> DIR_ARCH_INDEX site not recognised')
    want_w = [f'{iv}.crc', f'len({iv}.start_data)', write_fields[2], f'{iv}.offset', f'{iv}.arch_len']
    fields_match = write_fields[:5] == want_w and len(read_fields) == 6 and len(set(read_fields)) == 6 and len(loop_vars) == 3 and \
        fi_args == ['self', loop_vars[1], loop_vars[2], loop_vars[0], t_crc, t_idx, t_off, t_alen, f'{file_obj}.read({t_plen})']

    # (null strings: translate/c13_nullstr.py)

    # ---------------- FileInfo.write placement sites (booleans)
    # FileInfo.write is executed on symbolic values for all 24 combinations of (directory VPK?, limit class, index None?, rest empty?):
    # translate/c13_place.py; the table is judged in Coq (SM/VpkPlace.v place_cut_ok / place_dest_ok / place_table_ok)
    from translate import c13_place
    pw = c13_place.analyse_write(fwrite, consts)
    cap, tail_to_footer = c13_place.rows_ok(pw['rows'])
    split_ok = True
    side['place'] = {'rows': pw['rows'], 'same_crc_skips': pw['same_crc_skips'], 'facts': pw['facts']}
    # FileInfo.read / verify on symbolic values: where the bytes after start_data come from, per (arch_len zero?, arch_index None?)
    rd = c13_place.analyse_readers(finfo)
    side['readers'] = rd
    # the two validations are *executed* (translate/c13_place.py mini_exec): `_check_arch_index` on None and on integers around the limits,
    # the name validation of new_file on all triples of probe strings; the call sites of `_check_arch_index` are guarded by "is a directory VPK"
    idx_fn = [n for n in tree.body if isinstance(n, ast.FunctionDef) and n.name == '_check_arch_index']
    idx_cmp = bool(idx_fn) and c13_place.index_check_ok(idx_fn[0], consts)
    # FileInfo.write in the rejection scenarios (read-only / index out of range / both): what raised, and what had been stored by then
    rej = c13_place.analyse_rejections(fwrite, consts)
    side['rejections'] = {'rows': rej, 'ok': c13_place.rej_rows_ok(rej)}
    write_checks_idx = all(r['raised'] and r['by'] == 'index' for r in rej if r['kind'] == 'index' and r['dir']) \
        and any(r['kind'] == 'index' and r['dir'] for r in rej)
    add_guard = c13_place.index_check_guarded(addf, ('self',))
    side['add_file_checks_index_before_new_file'] = add_guard
    chk_idx = idx_cmp and write_checks_idx and add_guard
    chk_name = c13_place.name_check_ok(newf)
    max_pre = consts.get('MAX_PRELOAD')
    split_kind, split_sep, split_info = _split_site(tree)

    side.update(consts=consts, read_fmt=read_fmt, write_fmt=write_fmt, read_fields=read_fields, write_fields=write_fields,
                read_dir_sentinel=read_dir_sentinel, write_dir_sentinel=write_dir_sentinel, read_term=read_term,
                write_term=write_term, zero_len_resets_offset=zero_len_resets_offset, fields_match=fields_match,
                tail_to_footer=tail_to_footer, preload_capped=cap and split_ok, chk_idx=chk_idx, chk_name=chk_name,
                ext_split=[split_kind, split_sep, split_info],
                lines={'load_dirfile': load.lineno, 'write_dirfile': wdir.lineno, 'FileInfo.write': fwrite.lineno,
                       'new_file': newf.lineno, 'add_file': addf.lineno})
    b = lambda x: 'true' if x else 'false'
    nl = lambda xs: '[' + '; '.join(str(x) for x in xs) + ']%N'
    text = '\n'.join([
        '(* GENERATED by translate/c13_vpk.py from /repo/src/srctools/vpk.py. Do not edit. *)',
        'From Coq Require Import List NArith Bool.', 'From SV Require Import Fmt.VpkDir SM.Vpk Fmt.VpkNameSplit SM.VpkPlace SM.VpkWriteOrder.', 'Import ListNotations.',
        'Open Scope N_scope.',
        f'Definition g_sig : N := {consts["VPK_SIG"]}.',
        f'Definition g_dir_index_write : N := {write_dir_sentinel}.',
        f'Definition g_dir_index_read : N := {read_dir_sentinel}.',
        f'Definition g_term_write : N := {write_term}.',
        f'Definition g_term_read : N := {read_term}.',
        f'Definition g_entry_widths_write : list N := {nl(_fmt_widths(write_fmt))}.',
        f'Definition g_entry_widths_read : list N := {nl(_fmt_widths(read_fmt))}.',
        f'Definition g_entry_fields_match : bool := {b(fields_match)}.',
        f'Definition g_zero_len_resets_offset : bool := {b(zero_len_resets_offset)}.',
        f'Definition g_max_preload : option N := {"Some " + str(max_pre) if max_pre is not None else "None"}.',
        f'(* FileInfo.write (line {fwrite.lineno}) executed on symbolic values: one row per combination of directory VPK? / limit class / index None? / rest empty? *)',
        'Definition g_place_table : list prow :=\n  ' + c13_place.coq_rows(pw['rows']) + '.',
        f'Definition g_same_crc_skips : bool := {b(pw["same_crc_skips"])}.',
        'Definition g_preload_capped : bool := place_cut_ok g_place_table.',
        '(* FileInfo.read / FileInfo.verify executed on symbolic values: (arch_len zero, arch_index None, source of read, source verify checks) *)',
        'Definition g_read_table : list rrow := ' + c13_place.coq_read_rows(rd['rows']) + '.',
        'Definition g_tail_to_footer : bool := place_dest_ok g_place_table.',
        '(* FileInfo.write executed in the rejection scenarios: (directory VPK, same checksum, what is wrong, raised?, by which validation, stores executed before) *)',
        'Definition g_rej_table : list rejrow :=\n  ' + c13_place.coq_rej_rows(rej) + '.',
        f'Definition g_add_file_checks_index_first : bool := {b(add_guard)}.',
        f'Definition g_chk_idx : bool := {b(chk_idx)}.',
        f'Definition g_chk_name : bool := {b(chk_name)}.',
        f'Definition g_ext_split : split_kind := {split_kind}{"" if split_sep is None else " " + str(split_sep)}.',
        '(* the instance the model is run and proved with *)',
        'Definition g_dcfg : dcfg := {| c_sig := g_sig; c_dir_index := g_dir_index_write; c_term := g_term_write |}.',
        'Definition g_vcfg (is_dir : bool) (limit : option N) : vcfg :=',
        '  {| v_dc := g_dcfg; v_is_dir := is_dir; v_limit := limit;',
        '     v_max_pre := match g_max_preload with Some m => m | None => 0 end;',
        '     v_chk_idx := g_chk_idx; v_chk_name := g_chk_name |}.',
        '',
    ])
    return text, side


GEN = {'VpkPlace_gen': translate}
