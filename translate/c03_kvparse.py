"""C03 translator: the exception-relevant shape of `Keyvalues.parse` / `_read_flag` (keyvalues.py) and of every
`.error(...)` call of tokenizer.py / keyvalues.py -> Gen/KvParseSites_gen.v.

The property says that nothing but KeyValError leaves `Keyvalues.parse`.  The parser is modelled at exception level in
rocq/Text/KvErrModel.v; this translator reads from the AST, on every run,

* a **census** of every expression on the parse path (`Keyvalues.parse`, `_read_flag`) that can raise an exception of
  another type: indexing with a non-slice subscript, `list.pop()`, `int()/float()/next()/.index()/.remove()`,
  `assert`, and every call of a callee that is not on the list of callees known to be total / to raise KeyValError only;
* for each such site how the source **guards** it: inside `try` with a handler for the exception, behind a non-emptiness
  test of the indexed object (earlier operand of the same `and`, or the test of an enclosing `if`), or not at all;
* the five sites the model knows (`kcfg`): the leading-'!' test of `_read_flag`, the two flag-replacement tests
  `cur_block_contents[-1]`, `root[0]` of single-block mode, `open_keyvalues[-1]` after `pop()`; sites justified by an
  invariant of the model (`cur_block = cur_block_contents[-1]` when a block is expected, `open_keyvalues.pop()`, the
  `assert` about `cur_block._value`); every other unguarded site is counted in `kv_unmodelled_unguarded` (obligation: 0);
* `FLAGS_DEFAULT` (non-literal values are read from the imported module: they depend on the platform);
* the same census for `Tokenizer._next_char/_get_token/_handle_comment/_handle_string`, and for these and for
  `Keyvalues.parse` every `raise` statement: it must raise `self.error(...)` (tokenizer; `ValueError` for non-str chunks in
  `_next_char` is by design) resp. `tokenizer.error(...)` / `KeyValError(...)` (parser);
* for every `.error(<literal>, args...)` call: the number of positional `{}` fields of the literal and the number of
  arguments (a `str.format` with too few arguments would raise IndexError instead of building the TokenSyntaxError).

Fail-closed: a shape that cannot be classified raises TranslateError."""
from __future__ import annotations

import ast
import string

from harness.common import TranslateError, src_text

# callees that cannot raise a foreign exception on the values the parser passes them
PARSE_CALLEES_OK = {
    'Keyvalues.__new__', 'isinstance', 'os.fspath', 'Tokenizer', 'tokenizer', 'tokenizer.error', 'tokenizer.expect',
    'tokenizer.push_back', '_read_flag', 'sys.intern', 'KeyValError', 'len', 'bool', 'str', 'repr', 'list', 'tuple', 'iter',
    'type', 'id', 'hasattr', 'callable', 'enumerate', 'zip', 'range', 'warnings.warn',
}
PARSE_METHODS_OK = {'casefold', 'append', 'has_children', 'join', 'is_root', 'startswith', 'endswith', 'extend', 'copy', 'lower', 'upper', 'strip'}
FLAG_CALLEES_OK = {'bool', 'FLAGS_DEFAULT.get', 'len'}
FLAG_METHODS_OK = {'casefold', 'startswith', 'lower', 'removeprefix'}
CATCH = {
    'index': {'IndexError', 'LookupError', 'Exception', 'BaseException', 'KeyError'},
    'pop': {'IndexError', 'LookupError', 'Exception', 'BaseException', 'KeyError'},
    'conv': {'ValueError', 'Exception', 'BaseException'},
    'call': {'Exception', 'BaseException'},
    'assert': {'AssertionError', 'Exception', 'BaseException'},
}
KIND_ID = {'index': 0, 'pop': 1, 'conv': 2, 'call': 3, 'assert': 4}
GUARD_ID = {'none': 0, 'try': 1, 'nonempty': 2, 'invariant': 3}


def _find_func(tree: ast.AST, name: str, cls: str | None = None) -> ast.FunctionDef:
    scope: ast.AST = tree
    if cls is not None:
        for n in ast.walk(tree):
            if isinstance(n, ast.ClassDef) and n.name == cls:
                scope = n
                break
        else:
            raise TranslateError(f'class {cls} not found')
    for n in ast.walk(scope):
        if isinstance(n, ast.FunctionDef) and n.name == name:
            return n
    raise TranslateError(f'function {name} not found')


def _parents(root: ast.AST) -> dict[int, tuple[ast.AST, str]]:
    par: dict[int, tuple[ast.AST, str]] = {}
    for n in ast.walk(root):
        for field, val in ast.iter_fields(n):
            if isinstance(val, ast.AST):
                par[id(val)] = (n, field)
            elif isinstance(val, list):
                for v in val:
                    if isinstance(v, ast.AST):
                        par[id(v)] = (n, field)
    return par


def _handler_names(h: ast.ExceptHandler) -> set[str]:
    if h.type is None:
        return {'BaseException'}
    ts = h.type.elts if isinstance(h.type, ast.Tuple) else [h.type]
    return {ast.unparse(t).split('.')[-1] for t in ts}


def _truthy_of(test: ast.expr, base: str, plain_ok: bool) -> bool:
    """Is `test` a non-emptiness test of the object whose text is `base`?"""
    t = ast.unparse(test)
    forms = {f'{base}._value', f'len({base})', f'len({base}._value)', f'len({base}) > 0', f'len({base}) != 0',
             f'len({base}) >= 1', f'len({base}._value) > 0', f'{base} != []', f"{base} != ''"}
    if plain_ok:
        forms.add(base)
    return t in forms


def _and_operands(test: ast.expr) -> list[ast.expr]:
    if isinstance(test, ast.BoolOp) and isinstance(test.op, ast.And):
        out: list[ast.expr] = []
        for v in test.values:
            out += _and_operands(v)
        return out
    return [test]


def _resolver(tree: ast.Module, cls: str | None):
    """callee text -> FunctionDef for helpers defined in the same module: `self.m` / `cls.m` / `<Class>.m` for a method of
    the class `cls` (defined once, at most @staticmethod/@classmethod), a bare name for a module-level function.  A call of
    such a helper is not an unknown callee: its body is censused like the caller's (transitively)."""
    methods: dict[str, ast.FunctionDef] = {}
    funcs: dict[str, ast.FunctionDef] = {}
    dup: set[str] = set()
    for n in tree.body:
        if isinstance(n, ast.FunctionDef):
            if n.name in funcs:
                dup.add(n.name)
            funcs[n.name] = n
        if isinstance(n, ast.ClassDef) and n.name == cls:
            for m in n.body:
                if isinstance(m, ast.FunctionDef):
                    if m.name in methods:
                        dup.add('.' + m.name)
                    methods[m.name] = m

    def plain(f: ast.FunctionDef) -> bool:
        return all(isinstance(d, ast.Name) and d.id in ('staticmethod', 'classmethod') for d in f.decorator_list)

    def resolve(callee: str) -> ast.FunctionDef | None:
        head, _, name = callee.rpartition('.')
        if head in ('self', 'cls', cls) and name in methods and '.' + name not in dup and plain(methods[name]):
            return methods[name]
        if head == '' and name in funcs and name not in dup and not funcs[name].decorator_list:
            return funcs[name]
        return None
    return resolve


class _Census:
    def __init__(self, func: ast.FunctionDef, callees_ok: set[str], methods_ok: set[str], resolve=None, stack: tuple[str, ...] = ()) -> None:
        self.func = func
        self.resolve = resolve
        self.stack = stack + (func.name,)
        self.helpers: list[ast.FunctionDef] = []
        self.par = _parents(func)
        self.callees_ok, self.methods_ok = callees_ok, methods_ok
        # names whose truthiness is "non-empty": annotated str / list[...] (arguments and annotated assignments)
        self.seq_names: set[str] = set()
        for a in func.args.args + func.args.kwonlyargs:
            if a.annotation is not None and ast.unparse(a.annotation).split('[')[0] in ('str', 'list'):
                self.seq_names.add(a.arg)
        for n in ast.walk(func):
            if isinstance(n, ast.AnnAssign) and isinstance(n.target, ast.Name) and ast.unparse(n.annotation).split('[')[0] in ('str', 'list'):
                self.seq_names.add(n.target.id)
        for n in ast.walk(func):
            if isinstance(n, ast.Call) and isinstance(n.func, ast.Name) and n.func.id == 'isinstance' and len(n.args) == 2 \
                    and isinstance(n.args[0], ast.Name) and ast.unparse(n.args[1]) in ('str', 'list', '(str, list)'):
                self.seq_names.add(n.args[0].id)        # type-narrowed by an isinstance test in the same function
        self.sites: list[dict] = []

    def in_annotation(self, node: ast.AST) -> bool:
        cur: ast.AST = node
        while id(cur) in self.par:
            p, field = self.par[id(cur)]
            if field in ('annotation', 'returns'):
                return True
            cur = p
        return False

    @staticmethod
    def int_index(node: ast.AST) -> bool:
        if isinstance(node, ast.Call):
            return not node.args or all(isinstance(a, ast.Constant) and isinstance(a.value, int) for a in node.args)
        if isinstance(node, ast.Subscript):
            sl = node.slice
            if isinstance(sl, ast.UnaryOp) and isinstance(sl.op, ast.USub):
                sl = sl.operand
            return isinstance(sl, ast.Constant) and isinstance(sl.value, int)
        return False

    def guard(self, node: ast.AST, kind: str, base: str | None) -> str:
        cur: ast.AST = node
        plain_ok = base is not None and base in self.seq_names
        member = f'{ast.unparse(node.slice)} in {base}' if isinstance(node, ast.Subscript) else None   # `k in D` guards `D[k]`
        while id(cur) in self.par:
            p, field = self.par[id(cur)]
            if isinstance(p, ast.Try) and field == 'body':
                catch = CATCH[kind]
                if kind in ('index', 'pop') and self.int_index(node):
                    catch = catch - {'KeyError'}          # a literal integer index / list.pop(): IndexError, never KeyError
                for h in p.handlers:
                    if _handler_names(h) & catch:
                        return 'try'
            if base is not None and kind in ('index', 'pop'):
                if isinstance(p, ast.BoolOp) and isinstance(p.op, ast.And):
                    k = next(i for i, v in enumerate(p.values) if v is cur)
                    if any(_truthy_of(o, base, plain_ok) or ast.unparse(o) == member for v in p.values[:k] for o in _and_operands(v)):
                        return 'nonempty'
                if isinstance(p, (ast.If, ast.While)) and field == 'body' or isinstance(p, ast.IfExp) and field == 'body':
                    if any(_truthy_of(o, base, plain_ok) or ast.unparse(o) == member for o in _and_operands(p.test)):
                        return 'nonempty'
                # guard clause: an earlier statement of the same block `if not <non-emptiness test>: continue / return / raise / break`
                block = getattr(p, field, None) if isinstance(field, str) else None
                if isinstance(block, list):
                    i = next((j for j, x in enumerate(block) if x is cur), None)
                    for st in block[:i or 0]:
                        if isinstance(st, ast.If) and not st.orelse and st.body and isinstance(st.body[-1], (ast.Continue, ast.Return, ast.Raise, ast.Break)) \
                                and isinstance(st.test, ast.UnaryOp) and isinstance(st.test.op, ast.Not) \
                                and any(_truthy_of(o, base, plain_ok) or ast.unparse(o) == member for o in _and_operands(st.test.operand)):
                            return 'nonempty'
            cur = p
        return 'none'

    def run(self) -> list[dict]:
        for n in ast.walk(self.func):
            if self.in_annotation(n):
                continue
            if isinstance(n, ast.Subscript) and isinstance(n.ctx, ast.Load) and not isinstance(n.slice, ast.Slice):
                base = ast.unparse(n.value)
                self.sites.append(dict(kind='index', line=n.lineno, base=base, index=ast.unparse(n.slice), node=n,
                                       guard=self.guard(n, 'index', base)))
            elif isinstance(n, ast.Assert):
                self.sites.append(dict(kind='assert', line=n.lineno, base=ast.unparse(n.test), index='', node=n,
                                       guard=self.guard(n, 'assert', None)))
            elif isinstance(n, ast.Call):
                callee = ast.unparse(n.func)
                if isinstance(n.func, ast.Attribute) and n.func.attr == 'pop':
                    base = ast.unparse(n.func.value)
                    self.sites.append(dict(kind='pop', line=n.lineno, base=base, index=','.join(ast.unparse(a) for a in n.args),
                                           node=n, guard=self.guard(n, 'pop', base)))
                elif callee in ('int', 'float', 'next', 'ord', 'chr') or (isinstance(n.func, ast.Attribute) and n.func.attr in ('index', 'remove', 'popitem')):
                    self.sites.append(dict(kind='conv', line=n.lineno, base=callee, index='', node=n, guard=self.guard(n, 'conv', None)))
                elif callee in self.callees_ok or (isinstance(n.func, ast.Attribute) and n.func.attr in self.methods_ok):
                    pass
                elif self.resolve is not None and self.resolve(callee) is not None and self.resolve(callee).name not in self.stack:
                    # a helper of the same class / module: census its body too; a site that is unguarded inside the helper is
                    # guarded if the call itself sits in a try block that catches that kind of exception
                    h = self.resolve(callee)
                    sub = _Census(h, self.callees_ok, self.methods_ok, self.resolve, self.stack)
                    for st in sub.run():
                        if st['guard'] == 'none' and self.guard(n, st['kind'], None) == 'try':
                            st['guard'] = 'try'
                        st['via'] = callee + ('>' + st['via'] if 'via' in st else '')
                        self.sites.append(st)
                    self.helpers += [h] + sub.helpers
                else:
                    self.sites.append(dict(kind='call', line=n.lineno, base=callee, index='', node=n, guard=self.guard(n, 'call', None)))
        return self.sites


TOK_FUNCS = ['_next_char', '_get_token', '_handle_comment', '_handle_string']
TOK_CALLEES_OK = {'self._next_char', 'self.error', 'self._handle_comment', 'self._handle_string', 'isinstance', 'len', 'bool', 'str',
                  'ValueError'}     # constructing an exception object is total; what may be RAISED is the raise census
TOK_METHODS_OK = {'join', 'append', 'casefold', 'startswith', 'endswith', 'extend'}


def _raise_census(func: ast.FunctionDef, ok_calls: set[str], by_design: set[str]) -> tuple[int, int, list[int]]:
    """(raises through an allowed constructor, raises allowed by design, lines of every other raise)."""
    good = design = 0
    bad: list[int] = []
    for n in ast.walk(func):
        if isinstance(n, ast.Raise):
            if n.exc is None:
                bad.append(n.lineno)        # bare re-raise
                continue
            callee = ast.unparse(n.exc.func) if isinstance(n.exc, ast.Call) else ast.unparse(n.exc)
            if callee in ok_calls:
                good += 1
            elif callee in by_design:
                design += 1
            else:
                bad.append(n.lineno)
    return good, design, bad


def _format_fields(node: ast.expr) -> int | None:
    """Largest number of positional arguments the literal message needs for `.format(*args)`; None = not a literal."""
    if isinstance(node, ast.Constant) and isinstance(node.value, str):
        auto = 0
        need = 0
        for _lit, field, _spec, _conv in string.Formatter().parse(node.value):
            if field is None:
                continue
            head = field.split('.')[0].split('[')[0]
            if head == '':
                auto += 1
                need = max(need, auto)
            elif head.isdigit():
                need = max(need, int(head) + 1)
            else:
                return 10 ** 6          # a named field: format(*args) raises KeyError
        return need
    if isinstance(node, ast.IfExp):
        a, b = _format_fields(node.body), _format_fields(node.orelse)
        return None if a is None or b is None else max(a, b)
    if isinstance(node, ast.BinOp) and isinstance(node.op, ast.Add):
        # only constant folding of adjacent literals reaches here as Constant; an explicit '+' of literals:
        a, b = _format_fields(node.left), _format_fields(node.right)
        return None if a is None or b is None else a + b
    return None


def _error_calls(tree: ast.AST, fname: str) -> list[tuple[str, int, int, int]]:
    out = []
    for n in ast.walk(tree):
        if isinstance(n, ast.Call) and isinstance(n.func, ast.Attribute) and n.func.attr == 'error' and n.args:
            first = n.args[0]
            nargs = len(n.args) - 1
            if any(isinstance(a, ast.Starred) for a in n.args) or n.keywords:
                raise TranslateError(f'{fname}:{n.lineno}: .error() call with * or keyword arguments')
            need = _format_fields(first)
            if need is None:
                if isinstance(first, ast.JoinedStr):
                    # an f-string is formatted again only if further arguments are passed
                    need = 10 ** 6 if nargs else 0
                elif isinstance(first, ast.Name) or isinstance(first, ast.Attribute):
                    # error(token_type, token_value): the Token form (at most one value: checked by error() itself)
                    need = 0 if nargs <= 1 else 10 ** 6
                    nargs = max(nargs, 1)
                else:
                    raise TranslateError(f'{fname}:{n.lineno}: .error() message of unrecognised form `{ast.unparse(first)[:60]}`')
            # without further arguments the message is not formatted at all
            out.append((fname, n.lineno, need if nargs else 0, nargs))
    return out


def _error_type_installed(parse: ast.FunctionDef) -> tuple[bool, list[str]]:
    """Does the tokenizer that `Keyvalues.parse` iterates over have `error_type = KeyValError` on EVERY path to the loop?
    (The parser model calls every tokenizer error and every `tokenizer.error(...)` a KeyValError.)  Abstract execution of the
    statements before the first `for ... in <tokenizer>` loop with the state "installed on all paths so far": `<tok> =
    Tokenizer(..., KeyValError, ...)` (third positional argument or `error=`) installs it, `<tok> = <other>` loses it,
    `<tok or alias>.error_type = KeyValError` installs it, any other value loses it, `if` joins its two branches with `and`.
    Second component: a trace for the evidence file."""
    loop = next((n for n in parse.body if isinstance(n, (ast.For, ast.While))), None)
    if loop is None:
        raise TranslateError('Keyvalues.parse: no top-level token loop')
    # the tokenizer variable: what the `for` loop iterates over, else the name a `Tokenizer(...)` call is assigned to before the loop
    tok = loop.iter.id if isinstance(loop, ast.For) and isinstance(loop.iter, ast.Name) else None
    if tok is None:
        for st in parse.body:
            if st is loop:
                break
            for x in ast.walk(st):
                if isinstance(x, ast.Assign) and len(x.targets) == 1 and isinstance(x.targets[0], ast.Name) and isinstance(x.value, ast.Call) \
                        and isinstance(x.value.func, ast.Name) and x.value.func.id == 'Tokenizer':
                    tok = x.targets[0].id
    if tok is None:
        raise TranslateError('Keyvalues.parse: cannot tell which variable holds the tokenizer')
    trace: list[str] = []

    def is_kve(n: ast.expr) -> bool:
        return isinstance(n, ast.Name) and n.id == 'KeyValError'

    # state: (names whose object has error_type = KeyValError on all paths so far, alias groups name -> names of the same object)
    def run(stmts: list[ast.stmt], inst: set[str], same: dict[str, set[str]]) -> tuple[set[str], dict[str, set[str]]]:
        inst, same = set(inst), {k: set(v) for k, v in same.items()}
        for s in stmts:
            if s is loop:
                break
            if isinstance(s, (ast.Assign, ast.AnnAssign)) and getattr(s, 'value', None) is not None:
                tgs = s.targets if isinstance(s, ast.Assign) else [s.target]
                v = s.value
                for tg in tgs:
                    if isinstance(tg, ast.Name):
                        for g in same.values():
                            g.discard(tg.id)
                        inst.discard(tg.id)
                        same[tg.id] = {tg.id}
                        if isinstance(v, ast.Call) and isinstance(v.func, ast.Name) and v.func.id == 'Tokenizer':
                            err = v.args[2] if len(v.args) >= 3 else next((k.value for k in v.keywords if k.arg == 'error'), None)
                            if err is not None and is_kve(err) and not any(isinstance(x, ast.Starred) for x in v.args) \
                                    and not any(k.arg is None for k in v.keywords):
                                inst.add(tg.id)
                        elif isinstance(v, ast.Name):
                            grp = same.setdefault(v.id, {v.id})
                            grp.add(tg.id)
                            same[tg.id] = grp
                            if v.id in inst:
                                inst.add(tg.id)
                        if tg.id == tok:
                            trace.append(f'line {s.lineno}: {tok} = {ast.unparse(v)[:60]} -> {"installed" if tok in inst else "not installed"}')
                    elif isinstance(tg, ast.Attribute) and tg.attr == 'error_type' and isinstance(tg.value, ast.Name):
                        grp = same.setdefault(tg.value.id, {tg.value.id})
                        if is_kve(v):
                            inst |= grp
                        else:
                            inst -= grp
                        trace.append(f'line {s.lineno}: {ast.unparse(tg)} = {ast.unparse(v)[:40]}')
            elif isinstance(s, ast.If):
                (i1, s1), (i2, s2) = run(s.body, inst, same), run(s.orelse, inst, same)
                inst = i1 & i2
                same = {k: s1.get(k, {k}) & s2.get(k, {k}) for k in set(s1) | set(s2)}
            elif isinstance(s, (ast.With, ast.Try, ast.While, ast.For, ast.Delete)):
                if any(isinstance(x, ast.Name) and isinstance(x.ctx, (ast.Store, ast.Del)) and (x.id == tok or x.id in inst) for x in ast.walk(s)) \
                        or any(isinstance(x, ast.Attribute) and x.attr == 'error_type' and isinstance(x.ctx, (ast.Store, ast.Del)) for x in ast.walk(s)):
                    raise TranslateError(f'keyvalues.py:{s.lineno}: the tokenizer / its error_type is assigned inside a compound statement the census does not follow')
        return inst, same

    inst, _ = run(parse.body, set(), {})
    ok = tok in inst
    trace.append(f'at the loop (line {loop.lineno}): ' + ('installed on every path' if ok else 'NOT installed on every path'))
    return ok, trace


CHUNK_STATE = ('_char_index', '_cur_chunk', '_chunk_iter')


def _strip_doc_stmts(body: list[ast.stmt]) -> list[ast.stmt]:
    if body and isinstance(body[0], ast.Expr) and isinstance(body[0].value, ast.Constant) and isinstance(body[0].value.value, str):
        return list(body[1:])
    return list(body)


def _reader_discipline(ttree: ast.Module) -> tuple[list[int], list[int], list[int], list[str]]:
    """The premise of the chunk-independence theorem (Text/Prog.v: a reader program sees the input only through reads and a
    push-back directly after a read): outside `__init__` and `_next_char`, the methods of `Tokenizer` must not touch the
    chunk state (`_cur_chunk`, `_char_index`, `_chunk_iter`) except by the statement `self._char_index -= 1`, and between two
    such push-backs (in source order, inside one function) there must be a call of `self._next_char()`.
    Returns (lines of foreign accesses, lines of the push-backs, lines of push-backs not preceded by a read, functions seen)."""
    cls = next((n for n in ttree.body if isinstance(n, ast.ClassDef) and n.name == 'Tokenizer'), None)
    if cls is None:
        raise TranslateError('class Tokenizer not found')
    foreign: list[int] = []
    pushes: list[int] = []
    unread: list[int] = []
    funcs: list[str] = []

    def is_push(n: ast.AST) -> bool:
        return isinstance(n, ast.AugAssign) and isinstance(n.op, ast.Sub) and ast.unparse(n.target) == 'self._char_index' \
            and isinstance(n.value, ast.Constant) and type(n.value.value) is int and n.value.value == 1

    # one-statement helpers extracted from these functions: `def _unread(self): self._char_index -= 1` counts as a push-back at its
    # call sites, `def _peek(self): return self._next_char()` as a read
    helper_kind: dict[str, str] = {}
    for f in cls.body:
        if isinstance(f, ast.FunctionDef) and f.name not in ('__init__', '_next_char') and len(f.args.args) == 1 and not f.decorator_list:
            body = _strip_doc_stmts(f.body)
            if len(body) == 1 and is_push(body[0]):
                helper_kind[f.name] = 'push'
            elif len(body) == 1 and isinstance(body[0], ast.Return) and body[0].value is not None and ast.unparse(body[0].value) == 'self._next_char()':
                helper_kind[f.name] = 'read'
    for f in cls.body:
        if not isinstance(f, (ast.FunctionDef, ast.AsyncFunctionDef)) or f.name in ('__init__', '_next_char'):
            continue
        funcs.append(f.name)
        if helper_kind.get(f.name) == 'push':
            pushes.append(f.lineno)
            continue
        ok_nodes: set[int] = set()
        events: list[tuple[int, int, str]] = []           # (line, column, 'read' | 'push')
        for n in ast.walk(f):
            if isinstance(n, ast.AugAssign) and isinstance(n.op, ast.Sub) and ast.unparse(n.target) == 'self._char_index' \
                    and isinstance(n.value, ast.Constant) and type(n.value.value) is int and n.value.value == 1:
                ok_nodes.add(id(n.target))
                events.append((n.lineno, n.col_offset, 'push'))
                pushes.append(n.lineno)
            elif isinstance(n, ast.Call) and ast.unparse(n.func) == 'self._next_char':
                events.append((n.lineno, n.col_offset, 'read'))
            elif isinstance(n, ast.Call) and isinstance(n.func, ast.Attribute) and isinstance(n.func.value, ast.Name) and n.func.value.id == 'self' \
                    and n.func.attr in helper_kind and not n.args and not n.keywords:
                events.append((n.lineno, n.col_offset, helper_kind[n.func.attr]))
        for n in ast.walk(f):
            if isinstance(n, ast.Attribute) and n.attr in CHUNK_STATE and id(n) not in ok_nodes:
                foreign.append(n.lineno)
            elif isinstance(n, ast.Constant) and isinstance(n.value, str) and n.value in CHUNK_STATE:
                foreign.append(n.lineno)                  # getattr(self, '_cur_chunk') and the like
        last = 'push'                                     # a push-back before any read of the function is not preceded by a read
        for _ln, _col, ev in sorted(events):
            if ev == 'push' and last == 'push':
                unread.append(_ln)
            last = ev
    return sorted(foreign), sorted(pushes), sorted(unread), funcs


def _coq_str(s: str) -> str:
    return '[' + '; '.join(str(ord(c)) for c in s) + ']%N'


def _b(x: bool) -> str:
    return 'true' if x else 'false'


def translate() -> tuple[str, dict]:
    text = src_text('keyvalues.py')
    tree = ast.parse(text)
    parse = _find_func(tree, 'parse', 'Keyvalues')
    rflag = _find_func(tree, '_read_flag')
    if not rflag.args.args or len(rflag.args.args) != 2:
        raise TranslateError('_read_flag: unrecognised signature')
    fv = rflag.args.args[1].arg

    kv_resolve = _resolver(tree, 'Keyvalues')
    census_p = _Census(parse, PARSE_CALLEES_OK, PARSE_METHODS_OK, kv_resolve)
    sites_p = census_p.run()
    census_f = _Census(rflag, FLAG_CALLEES_OK, FLAG_METHODS_OK, kv_resolve)
    sites_f = census_f.run()
    par_p = _parents(parse)

    cfg = dict(bang_total=True, guard_replace_block=True, guard_replace_leaf=True, guard_single_root=True, close_guarded=True)
    found = dict(bang=0, replace_block=0, replace_leaf=0, single_root=0, close=0, expect_index=0, pop=0, assert_block=0)
    unmodelled: list[dict] = []

    def enclosing_if_test(node: ast.AST) -> ast.If | None:
        cur: ast.AST = node
        while id(cur) in par_p:
            p, field = par_p[id(cur)]
            if isinstance(p, ast.If) and field == 'test':
                return p
            cur = p
        return None

    for s in sites_f:
        if s['kind'] == 'index' and s['base'] == fv and s['index'] in ('0', '-1'):
            s['model'] = 'bang'
            found['bang'] += 1
            if s['guard'] == 'none':
                cfg['bang_total'] = False
        elif s['kind'] == 'index' and s['guard'] == 'try' and s['base'] == rflag.args.args[0].arg:
            s['model'] = 'flags-lookup'           # flags[flag_val] inside try/except KeyError
        elif s['guard'] == 'none':
            unmodelled.append(s)
    for s in sites_p:
        k, base, idx = s['kind'], s['base'], s['index']
        if k == 'index' and base == 'cur_block_contents' and idx == '-1':
            it = enclosing_if_test(s['node'])
            if it is not None:
                t = ast.unparse(it.test)
                which = 'replace_block' if 'has_children' in t else 'replace_leaf' if 'isinstance' in t else None
                if which is None:
                    raise TranslateError(f'keyvalues.py:{s["line"]}: cur_block_contents[-1] in a test the model does not know: `{t[:80]}`')
                s['model'] = which
                found[which] += 1
                if s['guard'] == 'none':
                    cfg['guard_' + which] = False
            else:
                p, field = par_p[id(s['node'])]
                if isinstance(p, ast.Assign) and field == 'value' and ast.unparse(p.targets[0]) == 'cur_block':
                    s['model'] = 'expect_index'
                    found['expect_index'] += 1
                    if s['guard'] == 'none':
                        s['guard'] = 'invariant'
                elif s['guard'] == 'none':
                    unmodelled.append(s)
        elif k == 'index' and base == 'open_keyvalues' and idx == '-1':
            s['model'] = 'close'
            found['close'] += 1
            if s['guard'] != 'try':
                cfg['close_guarded'] = False
        elif k == 'index' and base == 'root' and idx == '0':
            s['model'] = 'single_root'
            found['single_root'] += 1
            if s['guard'] == 'none':
                cfg['guard_single_root'] = False
        elif k == 'pop' and base == 'open_keyvalues' and idx == '':
            s['model'] = 'pop'
            found['pop'] += 1
            if s['guard'] == 'none':
                s['guard'] = 'invariant'
        elif k == 'assert' and base == 'not isinstance(cur_block._value, str)':
            s['model'] = 'assert_block'
            found['assert_block'] += 1
            if s['guard'] == 'none':
                s['guard'] = 'invariant'
        elif s['guard'] == 'none':
            unmodelled.append(s)

    # FLAGS_DEFAULT
    fd = None
    for n in tree.body:
        if isinstance(n, ast.Assign) and len(n.targets) == 1 and isinstance(n.targets[0], ast.Name) and n.targets[0].id == 'FLAGS_DEFAULT':
            fd = n.value
    if not isinstance(fd, ast.Dict):
        raise TranslateError('FLAGS_DEFAULT is not a dict literal')
    defaults: list[tuple[str, bool]] = []
    runtime: list[str] = []
    for kx, vx in zip(fd.keys, fd.values):
        if not (isinstance(kx, ast.Constant) and isinstance(kx.value, str)):
            raise TranslateError('FLAGS_DEFAULT: key is not a string literal')
        if isinstance(vx, ast.Constant) and isinstance(vx.value, bool):
            defaults.append((kx.value, vx.value))
        else:
            import srctools.keyvalues as kvmod
            defaults.append((kx.value, bool(kvmod.FLAGS_DEFAULT[kx.value])))
            runtime.append(kx.value)
    dd: dict[str, bool] = {}
    for k2, v2 in defaults:
        dd[k2] = v2

    ttree = ast.parse(src_text('tokenizer.py'))
    ecalls = _error_calls(ttree, 'tokenizer.py') + _error_calls(tree, 'keyvalues.py')

    # ---- the tokenizer's own functions: same census, plus every `raise`
    tok_sites: list[dict] = []
    tok_bad_raises: list[int] = []
    tok_raises = tok_design = 0
    tok_resolve = _resolver(ttree, 'Tokenizer')
    tok_helpers: dict[str, ast.FunctionDef] = {}
    for fn in TOK_FUNCS:
        f = _find_func(ttree, fn, 'Tokenizer')
        cen = _Census(f, TOK_CALLEES_OK, TOK_METHODS_OK, tok_resolve)
        for st in cen.run():
            st['func'] = fn
            tok_sites.append(st)
        for h in cen.helpers:
            if h.name not in TOK_FUNCS:
                tok_helpers[h.name] = h
        # non-str chunks raise ValueError by design (outside the property: the text must be str)
        g, d, bad = _raise_census(f, {'self.error'}, {'ValueError'} if fn == '_next_char' else set())
        tok_raises += g
        tok_design += d
        tok_bad_raises += bad
    for h in tok_helpers.values():            # helpers extracted from these functions: their raises count like the caller's
        g, d, bad = _raise_census(h, {'self.error'}, set())
        tok_raises += g
        tok_bad_raises += bad
    tok_unguarded = [st for st in tok_sites if st['guard'] == 'none']
    pg, _pd, parse_bad_raises = _raise_census(parse, {'tokenizer.error', 'KeyValError'}, set())
    for h in {h.name: h for h in census_p.helpers + census_f.helpers}.values():
        g, _d, bad = _raise_census(h, {'tokenizer.error', 'KeyValError'}, set())
        pg += g
        parse_bad_raises += bad

    et_ok, et_trace = _error_type_installed(parse)
    rd_foreign, rd_pushes, rd_unread, rd_funcs = _reader_discipline(ttree)

    allsites = sites_f + sites_p
    lines = [
        '(* GENERATED by translate/c03_kvparse.py from /repo/src/srctools/keyvalues.py and tokenizer.py. Do not edit. *)',
        'From Coq Require Import NArith List Bool.', 'Import ListNotations.', 'Open Scope N_scope.',
        '(* how the source guards the indexing sites the parser model knows (Text/KvErrModel.v kcfg) *)',
    ]
    for k3, v3 in cfg.items():
        lines.append(f'Definition kv_{k3} : bool := {_b(v3)}.')
    lines += [
        '(* census of every expression of Keyvalues.parse / _read_flag that can raise a foreign exception:',
        '   (line, kind, guard); kind 0 index, 1 list.pop(), 2 conversion, 3 call of an unknown callee, 4 assert;',
        '   guard 0 none, 1 try/except, 2 non-emptiness test, 3 invariant of the model *)',
        'Definition kv_site_census : list (N * N * N) := [' + '; '.join(
            f'({s["line"]}, {KIND_ID[s["kind"]]}, {GUARD_ID[s["guard"]]})' for s in allsites) + '].',
        '(* unguarded sites that the model does not know *)',
        'Definition kv_unmodelled_unguarded : list N := [' + '; '.join(str(s['line']) for s in unmodelled) + '].',
        '(* FLAGS_DEFAULT (name, value) *)',
        'Definition kv_flags_default : list (list N * bool) := [' + '; '.join(f'({_coq_str(k4)}, {_b(v4)})' for k4, v4 in dd.items()) + '].',
        '(* Tokenizer._next_char/_get_token/_handle_comment/_handle_string: the same census (line, kind, guard) ... *)',
        'Definition tok_site_census : list (N * N * N) := [' + '; '.join(
            f'({st["line"]}, {KIND_ID[st["kind"]]}, {GUARD_ID[st["guard"]]})' for st in tok_sites) + '].',
        'Definition tok_unguarded_sites : list N := [' + '; '.join(str(st['line']) for st in tok_unguarded) + '].',
        '(* ... and every `raise`: lines of those that do not raise self.error(...) (ValueError for non-str chunks in _next_char is by design) *)',
        f'Definition tok_raises_through_error : N := {tok_raises}.',
        f'Definition tok_raises_by_design : N := {tok_design}.',
        'Definition tok_foreign_raises : list N := [' + '; '.join(map(str, tok_bad_raises)) + '].',
        '(* Keyvalues.parse: lines of raise statements that raise neither tokenizer.error(...) nor KeyValError(...) *)',
        f'Definition kv_raises_typed : N := {pg}.',
        '(* the tokenizer Keyvalues.parse iterates over has error_type = KeyValError on every path to the loop *)',
        f'Definition kv_error_type_installed : bool := {_b(et_ok)}.',
        'Definition kv_foreign_raises : list N := [' + '; '.join(map(str, parse_bad_raises)) + '].',
        '(* reader discipline of class Tokenizer outside __init__/_next_char: lines that touch _cur_chunk/_char_index/_chunk_iter other than',
        '   by `self._char_index -= 1`; lines of these push-backs; push-backs with no self._next_char() since the previous one *)',
        'Definition tok_chunk_state_foreign_accesses : list N := [' + '; '.join(map(str, rd_foreign)) + '].',
        'Definition tok_pushback_sites : list N := [' + '; '.join(map(str, rd_pushes)) + '].',
        'Definition tok_pushbacks_without_read : list N := [' + '; '.join(map(str, rd_unread)) + '].',
        '(* every .error(<literal>, args...) call: (line, positional fields the literal needs, arguments passed) *)',
        'Definition error_format_calls : list (N * N * N) := [' + '; '.join(f'({ln}, {need}, {na})' for _f, ln, need, na in ecalls) + '].',
        '',
    ]
    side = dict(cfg=cfg, found=found, flags_default=dd, flags_default_from_runtime=runtime,
                census=[{k5: v5 for k5, v5 in s.items() if k5 != 'node'} for s in allsites],
                unmodelled_unguarded=[{k5: v5 for k5, v5 in s.items() if k5 != 'node'} for s in unmodelled],
                tokenizer_census=[{k5: v5 for k5, v5 in st.items() if k5 != 'node'} for st in tok_sites],
                tokenizer_unguarded=[{k5: v5 for k5, v5 in st.items() if k5 != 'node'} for st in tok_unguarded],
                tokenizer_raises=dict(through_error=tok_raises, by_design=tok_design, foreign_lines=tok_bad_raises),
                parse_raises=dict(typed=pg, foreign_lines=parse_bad_raises),
                error_type_installed=et_ok, error_type_trace=et_trace,
                reader_discipline=dict(foreign_access_lines=rd_foreign, pushback_lines=rd_pushes, pushbacks_without_read=rd_unread, functions=rd_funcs),
                error_calls=len(ecalls),
                error_calls_bad=[f'{f}:{ln} needs {need} has {na}' for f, ln, need, na in ecalls if need > na])
    return '\n'.join(lines), side


GEN = {'KvParseSites_gen': translate}
