"""C03 translator: the token-level layer `BaseTokenizer` of tokenizer.py -> Gen/BaseTokSites_gen.v.

Read from the AST, fail-closed:

* ``__call__``   must be ``if self._pushback: return self._pushback.pop(<nothing | -1 | 0>)`` then ``return self._get_token()``;
                 which END of the list is popped is emitted (``bt_pop_last``);
* ``peek``       must be ``x = self(); self._pushback.<append(x) | insert(0, x)>; return x``  (``bt_peek_last``);
* ``push_back``  its last statement must be ``self._pushback.<append((tok, value)) | insert(0, (tok, value))>``
                 (``bt_push_last``), and the value normalisation must be the ``try: value = _OPERATOR_VALS[tok]`` /
                 ``except KeyError: if value is None: raise ValueError`` form;
* ``_OPERATOR_VALS``  dict literal ``Token.X: '<text>'``;
* ``error``      the ``message is Token.X`` tests of the if/elif chain (tokens with their own message) — every other
                 member goes through ``_OPERATOR_VALS[message]``.

Whether the push-back list is a stack (LIFO), whether ``error`` covers every token and whether ``_OPERATOR_VALS`` agrees
with what the tokenizer delivers are instance obligations over the generated values, not decided here.
The helper loops (``__next__``, ``expect``, ``skipping_newlines``, ``block``) are hand-modelled (Text/BaseTok.v) and
tied by the exhaustive operation-sequence correspondence; their digests only escalate budgets."""
from __future__ import annotations

import ast

from harness.common import TranslateError, ast_digest, src_text

HAND_MODELLED = ['__next__', 'expect', 'skipping_newlines', 'block']
MODEL_DIGESTS: dict[str, str] = {'__next__': '52a345d8ee1c', 'expect': '17ec2dd1a130', 'skipping_newlines': 'a2f18ef12349', 'block': '72480e02b016'}


def _strip_doc(f: ast.FunctionDef) -> list[ast.stmt]:
    body = list(f.body)
    if body and isinstance(body[0], ast.Expr) and isinstance(body[0].value, ast.Constant) and isinstance(body[0].value.value, str):
        body = body[1:]
    return body


def _end_of_add(call: ast.expr, what: str) -> tuple[bool, ast.expr]:
    """`self._pushback.append(X)` -> (True, X); `self._pushback.insert(0, X)` -> (False, X)."""
    if isinstance(call, ast.Call) and isinstance(call.func, ast.Attribute) and ast.unparse(call.func.value) == 'self._pushback' and not call.keywords:
        if call.func.attr == 'append' and len(call.args) == 1:
            return True, call.args[0]
        if call.func.attr == 'insert' and len(call.args) == 2 and isinstance(call.args[0], ast.Constant) and call.args[0].value == 0:
            return False, call.args[1]
    raise TranslateError(f'tokenizer.py:{getattr(call, "lineno", "?")}: {what}: unrecognised push-back update `{ast.unparse(call)}`')


def translate() -> tuple[str, dict]:
    tree = ast.parse(src_text('tokenizer.py'))
    base = next((n for n in tree.body if isinstance(n, ast.ClassDef) and n.name == 'BaseTokenizer'), None)
    tokcls = next((n for n in tree.body if isinstance(n, ast.ClassDef) and n.name == 'Token'), None)
    if base is None or tokcls is None:
        raise TranslateError('class BaseTokenizer / Token not found')
    tok_vals = {s.targets[0].id: s.value.value for s in tokcls.body
                if isinstance(s, ast.Assign) and len(s.targets) == 1 and isinstance(s.targets[0], ast.Name)
                and isinstance(s.value, ast.Constant) and isinstance(s.value.value, int)}
    funcs = {f.name: f for f in base.body if isinstance(f, ast.FunctionDef) and not any(
        isinstance(d, ast.Name) and d.id == 'overload' for d in f.decorator_list)}

    def tokval(node: ast.expr, what: str) -> int:
        if isinstance(node, ast.Attribute) and isinstance(node.value, ast.Name) and node.value.id == 'Token' and node.attr in tok_vals:
            return tok_vals[node.attr]
        raise TranslateError(f'tokenizer.py:{getattr(node, "lineno", "?")}: {what}: expected Token.<member>, found `{ast.unparse(node)}`')

    # ---- __call__
    f = funcs.get('__call__')
    if f is None:
        raise TranslateError('BaseTokenizer.__call__ not found')
    b = _strip_doc(f)
    if not (len(b) == 2 and isinstance(b[0], ast.If) and ast.unparse(b[0].test) == 'self._pushback' and not b[0].orelse
            and len(b[0].body) == 1 and isinstance(b[0].body[0], ast.Return) and isinstance(b[1], ast.Return)
            and b[1].value is not None and ast.unparse(b[1].value) == 'self._get_token()'):
        raise TranslateError('BaseTokenizer.__call__: unrecognised body')
    pop = b[0].body[0].value
    if not (isinstance(pop, ast.Call) and ast.unparse(pop.func) == 'self._pushback.pop' and not pop.keywords and len(pop.args) <= 1):
        raise TranslateError(f'BaseTokenizer.__call__: unrecognised pop `{ast.unparse(pop) if pop else None}`')
    if not pop.args:
        pop_last = True
    else:
        a = pop.args[0]
        v = a.value if isinstance(a, ast.Constant) else (-a.operand.value if isinstance(a, ast.UnaryOp) and isinstance(a.op, ast.USub) and isinstance(a.operand, ast.Constant) else None)
        if v not in (0, -1):
            raise TranslateError(f'BaseTokenizer.__call__: pop index `{ast.unparse(a)}` not modelled')
        pop_last = v == -1

    # ---- peek
    f = funcs.get('peek')
    if f is None:
        raise TranslateError('BaseTokenizer.peek not found')
    b = _strip_doc(f)
    if not (len(b) == 3 and isinstance(b[0], ast.Assign) and len(b[0].targets) == 1 and isinstance(b[0].targets[0], ast.Name)
            and ast.unparse(b[0].value) == 'self()' and isinstance(b[1], ast.Expr) and isinstance(b[2], ast.Return)
            and b[2].value is not None and ast.unparse(b[2].value) == b[0].targets[0].id):
        raise TranslateError('BaseTokenizer.peek: unrecognised body')
    peek_last, arg = _end_of_add(b[1].value, 'peek')
    if ast.unparse(arg) != b[0].targets[0].id:
        raise TranslateError('BaseTokenizer.peek: pushes back something other than the token it read')

    # ---- push_back
    f = funcs.get('push_back')
    if f is None:
        raise TranslateError('BaseTokenizer.push_back not found')
    b = _strip_doc(f)
    argn = [a.arg for a in f.args.args]
    if len(argn) != 3:
        raise TranslateError('BaseTokenizer.push_back: unrecognised signature')
    _self, tk, val = argn
    if not b or not isinstance(b[-1], ast.Expr):
        raise TranslateError('BaseTokenizer.push_back: unrecognised body')
    push_last, arg = _end_of_add(b[-1].value, 'push_back')
    if ast.unparse(arg) != f'({tk}, {val})':
        raise TranslateError(f'BaseTokenizer.push_back: pushes `{ast.unparse(arg)}`')
    tries = [s for s in b[:-1] if isinstance(s, ast.Try)]
    want_try = (f'try:\n    {val} = _OPERATOR_VALS[{tk}]\nexcept KeyError:\n    if {val} is None:\n'
                f"        raise ValueError(f'Value required for {{{tk}.name!r}}!') from None")
    if len(tries) != 1 or ast.dump(ast.parse(ast.unparse(tries[0]))) != ast.dump(ast.parse(want_try)):
        raise TranslateError('BaseTokenizer.push_back: value normalisation is not the recognised `_OPERATOR_VALS[tok]` / ValueError form')
    for s in b[:-1]:
        if isinstance(s, ast.Try):
            continue
        if isinstance(s, ast.If) and ast.unparse(s.test) == f'not isinstance({tk}, Token)' and len(s.body) == 1 and isinstance(s.body[0], ast.Raise):
            continue
        raise TranslateError(f'tokenizer.py:{s.lineno}: BaseTokenizer.push_back: unrecognised statement')

    # ---- _OPERATOR_VALS
    ov = None
    for n in tree.body:
        if isinstance(n, ast.Assign) and len(n.targets) == 1 and isinstance(n.targets[0], ast.Name) and n.targets[0].id == '_OPERATOR_VALS':
            ov = n.value
    if not isinstance(ov, ast.Dict):
        raise TranslateError('_OPERATOR_VALS is not a dict literal')
    opvals: dict[int, str] = {}
    for k, v in zip(ov.keys, ov.values):
        if not (isinstance(v, ast.Constant) and isinstance(v.value, str)):
            raise TranslateError('_OPERATOR_VALS: value is not a string literal')
        opvals[tokval(k, '_OPERATOR_VALS key')] = v.value

    # ---- error(): tokens with their own message
    f = funcs.get('error')
    if f is None:
        raise TranslateError('BaseTokenizer.error not found')
    explicit: list[int] = []
    fallthrough = False
    for n in ast.walk(f):
        if isinstance(n, ast.Compare) and len(n.ops) == 1 and isinstance(n.ops[0], ast.Is) and ast.unparse(n.left) == 'message':
            explicit.append(tokval(n.comparators[0], 'error()'))
        if isinstance(n, ast.Subscript) and ast.unparse(n.value) == '_OPERATOR_VALS' and ast.unparse(n.slice) == 'message':
            fallthrough = True
    if not fallthrough:
        raise TranslateError('BaseTokenizer.error: the `_OPERATOR_VALS[message]` fall-through was not found')

    digests = {nme: ast_digest(ast.Module(body=_strip_doc(funcs[nme]), type_ignores=[])) for nme in HAND_MODELLED if nme in funcs}
    for nme in HAND_MODELLED:
        if nme not in digests:
            raise TranslateError(f'BaseTokenizer.{nme} not found')

    def b2(x: bool) -> str:
        return 'true' if x else 'false'

    def ns(xs) -> str:
        return '[' + '; '.join(str(x) for x in xs) + ']%N'
    lines = [
        '(* GENERATED by translate/c03_basetok.py from /repo/src/srctools/tokenizer.py. Do not edit. *)',
        'From Coq Require Import NArith List Bool.', 'Import ListNotations.', 'Open Scope N_scope.',
        '(* which end of self._pushback __call__ pops / push_back and peek add to (true = the end of the list) *)',
        f'Definition bt_pop_last : bool := {b2(pop_last)}.',
        f'Definition bt_push_last : bool := {b2(push_last)}.',
        f'Definition bt_peek_last : bool := {b2(peek_last)}.',
        '(* _OPERATOR_VALS: (Token value, text) *)',
        'Definition operator_vals : list (N * list N) := [' + '; '.join(f'({k}, {ns(map(ord, v))})' for k, v in opvals.items()) + '].',
        '(* Token members BaseTokenizer.error() gives their own message *)',
        f'Definition error_explicit_tokens : list N := {ns(explicit)}.',
        '',
    ]
    side = dict(pop_last=pop_last, push_last=push_last, peek_last=peek_last, operator_vals={str(k): v for k, v in opvals.items()},
                error_explicit=explicit, digests=digests)
    return '\n'.join(lines), side


GEN = {'BaseTokSites_gen': translate}
