"""C03 translator: the token-level layer `BaseTokenizer` of tokenizer.py -> Gen/BaseTokSites_gen.v.

Read from the AST, fail-closed:

* ``__call__``   must be ``if self._pushback: return self._pushback.pop(<nothing | -1 | 0>)`` then ``return self._get_token()``;
                 which END of the list is popped is emitted (``bt_pop_last``);
* ``peek``       must be ``x = self(); self._pushback.<append(x) | insert(0, x)>; return x``  (``bt_peek_last``);
* ``push_back``  its last statement must be ``self._pushback.<append((tok, value)) | insert(0, (tok, value))>``
                 (``bt_push_last``), and the value normalisation must be the ``try: value = _OPERATOR_VALS[tok]`` /
                 ``except KeyError: if value is None: raise ValueError`` form;
* ``_OPERATOR_VALS``  dict literal ``Token.X: '<text>'``;
* ``error``      the ``message is Token.X`` tests of the if/elif chain (tokens with their own message) — every other
                 member goes through ``_OPERATOR_VALS[message]``.

Whether the push-back list is a stack (LIFO), whether ``error`` covers every token and whether ``_OPERATOR_VALS`` agrees
with what the tokenizer delivers are instance obligations over the generated values, not decided here.
The helper loops (``__next__``, ``expect``, ``skipping_newlines``, ``block``) are hand-modelled (Text/BaseTok.v) and
tied by the exhaustive operation-sequence correspondence; their digests only escalate budgets."""
from __future__ import annotations

import ast

from harness.common import TranslateError, ast_digest, src_text

HAND_MODELLED = ['__next__', 'expect', 'skipping_newlines', 'block']
MODEL_DIGESTS: dict[str, str] = {'__next__': '52a345d8ee1c', 'expect': '17ec2dd1a130', 'skipping_newlines': 'a2f18ef12349', 'block': '72480e02b016'}


def _strip_doc(f: ast.FunctionDef) -> list[ast.stmt]:
    body = list(f.body)
    if body and isinstance(body[0], ast.Expr) and isinstance(body[0].value, ast.Constant) and isinstance(body[0].value.value, str):
        body = body[1:]
    return body


# ------------------------------------------------------------------------------------------------ small bodies as sets of paths
class _Path:
    """One execution path of a small method body: the branch conditions taken (normalised atom, polarity), the calls made
    for their effect in order (texts; `$k` stands for the value of the k-th one), and how it ends."""
    def __init__(self) -> None:
        self.conds: list[tuple[str, bool]] = []
        self.effects: list[str] = []
        self.env: dict[str, str] = {}
        self.end: tuple[str, str] | None = None        # ('return', text) / ('raise', exception class) / None = falls off the end

    def copy(self) -> '_Path':
        q = _Path()
        q.conds, q.effects, q.env, q.end = list(self.conds), list(self.effects), dict(self.env), self.end
        return q


def _atom(test: ast.expr, txt) -> tuple[str, bool]:
    """Normalised condition: (atom, polarity). `not X`; emptiness tests `X`, `len(X)`, `len(X) > 0`, `len(X) != 0`, `len(X) >= 1`,
    `X != []` / `len(X) == 0`, `X == []`; `X is None` / `X is not None`; `k in D` / `k not in D`."""
    if isinstance(test, ast.UnaryOp) and isinstance(test.op, ast.Not):
        a, pol = _atom(test.operand, txt)
        return a, not pol
    if isinstance(test, ast.Compare) and len(test.ops) == 1:
        op, l, r = test.ops[0], test.left, test.comparators[0]
        is_len = isinstance(l, ast.Call) and isinstance(l.func, ast.Name) and l.func.id == 'len' and len(l.args) == 1 and not l.keywords
        rv = r.value if isinstance(r, ast.Constant) else None
        if is_len and type(rv) is int:
            x = 'truthy:' + txt(l.args[0])
            if (isinstance(op, (ast.Gt, ast.NotEq)) and rv == 0) or (isinstance(op, ast.GtE) and rv == 1):
                return x, True
            if (isinstance(op, ast.Eq) and rv == 0) or (isinstance(op, ast.Lt) and rv == 1) or (isinstance(op, ast.LtE) and rv == 0):
                return x, False
        if isinstance(r, (ast.List, ast.Tuple)) and not r.elts and isinstance(op, (ast.Eq, ast.NotEq)):
            return 'truthy:' + txt(l), isinstance(op, ast.NotEq)
        if isinstance(r, ast.Constant) and r.value is None and isinstance(op, (ast.Is, ast.IsNot, ast.Eq, ast.NotEq)):
            return 'none:' + txt(l), isinstance(op, (ast.Is, ast.Eq))
        if isinstance(op, (ast.In, ast.NotIn)):
            return f'in:{txt(l)}:{txt(r)}', isinstance(op, ast.In)
    if isinstance(test, ast.Call) and isinstance(test.func, ast.Name) and test.func.id == 'len' and len(test.args) == 1:
        return 'truthy:' + txt(test.args[0]), True
    if isinstance(test, ast.Call) and isinstance(test.func, ast.Name) and test.func.id == 'bool' and len(test.args) == 1:
        return _atom(test.args[0], txt)
    return 'truthy:' + txt(test), True


class _Names(ast.NodeTransformer):
    def __init__(self, env: dict[str, str]) -> None:
        self.env = env

    def visit_Name(self, n: ast.Name) -> ast.AST:
        if isinstance(n.ctx, ast.Load) and n.id in self.env:
            return ast.parse(self.env[n.id].replace('$', '__v'), mode='eval').body
        return n


def _paths(stmts: list[ast.stmt], what: str, limit: int = 64, pure_calls: bool = False) -> list[_Path]:
    """All paths through a loop-free body of assignments to locals, expression statements (calls), if/elif/else, return, raise,
    and `try: v = D[k]` / `except KeyError: ...` (read as `if k in D: v = D[k]` / `else: ...` - the lookup is the only thing
    that can raise KeyError there).  Locals are inlined; a local bound to a call stands for that call's value (`$k`).
    With `pure_calls` the calls on right-hand sides are values without effect (string formatting) and are inlined as text.
    A pair `($k[0], $k[1])` rebuilt from an unpacked 2-tuple is `$k`.  Contradictory paths are dropped.  Anything else: TranslateError."""
    import copy as _copy
    import re as _re

    def txt(path: _Path, node: ast.expr) -> str:
        s = ast.unparse(_Names(path.env).visit(_copy.deepcopy(node))).replace('__v', '$')
        return _re.sub(r'\((\$\d+)\[0\], \1\[1\]\)', r'\1', s)

    def has_call(node: ast.expr) -> bool:
        return not pure_calls and any(isinstance(x, ast.Call) and not (isinstance(x.func, ast.Name) and x.func.id in ('len', 'isinstance', 'bool', 'repr', 'str'))
                   for x in ast.walk(node))

    def run(stmts: list[ast.stmt], live: list[_Path]) -> list[_Path]:
        for st in stmts:
            going = [q for q in live if q.end is None]
            done = [q for q in live if q.end is not None]
            if not going:
                return live
            nxt: list[_Path] = []
            if isinstance(st, (ast.Assign, ast.AnnAssign)) and (isinstance(st, ast.AnnAssign) or len(st.targets) == 1) and st.value is not None:
                tg = st.target if isinstance(st, ast.AnnAssign) else st.targets[0]
                for q in going:
                    v = txt(q, st.value)
                    if has_call(st.value):
                        q.effects.append(v)
                        v = f'${len(q.effects) - 1}'
                    if isinstance(tg, ast.Name):
                        q.env[tg.id] = v
                    elif isinstance(tg, ast.Tuple) and all(isinstance(e, ast.Name) for e in tg.elts) and v.startswith('$'):
                        for i, e in enumerate(tg.elts):
                            q.env[e.id] = f'{v}[{i}]'
                    else:
                        raise TranslateError(f'tokenizer.py:{st.lineno}: {what}: assignment target `{ast.unparse(tg)}` not modelled')
                    nxt.append(q)
            elif isinstance(st, ast.Expr) and isinstance(st.value, ast.Call) and isinstance(st.value.func, ast.Attribute) \
                    and st.value.func.attr == 'append' and isinstance(st.value.func.value, ast.Name) and len(st.value.args) == 1 \
                    and all(st.value.func.value.id in q.env and q.env[st.value.func.value.id].startswith('[') for q in going):
                # a local list built piece by piece: `parts = [a]; parts.append(b)` is `parts = [a, b]`
                for q in going:
                    cur = ast.parse(q.env[st.value.func.value.id].replace('$', '__v'), mode='eval').body
                    if not isinstance(cur, ast.List):
                        raise TranslateError(f'tokenizer.py:{st.lineno}: {what}: append to a local that is not a list literal')
                    cur.elts.append(ast.parse(txt(q, st.value.args[0]).replace('$', '__v'), mode='eval').body)
                    q.env[st.value.func.value.id] = ast.unparse(cur).replace('__v', '$')
                    nxt.append(q)
            elif isinstance(st, ast.Expr) and isinstance(st.value, ast.Call):
                for q in going:
                    q.effects.append(txt(q, st.value))
                    nxt.append(q)
            elif isinstance(st, ast.Expr) and isinstance(st.value, ast.Constant):
                nxt = going
            elif isinstance(st, ast.Pass):
                nxt = going
            elif isinstance(st, ast.Return):
                for q in going:
                    r = txt(q, st.value) if st.value is not None else 'None'
                    if st.value is not None and has_call(st.value):
                        pass                      # the returned call is the path's last action
                    elif r == f'${len(q.effects) - 1}' and f'${len(q.effects) - 1}' not in ' '.join(q.effects):
                        r = q.effects.pop()       # `x = f(); return x` is `return f()`
                    q.end = ('return', r)
                    nxt.append(q)
            elif isinstance(st, ast.Raise) and st.exc is not None:
                for q in going:
                    exc = st.exc.func if isinstance(st.exc, ast.Call) else st.exc
                    q.end = ('raise', ast.unparse(exc))
                    nxt.append(q)
            elif isinstance(st, ast.If) and isinstance(st.test, ast.BoolOp):
                # `if A and B: X else: Y` = `if A: (if B: X else: Y) else: Y`;  `if A or B: X else: Y` = `if A: X else: (if B: X else: Y)`
                first, rest = st.test.values[0], st.test.values[1:]
                rest_t = rest[0] if len(rest) == 1 else ast.BoolOp(op=st.test.op, values=rest)
                inner = ast.copy_location(ast.If(test=rest_t, body=st.body, orelse=st.orelse), st)
                outer = ast.If(test=first, body=[inner], orelse=st.orelse) if isinstance(st.test.op, ast.And) else ast.If(test=first, body=st.body, orelse=[inner])
                nxt = run([ast.copy_location(outer, st)], going)
            elif isinstance(st, ast.If):
                for q in going:
                    a, pol = _atom(st.test, lambda n, q=q: txt(q, n))
                    for branch, bp in ((st.body, pol), (st.orelse, not pol)):
                        if (a, not bp) in q.conds:
                            continue              # contradicts an earlier test on this path
                        q2 = q.copy()
                        if (a, bp) not in q2.conds:
                            q2.conds.append((a, bp))
                        nxt += run(branch, [q2])
            elif isinstance(st, ast.Try) and len(st.body) == 1 and isinstance(st.body[0], ast.Assign) and not st.orelse and not st.finalbody \
                    and len(st.handlers) == 1 and st.handlers[0].type is not None and ast.unparse(st.handlers[0].type) == 'KeyError' \
                    and st.handlers[0].name is None and isinstance(st.body[0].value, ast.Subscript) and isinstance(st.body[0].value.value, ast.Name):
                sub = st.body[0].value
                test = ast.Compare(left=sub.slice, ops=[ast.In()], comparators=[sub.value])
                nxt = run([ast.copy_location(ast.If(test=test, body=st.body, orelse=st.handlers[0].body), st)], going)
            else:
                raise TranslateError(f'tokenizer.py:{st.lineno}: {what}: statement `{ast.unparse(st).splitlines()[0]}` not modelled')
            live = done + nxt
            if len(live) > limit:
                raise TranslateError(f'{what}: too many paths')
        return live
    return run(stmts, [_Path()])


def _end_of_add_txt(call: str, what: str) -> tuple[bool, str]:
    """`self._pushback.append(X)` -> (True, X); `self._pushback.insert(0, X)` -> (False, X); also `+= [X]` is not accepted."""
    node = ast.parse(call.replace('$', '__v'), mode='eval').body
    last, arg = _end_of_add(node, what)
    return last, ast.unparse(arg).replace('__v', '$')


def _end_of_add(call: ast.expr, what: str) -> tuple[bool, ast.expr]:
    """`self._pushback.append(X)` -> (True, X); `self._pushback.insert(0, X)` -> (False, X)."""
    if isinstance(call, ast.Call) and isinstance(call.func, ast.Attribute) and ast.unparse(call.func.value) == 'self._pushback' and not call.keywords:
        if call.func.attr == 'append' and len(call.args) == 1:
            return True, call.args[0]
        if call.func.attr == 'insert' and len(call.args) == 2 and isinstance(call.args[0], ast.Constant) and call.args[0].value == 0:
            return False, call.args[1]
    raise TranslateError(f'tokenizer.py:{getattr(call, "lineno", "?")}: {what}: unrecognised push-back update `{ast.unparse(call)}`')


def translate() -> tuple[str, dict]:
    tree = ast.parse(src_text('tokenizer.py'))
    base = next((n for n in tree.body if isinstance(n, ast.ClassDef) and n.name == 'BaseTokenizer'), None)
    tokcls = next((n for n in tree.body if isinstance(n, ast.ClassDef) and n.name == 'Token'), None)
    if base is None or tokcls is None:
        raise TranslateError('class BaseTokenizer / Token not found')
    tok_vals = {s.targets[0].id: s.value.value for s in tokcls.body
                if isinstance(s, ast.Assign) and len(s.targets) == 1 and isinstance(s.targets[0], ast.Name)
                and isinstance(s.value, ast.Constant) and isinstance(s.value.value, int)}
    funcs = {f.name: f for f in base.body if isinstance(f, ast.FunctionDef) and not any(
        isinstance(d, ast.Name) and d.id == 'overload' for d in f.decorator_list)}

    def tokval(node: ast.expr, what: str) -> int:
        if isinstance(node, ast.Attribute) and isinstance(node.value, ast.Name) and node.value.id == 'Token' and node.attr in tok_vals:
            return tok_vals[node.attr]
        raise TranslateError(f'tokenizer.py:{getattr(node, "lineno", "?")}: {what}: expected Token.<member>, found `{ast.unparse(node)}`')

    # ---- __call__
    f = funcs.get('__call__')
    if f is None:
        raise TranslateError('BaseTokenizer.__call__ not found')
    ps = _paths(_strip_doc(f), 'BaseTokenizer.__call__')
    have = [q for q in ps if ('truthy:self._pushback', True) in q.conds]
    empty = [q for q in ps if ('truthy:self._pushback', False) in q.conds]
    if len(ps) != 2 or len(have) != 1 or len(empty) != 1 or any(len(q.conds) != 1 or q.effects or q.end is None or q.end[0] != 'return' for q in ps) \
            or empty[0].end[1] != 'self._get_token()':
        raise TranslateError('BaseTokenizer.__call__: not "a pushed-back token if there is one, else self._get_token()": paths '
                             + '; '.join(f'{q.conds} {q.effects} {q.end}' for q in ps))
    pop = ast.parse(have[0].end[1], mode='eval').body
    if not (isinstance(pop, ast.Call) and ast.unparse(pop.func) == 'self._pushback.pop' and not pop.keywords and len(pop.args) <= 1):
        raise TranslateError(f'BaseTokenizer.__call__: unrecognised pop `{ast.unparse(pop) if pop else None}`')
    if not pop.args:
        pop_last = True
    else:
        a = pop.args[0]
        v = a.value if isinstance(a, ast.Constant) else (-a.operand.value if isinstance(a, ast.UnaryOp) and isinstance(a.op, ast.USub) and isinstance(a.operand, ast.Constant) else None)
        if v not in (0, -1):
            raise TranslateError(f'BaseTokenizer.__call__: pop index `{ast.unparse(a)}` not modelled')
        pop_last = v == -1

    # ---- peek
    f = funcs.get('peek')
    if f is None:
        raise TranslateError('BaseTokenizer.peek not found')
    ps = _paths(_strip_doc(f), 'BaseTokenizer.peek')
    if len(ps) != 1 or ps[0].conds or len(ps[0].effects) != 2 or ps[0].effects[0] != 'self()' or ps[0].end != ('return', '$0'):
        raise TranslateError('BaseTokenizer.peek: not "read a token with self(), put it back, return it": paths '
                             + '; '.join(f'{q.conds} {q.effects} {q.end}' for q in ps))
    peek_last, arg = _end_of_add_txt(ps[0].effects[1], 'peek')
    if arg != '$0':
        raise TranslateError('BaseTokenizer.peek: pushes back something other than the token it read')

    # ---- push_back
    f = funcs.get('push_back')
    if f is None:
        raise TranslateError('BaseTokenizer.push_back not found')
    argn = [a.arg for a in f.args.args]
    if len(argn) != 3:
        raise TranslateError('BaseTokenizer.push_back: unrecognised signature')
    _self, tk, val = argn
    ps = _paths(_strip_doc(f), 'BaseTokenizer.push_back')
    # a guard that rejects non-Token arguments by raising is outside the model (the model only pushes tokens)
    ps = [q for q in ps if not ((f'truthy:isinstance({tk}, Token)', False) in q.conds and q.end is not None and q.end[0] == 'raise')]
    for q in ps:
        q.conds = [c for c in q.conds if c != (f'truthy:isinstance({tk}, Token)', True)]
    known, other = (f'in:{tk}:_OPERATOR_VALS', True), (f'in:{tk}:_OPERATOR_VALS', False)
    p_op = [q for q in ps if q.conds == [known]]
    p_none = [q for q in ps if sorted(q.conds) == sorted([other, (f'none:{val}', True)])]
    p_val = [q for q in ps if sorted(q.conds) == sorted([other, (f'none:{val}', False)])]
    desc = '; '.join(f'{q.conds} {q.effects} {q.end}' for q in ps)
    if len(ps) != 3 or len(p_op) != 1 or len(p_none) != 1 or len(p_val) != 1:
        raise TranslateError('BaseTokenizer.push_back: value normalisation is not "the _OPERATOR_VALS entry if the token has one, else the value '
                             'given, which must not be None": paths ' + desc)
    if p_none[0].end != ('raise', 'ValueError') or p_none[0].effects:
        raise TranslateError('BaseTokenizer.push_back: a value token without a value must raise ValueError and push nothing: ' + desc)
    ends = []
    for q, want in ((p_op[0], f'({tk}, _OPERATOR_VALS[{tk}])'), (p_val[0], f'({tk}, {val})')):
        if len(q.effects) != 1 or q.end not in (None, ('return', 'None')):
            raise TranslateError('BaseTokenizer.push_back: each accepting path must do exactly one push-back update: ' + desc)
        last, arg = _end_of_add_txt(q.effects[0], 'push_back')
        if arg != want:
            raise TranslateError(f'BaseTokenizer.push_back: pushes `{arg}`, expected `{want}`')
        ends.append(last)
    if ends[0] != ends[1]:
        raise TranslateError('BaseTokenizer.push_back: operator tokens and value tokens are pushed at different ends')
    push_last = ends[0]

    # ---- _OPERATOR_VALS
    ov = None
    for n in tree.body:
        if isinstance(n, ast.Assign) and len(n.targets) == 1 and isinstance(n.targets[0], ast.Name) and n.targets[0].id == '_OPERATOR_VALS':
            ov = n.value
    if not isinstance(ov, ast.Dict):
        raise TranslateError('_OPERATOR_VALS is not a dict literal')
    opvals: dict[int, str] = {}
    for k, v in zip(ov.keys, ov.values):
        if not (isinstance(v, ast.Constant) and isinstance(v.value, str)):
            raise TranslateError('_OPERATOR_VALS: value is not a string literal')
        opvals[tokval(k, '_OPERATOR_VALS key')] = v.value

    # ---- error(): tokens with their own message
    f = funcs.get('error')
    if f is None:
        raise TranslateError('BaseTokenizer.error not found')
    explicit: list[int] = []
    fallthrough = False
    for n in ast.walk(f):
        if isinstance(n, ast.Compare) and len(n.ops) == 1 and isinstance(n.ops[0], (ast.Is, ast.Eq)) and ast.unparse(n.left) == 'message':
            explicit.append(tokval(n.comparators[0], 'error()'))
        if isinstance(n, ast.Subscript) and ast.unparse(n.value) == '_OPERATOR_VALS' and ast.unparse(n.slice) == 'message':
            fallthrough = True
    if not fallthrough:
        raise TranslateError('BaseTokenizer.error: the `_OPERATOR_VALS[message]` fall-through was not found')

    digests = {nme: ast_digest(ast.Module(body=_strip_doc(funcs[nme]), type_ignores=[])) for nme in HAND_MODELLED if nme in funcs}
    for nme in HAND_MODELLED:
        if nme not in digests:
            raise TranslateError(f'BaseTokenizer.{nme} not found')

    def b2(x: bool) -> str:
        return 'true' if x else 'false'

    def ns(xs) -> str:
        return '[' + '; '.join(str(x) for x in xs) + ']%N'
    lines = [
        '(* GENERATED by translate/c03_basetok.py from /repo/src/srctools/tokenizer.py. Do not edit. *)',
        'From Coq Require Import NArith List Bool.', 'Import ListNotations.', 'Open Scope N_scope.',
        '(* which end of self._pushback __call__ pops / push_back and peek add to (true = the end of the list) *)',
        f'Definition bt_pop_last : bool := {b2(pop_last)}.',
        f'Definition bt_push_last : bool := {b2(push_last)}.',
        f'Definition bt_peek_last : bool := {b2(peek_last)}.',
        '(* _OPERATOR_VALS: (Token value, text) *)',
        'Definition operator_vals : list (N * list N) := [' + '; '.join(f'({k}, {ns(map(ord, v))})' for k, v in opvals.items()) + '].',
        '(* Token members BaseTokenizer.error() gives their own message *)',
        f'Definition error_explicit_tokens : list N := {ns(explicit)}.',
        '',
    ]
    side = dict(pop_last=pop_last, push_last=push_last, peek_last=peek_last, operator_vals={str(k): v for k, v in opvals.items()},
                error_explicit=explicit, digests=digests)
    return '\n'.join(lines), side


GEN = {'BaseTokSites_gen': translate}
