"""C07 translator: VMF.add_ent and VMF.remove_ent as written  ->  Gen/IndexListOps_gen.v
(types and semantics: rocq/SM/IndexListOps.v; theorems: rocq/SM/IndexListOpsProofs.v).

Each function becomes a little program [vprog] over the entity list and the two indexes:
  self.entities.append(item)                                         VAppend
  try: self.entities.remove(item) / except ValueError: pass          VRemoveFirst
      (also `if item in self.entities: self.entities.remove(item)`)
  _remove_copyset(self.by_class, <classname key of item>, item)      VRemClass      (by_target: VRemTarget)
  self.by_class[<classname key of item>].add(item)                   VAddClass      (by_target: VAddTarget)
  if <test>: ... [else: ...] / early `return`                        VIf, continuation-passing
where <classname key> is item['classname'(, '')].casefold() or item.get('classname'(, '')).casefold(), the by_target key
additionally `or None`, and <test> is built from `item is self.spawn`, `item in self.entities`, not/and/or.  Key and
test locals are inlined; a test local that mentions the entity list may only be used while the list has not been
mutated since it was bound (otherwise: fail closed).  Conditions are evaluated where they stand: the Coq semantics
runs them on the current state.

Fail-closed: any other statement that touches the entity list, the indexes, the worldspawn, raises or returns a value.
"""
from __future__ import annotations

import ast

from harness.common import SRC, TranslateError
from translate.c07_index_shapes import _MaintTr, _coq_str, _find, _strip_doc, _is_self

INDEXES = ('by_class', 'by_target')


def _self_attr(e: ast.AST, attr: str) -> bool:
    return isinstance(e, ast.Attribute) and e.attr == attr and _is_self(e.value)


class _VTr:
    def __init__(self, where: str, item: str, body: list[ast.stmt]) -> None:
        self.where = where
        self.item = item
        self.keys: dict[str, str] = {}                    # local -> 'c' | 't'
        self.conds: dict[str, tuple[str, int, bool]] = {}   # local -> (coq, line bound, mentions the list)
        # lines of the statements that mutate the entity list
        self.mut_lines = sorted(n.lineno for st in body for n in ast.walk(st)
                                if isinstance(n, ast.Call) and isinstance(n.func, ast.Attribute)
                                and _self_attr(n.func.value, 'entities'))

    def is_item(self, e: ast.AST) -> bool:
        return isinstance(e, ast.Name) and e.id == self.item

    # -- keys
    def _item_value(self, e: ast.expr, want: str) -> bool:
        k = None
        if isinstance(e, ast.Subscript) and self.is_item(e.value):
            k = e.slice
            if isinstance(k, ast.Tuple) and len(k.elts) == 2 and isinstance(k.elts[1], ast.Constant) and k.elts[1].value == '':
                k = k.elts[0]
        elif isinstance(e, ast.Call) and isinstance(e.func, ast.Attribute) and e.func.attr == 'get' and self.is_item(e.func.value) \
                and not e.keywords and 1 <= len(e.args) <= 2 and (len(e.args) == 1 or (isinstance(e.args[1], ast.Constant) and e.args[1].value == '')):
            k = e.args[0]
        return isinstance(k, ast.Constant) and k.value == want

    def key_kind(self, e: ast.expr) -> str | None:
        """'c': the folded classname of the item; 't': the folded targetname of the item `or None`."""
        if isinstance(e, ast.Name) and e.id in self.keys:
            return self.keys[e.id]
        target = False
        if isinstance(e, ast.BoolOp) and isinstance(e.op, ast.Or) and len(e.values) == 2 \
                and isinstance(e.values[1], ast.Constant) and e.values[1].value is None:
            e, target = e.values[0], True
        if isinstance(e, ast.Call) and isinstance(e.func, ast.Attribute) and e.func.attr == 'casefold' and not e.args and not e.keywords:
            if target and self._item_value(e.func.value, 'targetname'):
                return 't'
            if not target and self._item_value(e.func.value, 'classname'):
                return 'c'
        return None

    # -- conditions
    def cond(self, e: ast.expr, w: str, line: int) -> tuple[str, bool]:
        """(coq, mentions the entity list)"""
        if isinstance(e, ast.Name) and e.id in self.conds:
            c, bound, lst = self.conds[e.id]
            if lst and any(bound < m < line or m == bound for m in self.mut_lines):
                raise TranslateError(f'{w}: the test held in {e.id} was evaluated before the entity list changed')
            return c, lst
        if isinstance(e, ast.UnaryOp) and isinstance(e.op, ast.Not):
            c, lst = self.cond(e.operand, w, line)
            return f'(VCNot {c})', lst
        if isinstance(e, ast.BoolOp):
            parts = [self.cond(x, w, line) for x in e.values]
            acc = parts[-1][0]
            for x, _ in reversed(parts[:-1]):
                acc = f'({"VCOr" if isinstance(e.op, ast.Or) else "VCAnd"} {x} {acc})'
            return acc, any(p[1] for p in parts)
        if isinstance(e, ast.Compare) and len(e.ops) == 1:
            op, a, b = e.ops[0], e.left, e.comparators[0]
            if isinstance(op, (ast.Is, ast.IsNot)) and ((self.is_item(a) and _self_attr(b, 'spawn')) or (self.is_item(b) and _self_attr(a, 'spawn'))):
                return ('VCIsSpawn' if isinstance(op, ast.Is) else '(VCNot VCIsSpawn)'), False
            if isinstance(op, (ast.In, ast.NotIn)) and self.is_item(a) and _self_attr(b, 'entities'):
                return ('VCInEnts' if isinstance(op, ast.In) else '(VCNot VCInEnts)'), True
        if isinstance(e, ast.Attribute) and self.is_item(e.value) and e.attr.isascii():
            # round 5: a flag kept on the entity object: state the model does not have -> [VCCached], decided by no fact
            return f'(VCCached {_coq_str(e.attr)})', False
        raise TranslateError(f'{w}: unrecognised condition {ast.unparse(e)}')

    # -- statements
    @staticmethod
    def _seq(a: str, b: str) -> str:
        if a == 'VSkip':
            return b
        if b == 'VSkip':
            return a
        return f'(VSeq {a} {b})'

    def _list_remove(self, st: ast.stmt) -> bool:
        return (isinstance(st, ast.Expr) and isinstance(st.value, ast.Call) and isinstance(st.value.func, ast.Attribute)
                and st.value.func.attr == 'remove' and _self_attr(st.value.func.value, 'entities')
                and len(st.value.args) == 1 and not st.value.keywords and self.is_item(st.value.args[0]))

    def block(self, stmts: list[ast.stmt], k: str) -> str:
        if not stmts:
            return k
        st, rest = stmts[0], stmts[1:]
        w = f'{self.where}:{st.lineno}'
        if isinstance(st, ast.Pass) or (isinstance(st, ast.Expr) and isinstance(st.value, ast.Constant)):
            return self.block(rest, k)
        if isinstance(st, ast.Return):
            if st.value is not None and not (isinstance(st.value, ast.Constant) and st.value.value is None):
                raise TranslateError(f'{w}: returns a value')
            return 'VSkip'
        if isinstance(st, ast.Try):
            ok = (len(st.body) == 1 and self._list_remove(st.body[0]) and not st.orelse and not st.finalbody and len(st.handlers) == 1
                  and isinstance(st.handlers[0].type, ast.Name) and st.handlers[0].type.id == 'ValueError'
                  and all(isinstance(x, ast.Pass) for x in st.handlers[0].body))
            if not ok:
                raise TranslateError(f'{w}: unrecognised try statement')
            return self._seq('(VAct VRemoveFirst)', self.block(rest, k))
        if isinstance(st, ast.If):
            # `if item in self.entities: self.entities.remove(item)` is the list removal that tolerates absence
            t = st.test
            if not st.orelse and len(st.body) == 1 and self._list_remove(st.body[0]) and isinstance(t, ast.Compare) and len(t.ops) == 1 \
                    and isinstance(t.ops[0], ast.In) and self.is_item(t.left) and _self_attr(t.comparators[0], 'entities'):
                return self._seq('(VAct VRemoveFirst)', self.block(rest, k))
            c, _ = self.cond(t, w, st.lineno)
            cont = self.block(rest, k)
            saved = (dict(self.keys), dict(self.conds))
            yes = self.block(st.body, cont)
            self.keys, self.conds = dict(saved[0]), dict(saved[1])
            no = self.block(st.orelse, cont)
            self.keys, self.conds = saved
            return f'(VIf {c} {yes} {no})'
        act: str | None = None
        if isinstance(st, ast.Expr) and isinstance(st.value, ast.Call):
            call = st.value
            f = call.func
            if isinstance(f, ast.Attribute) and f.attr == 'append' and _self_attr(f.value, 'entities'):
                if len(call.args) != 1 or call.keywords or not self.is_item(call.args[0]):
                    raise TranslateError(f'{w}: something else than the item is appended to the entity list')
                act = 'VAppend'
            elif isinstance(f, ast.Name) and f.id == '_remove_copyset':
                if len(call.args) != 3 or call.keywords or not self.is_item(call.args[2]):
                    raise TranslateError(f'{w}: unrecognised _remove_copyset call')
                for ix in INDEXES:
                    if _self_attr(call.args[0], ix):
                        kind = self.key_kind(call.args[1])
                        if kind != ('c' if ix == 'by_class' else 't'):
                            raise TranslateError(f'{w}: the {ix} key is not the folded {"classname" if ix == "by_class" else "targetname (or None)"} of the item: {ast.unparse(call.args[1])}')
                        act = 'VRemClass' if ix == 'by_class' else 'VRemTarget'
                if act is None:
                    raise TranslateError(f'{w}: _remove_copyset on something that is not self.by_class / self.by_target')
            elif isinstance(f, ast.Attribute) and f.attr == 'add' and isinstance(f.value, ast.Subscript) \
                    and any(_self_attr(f.value.value, ix) for ix in INDEXES):
                ix = 'by_class' if _self_attr(f.value.value, 'by_class') else 'by_target'
                if len(call.args) != 1 or call.keywords or not self.is_item(call.args[0]):
                    raise TranslateError(f'{w}: an index addition that does not add the item')
                kind = self.key_kind(f.value.slice)
                if kind != ('c' if ix == 'by_class' else 't'):
                    raise TranslateError(f'{w}: the {ix} key is not the folded {"classname" if ix == "by_class" else "targetname (or None)"} of the item: {ast.unparse(f.value.slice)}')
                act = 'VAddClass' if ix == 'by_class' else 'VAddTarget'
        if act is not None:
            return self._seq(f'(VAct {act})', self.block(rest, k))
        if isinstance(st, ast.AnnAssign) and st.value is not None:
            st = ast.Assign(targets=[st.target], value=st.value, lineno=st.lineno)
        if isinstance(st, ast.Assign) and len(st.targets) == 1 and isinstance(st.targets[0], ast.Name) and st.targets[0].id != self.item:
            name = st.targets[0].id
            if name in self.keys or name in self.conds:
                raise TranslateError(f'{w}: local {name} is assigned twice')
            kind = self.key_kind(st.value)
            if kind is not None:
                self.keys[name] = kind
                return self.block(rest, k)
            try:
                c, lst = self.cond(st.value, w, st.lineno)
            except TranslateError:
                c = None
            if c is not None:
                self.conds[name] = (c, st.lineno, lst)
                return self.block(rest, k)
        if _MaintTr._irrelevant(st):
            return self.block(rest, k)
        raise TranslateError(f'{w}: unrecognised statement {ast.unparse(st)[:80]}')


def _method(tree: ast.Module, name: str) -> tuple[str, str]:
    fn = _find(tree, 'VMF', name)
    where = f'VMF.{name}'
    params = [a.arg for a in fn.args.args]
    if len(params) != 2 or params[0] != 'self' or fn.args.vararg or fn.args.kwarg or fn.args.kwonlyargs:
        raise TranslateError(f'{where}: unexpected parameters {params}')
    body = _strip_doc(fn.body)
    for st in body:
        for n in ast.walk(st):
            if isinstance(n, (ast.For, ast.While, ast.AsyncFor, ast.With, ast.Lambda, ast.ListComp, ast.GeneratorExp, ast.NamedExpr)):
                raise TranslateError(f'{where}:{n.lineno}: loops / comprehensions / with are not expected here')
            if isinstance(n, ast.Name) and isinstance(n.ctx, ast.Store) and n.id == params[1]:
                raise TranslateError(f'{where}:{n.lineno}: the item parameter is re-assigned')
    tr = _VTr(where, params[1], body)
    return tr.block(list(body), 'VSkip'), where


def translate() -> tuple[str, dict]:
    path = SRC / 'vmf.py'
    try:
        tree = ast.parse(path.read_text(encoding='utf8'))
    except SyntaxError as e:
        raise TranslateError(f'vmf.py: {e}') from None
    add, _ = _method(tree, 'add_ent')
    rem, _ = _method(tree, 'remove_ent')
    text = ('(* GENERATED by translate/c07_index_listops.py from /repo/src/srctools/vmf.py. Do not edit. *)\n'
            'From SV Require Import SM.IndexModel SM.IndexListOps.\n\n'
            f'Definition gen_add_ent : vprog :=\n  {add}.\nDefinition gen_remove_ent : vprog :=\n  {rem}.\n')
    return text, {'add_ent': add, 'remove_ent': rem}


GEN = {'IndexListOps_gen': translate}
