"""C11 translator, fifth part: helper PROPERTIES whose value is handed to a pack call.

A pack argument such as `prop.flags.value_sec` hides an expression (`self.value >> 8`) in a `@property` of another
class.  A mask inside it narrows the value before struct can reject it -- legitimate only when the bits cut off travel
in another field (StaticPropFlags: `value & 0xFF` in the flags byte, `value >> 8` in the secondary field).  For every
byte-producing call of a lump writer this module resolves the attribute chains of the arguments (types from annotations,
translate/c11_dedup.Typer); where the last attribute is a property of a class of bsp.py whose body computes (contains an
operator), the body is translated to a part `(shift, optional mask)` of `self.value`.  Properties that only forward an
attribute (`return self._a`) are transparent.  On the reading side the shifts with which the reader ORs the stored
fields together before calling the class are collected.  Fmt/BspFlagSplit.v: `split_ok parts reader_shifts`.

Fail-closed: a computing property that is not of the form `self.value [>> k] [& m]`, a receiver whose type cannot be
determined while some class has a computing property of that name, a reader statement that is not understood.
"""
from __future__ import annotations

import ast
from typing import Any

from harness.common import TranslateError
from translate import c11_dedup as D


def _computes(e: ast.AST) -> bool:
    return any(isinstance(n, (ast.BinOp, ast.UnaryOp, ast.Call, ast.Compare, ast.BoolOp, ast.IfExp)) for n in ast.walk(e))


def properties(tree: ast.Module) -> dict[tuple[str, str], ast.AST | None]:
    """(class, property) -> returned expression (None when the body is not a single return)."""
    out: dict[tuple[str, str], ast.AST | None] = {}
    for c in tree.body:
        if not isinstance(c, ast.ClassDef):
            continue
        for f in c.body:
            if isinstance(f, ast.FunctionDef) and any(ast.unparse(d) in ('property', 'builtins.property') for d in f.decorator_list):
                body = [s for s in f.body if not (isinstance(s, ast.Expr) and isinstance(s.value, ast.Constant))]
                out[(c.name, f.name)] = _straight_line(body)
    return out


def _straight_line(body: list[ast.stmt]) -> ast.AST | None:
    """`x = e1; y = e2(x); return e3(x, y)` -> e3 with the locals inlined; None for any other shape."""
    env: dict[str, ast.AST] = {}

    class Inline(ast.NodeTransformer):
        def visit_Name(self, node: ast.Name) -> ast.AST:
            return env.get(node.id, node) if isinstance(node.ctx, ast.Load) else node
    for st in body[:-1]:
        if isinstance(st, ast.Assign) and len(st.targets) == 1 and isinstance(st.targets[0], ast.Name):
            env[st.targets[0].id] = Inline().visit(ast.parse(ast.unparse(st.value), mode='eval').body)
        elif isinstance(st, ast.AnnAssign) and isinstance(st.target, ast.Name) and st.value is not None:
            env[st.target.id] = Inline().visit(ast.parse(ast.unparse(st.value), mode='eval').body)
        else:
            return None
    if not body or not isinstance(body[-1], ast.Return) or body[-1].value is None:
        return None
    return Inline().visit(ast.parse(ast.unparse(body[-1].value), mode='eval').body)


def int_lit(e: ast.AST, where: str) -> int:
    if isinstance(e, ast.Constant) and isinstance(e.value, int) and not isinstance(e.value, bool):
        return e.value
    raise TranslateError(f'{where}: integer literal expected: {ast.unparse(e)[:40]}')


def part_of(e: ast.AST, where: str) -> tuple[int, int | None]:
    """`self.value`, `self.value >> k`, `self.value & m`, `(self.value >> k) & m` -> (shift, mask)."""
    if ast.unparse(e) == 'self.value':
        return 0, None
    if isinstance(e, ast.BinOp) and isinstance(e.op, ast.RShift) and ast.unparse(e.left) == 'self.value':
        return int_lit(e.right, where), None
    if isinstance(e, ast.BinOp) and isinstance(e.op, ast.FloorDiv) and isinstance(e.right, ast.Constant):
        k = int_lit(e.right, where)
        s, m = part_of(e.left, where)
        if k > 0 and k & (k - 1) == 0 and m is None:       # x // 2^n == x >> n
            return s + k.bit_length() - 1, None
    if isinstance(e, ast.BinOp) and isinstance(e.op, ast.RShift) and isinstance(e.right, ast.Constant):
        s, m = part_of(e.left, where)
        if m is None:
            return s + int_lit(e.right, where), None
    if isinstance(e, ast.BinOp) and isinstance(e.op, ast.BitAnd):
        for a, b in ((e.left, e.right), (e.right, e.left)):
            if isinstance(b, ast.Constant):
                s, m = part_of(a, where)
                k = int_lit(b, where)
                return s, k if m is None else (m & k)
        raise TranslateError(f'{where}: mask is not an integer literal: {ast.unparse(e)[:60]}')
    if isinstance(e, ast.BinOp) and isinstance(e.op, ast.Mod) and isinstance(e.right, ast.Constant):
        k = int_lit(e.right, where)
        if k > 0 and k & (k - 1) == 0:          # x % 2^n == x & (2^n - 1) for the non-negative values of a Flag
            s, m = part_of(e.left, where)
            return s, (k - 1) if m is None else (m & (k - 1))
    raise TranslateError(f'{where}: computing property is not `self.value [>> k] [& m]`: {ast.unparse(e)[:60]}')


def value_nodes(e: ast.AST) -> list[ast.AST]:
    """The sub-expressions whose VALUE can reach the packed field (the test of `a if c else b` cannot)."""
    out: list[ast.AST] = [e]
    if isinstance(e, ast.IfExp):
        return out + value_nodes(e.body) + value_nodes(e.orelse)
    for ch in ast.iter_child_nodes(e):
        if isinstance(ch, ast.expr):
            out += value_nodes(ch)
    return out


def is_pack_call(c: ast.Call) -> bool:
    fu = ast.unparse(c.func)
    return fu in ('struct.pack', 'struct.pack_into') or (isinstance(c.func, ast.Attribute) and c.func.attr in ('pack', 'pack_into', 'to_bytes'))


def generate(tree: ast.Module) -> tuple[str, dict]:
    cls = D.Classes(tree)
    props = properties(tree)
    by_name: dict[str, list[str]] = {}
    for (c, p) in props:
        by_name.setdefault(p, []).append(c)
    bsp_cls = next((n for n in tree.body if isinstance(n, ast.ClassDef) and n.name == 'BSP'), None)
    if bsp_cls is None:
        raise TranslateError('class BSP not found')
    bsp_ann = {s.target.id: s.annotation for s in bsp_cls.body if isinstance(s, ast.AnnAssign) and isinstance(s.target, ast.Name)}
    parts: dict[str, set[tuple[int, int | None]]] = {}
    uses: list[dict[str, Any]] = []
    for fn in bsp_cls.body:
        if not isinstance(fn, ast.FunctionDef):
            continue
        typer = D.Typer(fn, bsp_ann, cls)
        for c in ast.walk(fn):
            if not (isinstance(c, ast.Call) and is_pack_call(c)):
                continue
            for a in c.args:
                for n in value_nodes(a):
                    if not (isinstance(n, ast.Attribute) and n.attr in by_name) or ast.unparse(n.value) == 'self':
                        continue
                    t = typer.type_of(n.value, frozenset())
                    where = f'{fn.name}: line {n.lineno}: {ast.unparse(n)}'
                    if t is None or t not in cls.raw:
                        if t is None and any(props[(k, n.attr)] is None or _computes(props[(k, n.attr)]) for k in by_name[n.attr]):   # type: ignore[arg-type]
                            raise TranslateError(f'{where}: receiver type unknown and a class has a computing property `{n.attr}`')
                        continue
                    owner = next((k for k in [t] + _ancestors(cls, t) if (k, n.attr) in props), None)
                    if owner is None:
                        continue        # a plain attribute of that class
                    body = props[(owner, n.attr)]
                    if body is None:
                        raise TranslateError(f'{where}: property body is not a single return')
                    if not _computes(body):
                        continue        # forwards an attribute
                    p = part_of(body, where)
                    parts.setdefault(owner, set()).add(p)
                    uses.append({'writer': fn.name, 'use': ast.unparse(n), 'class': owner, 'body': ast.unparse(body), 'part': list(p)})
    # reading side: for each class with parts, the shifts of the values ORed together before `Class(x)` is called
    rshifts: dict[str, list[int]] = {}
    for owner in parts:
        shifts: set[int] = set()
        found = False
        for fn in bsp_cls.body:
            if not (isinstance(fn, ast.FunctionDef) and 'read' in fn.name):
                continue
            for c in ast.walk(fn):
                if isinstance(c, ast.Call) and isinstance(c.func, ast.Name) and c.func.id == owner and len(c.args) == 1 and not c.keywords:
                    found = True
                    shifts |= _reader_shifts(fn, c.args[0])
        if not found:
            raise TranslateError(f'no reader constructs {owner}(...) from the stored fields')
        rshifts[owner] = sorted(shifts)

    def cpart(p: tuple[int, int | None]) -> str:
        return f'({p[0]}%N, {"None" if p[1] is None else "Some " + str(p[1]) + "%N"})'
    text = '\n'.join([
        '(* helper properties handed to pack calls: class, parts (shift, mask) of the value sorted by shift; the shifts the reader uses *)',
        'Definition helper_splits : list (string * list fpart * list N) := [' + '; '.join(
            f'({D.coq_s(o)}, [{"; ".join(cpart(p) for p in sorted(ps, key=lambda q: (q[0], -1 if q[1] is None else q[1])))}], '
            f'[{"; ".join(str(s) + "%N" for s in rshifts[o])}])' for o, ps in sorted(parts.items())) + '].'])
    bc = bool_codes(tree, cls)
    text += '\n' + '\n'.join([
        '(* booleans stored as one of two codes: class, attribute, code written for True, for False, code the reader compares with *)',
        'Definition bool_codes : list (string * string * N * N * N) := [' + '; '.join(
            f'({D.coq_s(c)}, {D.coq_s(f)}, {a}%N, {b}%N, {r}%N)' for c, f, a, b, r in bc) + '].'])
    side = {'bool_codes': [list(x) for x in bc], 'helper_property_uses': uses, 'helper_splits': {o: {'parts': sorted([list(p) for p in ps], key=str), 'reader_shifts': rshifts[o]}
                                                               for o, ps in parts.items()}}
    return text, side


def bool_codes(tree: ast.Module, cls: D.Classes) -> list[tuple[str, str, int, int, int]]:
    """Booleans stored as one of two integer codes: writer `code = A if obj.attr else B` (a local that a pack call uses),
    reader `Class(..., code_var == C, ...)` at the position of `attr`.  -> (class, attr, A, B, C)."""
    bsp_cls = next(n for n in tree.body if isinstance(n, ast.ClassDef) and n.name == 'BSP')
    writers: dict[str, list[tuple[int, int, str]]] = {}
    for fn in bsp_cls.body:
        if not (isinstance(fn, ast.FunctionDef) and 'write' in fn.name):
            continue
        for n in ast.walk(fn):
            if isinstance(n, ast.Assign) and len(n.targets) == 1 and isinstance(n.targets[0], ast.Name) and isinstance(n.value, ast.IfExp):
                v = n.value
                test, neg = v.test, False
                if isinstance(test, ast.UnaryOp) and isinstance(test.op, ast.Not):
                    test, neg = test.operand, True
                if isinstance(test, ast.Attribute) and isinstance(test.value, ast.Name) and isinstance(v.body, ast.Constant) \
                        and isinstance(v.orelse, ast.Constant) and type(v.body.value) is int and type(v.orelse.value) is int:
                    a, b = (v.orelse.value, v.body.value) if neg else (v.body.value, v.orelse.value)
                    writers.setdefault(test.attr, []).append((a, b, fn.name))
    out: list[tuple[str, str, int, int, int]] = []
    for fn in bsp_cls.body:
        if not (isinstance(fn, ast.FunctionDef) and 'read' in fn.name):
            continue
        for c in ast.walk(fn):
            if isinstance(c, ast.Call) and isinstance(c.func, ast.Name) and c.func.id in cls.raw and cls.is_attrs(c.func.id):
                fields = [f for f, _, _ in cls.fields(c.func.id)]
                named = list(zip(fields, c.args)) + [(k.arg, k.value) for k in c.keywords if k.arg]
                for f, a in named:
                    if isinstance(a, ast.Compare) and len(a.ops) == 1 and isinstance(a.ops[0], (ast.Eq, ast.NotEq)) and isinstance(a.left, ast.Name) \
                            and isinstance(a.comparators[0], ast.Constant) and type(a.comparators[0].value) is int:
                        if f not in writers:
                            raise TranslateError(f'{fn.name}: line {a.lineno}: `{f}` is read as `{ast.unparse(a)}` but no writer encodes it as a code')
                        for wa, wb, _w in writers[f]:
                            rc = a.comparators[0].value
                            # `code != C` reads the boolean inverted: the true-code is then the writer's false-code
                            out.append((c.func.id, f, wa, wb, rc) if isinstance(a.ops[0], ast.Eq) else (c.func.id, f, wb, wa, rc))
    return out


def _ancestors(cls: D.Classes, c: str) -> list[str]:
    out: list[str] = []
    for b in cls.bases(c):
        out += [b] + _ancestors(cls, b)
    return out


def _reader_shifts(fn: ast.FunctionDef, arg: ast.AST) -> set[int]:
    """Shifts under which stored values reach `arg` (a local variable, or an expression `a | b << k`)."""
    where = f'{fn.name}: flags argument'

    def of_expr(e: ast.AST) -> set[int]:
        if isinstance(e, ast.BinOp) and isinstance(e.op, ast.BitOr):
            return of_expr(e.left) | of_expr(e.right)
        if isinstance(e, ast.BinOp) and isinstance(e.op, ast.LShift):
            return {int_lit(e.right, where)}
        if isinstance(e, (ast.Name, ast.Subscript, ast.Call, ast.Attribute)):
            return {0}
        raise TranslateError(f'{where}: expression not recognised: {ast.unparse(e)[:60]}')
    if not isinstance(arg, ast.Name):
        return of_expr(arg)
    var = arg.id
    out: set[int] = set()
    for n in ast.walk(fn):
        if isinstance(n, ast.Assign):
            for t in n.targets:
                if isinstance(t, ast.Name) and t.id == var:
                    if isinstance(n.value, ast.Call) and isinstance(n.value.func, ast.Name) and n.value is not arg and \
                            any(a is arg for a in n.value.args):
                        continue        # flags = Class(flags)
                    out |= of_expr(n.value)
                elif isinstance(t, (ast.Tuple, ast.List)) and any(isinstance(el, ast.Name) and el.id == var for el in t.elts):
                    out.add(0)          # unpacked from a struct as it is
        elif isinstance(n, ast.AugAssign) and isinstance(n.target, ast.Name) and n.target.id == var:
            if not isinstance(n.op, ast.BitOr):
                raise TranslateError(f'{where}: `{ast.unparse(n)[:50]}` is not an OR')
            out |= of_expr(n.value)
    if not out:
        raise TranslateError(f'{where}: no assignment of `{var}` found')
    return out
