"""C01 translator (round 4): glue around the anchored functions -> Gen/KVAux_gen.v.

  * gen_serpaths : the execution paths of the public wrapper Keyvalues.serialise() (symbolic execution in
    translate/c01_kvser.py tr_serialise): where the writes of _serialise go, what is returned (KV/KvWriter.v);
  * gen_flagprog : _read_flag(flags, flag_val) executed symbolically into a decision tree over string / boolean
    expressions (KV/KvFlagProg.v), proved there to compute read_flag of KV/KvFlags.v whenever flagprog_ok holds;
  * gen_wprog    : _serialise as a program of write / child-loop / store instructions (KV/KvWProg.v).

Fail closed on syntax that cannot be read; a construct that can be read but is not one the model knows becomes an
`Other` node, so that a named obligation (not the translator) fails.
"""
from __future__ import annotations

import ast
import copy

from harness.common import TranslateError, src_text
from translate import c01_kvser as K


def _err(node: ast.AST, msg: str) -> TranslateError:
    return TranslateError(f'keyvalues.py:{getattr(node, "lineno", "?")}: {msg}')


# ------------------------------------------------------------------------------------------------ _read_flag
def tr_flagprog(tree: ast.Module) -> str:
    fn = next((n for n in tree.body if isinstance(n, ast.FunctionDef) and n.name == '_read_flag'), None)
    if fn is None:
        raise TranslateError('keyvalues.py: _read_flag not found')
    a = fn.args
    if len(a.args) != 2 or a.kwonlyargs or a.vararg or a.kwarg or a.posonlyargs or a.defaults:
        raise _err(fn, '_read_flag(flags, flag_val) expected')
    p_flags, p_val = a.args[0].arg, a.args[1].arg

    def is_bang(e) -> bool:
        return isinstance(e, ast.Constant) and e.value == '!'

    def first_char(e, env):
        """`s[:1]` / `s[0:1]` -> s"""
        if isinstance(e, ast.Subscript) and isinstance(e.slice, ast.Slice) and e.slice.step is None \
                and (e.slice.lower is None or (isinstance(e.slice.lower, ast.Constant) and e.slice.lower.value == 0)) \
                and isinstance(e.slice.upper, ast.Constant) and e.slice.upper.value == 1 and type(e.slice.upper.value) is int:
            return sx(e.value, env)
        return None

    def sx(e, env) -> str:
        if isinstance(e, ast.Name):
            v = env.get(e.id)
            return v[1] if v is not None and v[0] == 's' else 'FSOther'
        if isinstance(e, ast.Subscript) and isinstance(e.slice, ast.Slice) and e.slice.step is None and e.slice.upper is None \
                and isinstance(e.slice.lower, ast.Constant) and e.slice.lower.value == 1 and type(e.slice.lower.value) is int:
            return f'(FTail {sx(e.value, env)})'
        if isinstance(e, ast.Call) and isinstance(e.func, ast.Attribute) and e.func.attr == 'casefold' and not e.args \
                and not e.keywords:
            return f'(FFold {sx(e.func.value, env)})'
        return 'FSOther'

    def is_flags(e) -> bool:
        return isinstance(e, ast.Name) and e.id == p_flags

    def is_defaults(e) -> bool:
        return isinstance(e, ast.Name) and e.id == 'FLAGS_DEFAULT'

    def flags_item(e, env):
        """`bool(flags[s])` -> s"""
        if isinstance(e, ast.Call) and K._is_name(e.func, 'bool') and len(e.args) == 1 and not e.keywords \
                and isinstance(e.args[0], ast.Subscript) and is_flags(e.args[0].value):
            return sx(e.args[0].slice, env)
        return None

    def default_get(e, env):
        """`FLAGS_DEFAULT.get(s, False)` (optionally inside bool()) -> s"""
        if isinstance(e, ast.Call) and K._is_name(e.func, 'bool') and len(e.args) == 1 and not e.keywords:
            e = e.args[0]
        if isinstance(e, ast.Call) and isinstance(e.func, ast.Attribute) and e.func.attr == 'get' and is_defaults(e.func.value) \
                and len(e.args) == 2 and not e.keywords and isinstance(e.args[1], ast.Constant) and e.args[1].value is False:
            return sx(e.args[0], env)
        return None

    def bx(e, env) -> str:
        if isinstance(e, ast.Constant) and isinstance(e.value, bool):
            return 'FTrue' if e.value else 'FFalse'
        if isinstance(e, ast.Name):
            v = env.get(e.id)
            return v[1] if v is not None and v[0] == 'b' else 'FBOther'
        if isinstance(e, ast.UnaryOp) and isinstance(e.op, ast.Not):
            return f'(FNeg {bx(e.operand, env)})'
        if isinstance(e, ast.Compare) and len(e.ops) == 1:
            l, r, op = e.left, e.comparators[0], e.ops[0]
            for x, y in ((l, r), (r, l)):
                s = first_char(x, env)
                if s is not None and is_bang(y) and isinstance(op, (ast.Eq, ast.NotEq)):
                    return f'(FBang {s})' if isinstance(op, ast.Eq) else f'(FNeg (FBang {s}))'
            if isinstance(op, (ast.IsNot, ast.NotEq)):
                return f'(FNeq {bx(l, env)} {bx(r, env)})'
            if isinstance(op, (ast.Is, ast.Eq)):
                return f'(FEqv {bx(l, env)} {bx(r, env)})'
            return 'FBOther'
        if isinstance(e, ast.BinOp) and isinstance(e.op, ast.BitXor):
            return f'(FNeq {bx(e.left, env)} {bx(e.right, env)})'
        if isinstance(e, ast.Call) and isinstance(e.func, ast.Attribute) and e.func.attr == 'startswith' and len(e.args) == 1 \
                and not e.keywords and is_bang(e.args[0]):
            return f'(FBang {sx(e.func.value, env)})'
        if isinstance(e, ast.IfExp):
            # bool(flags[s]) if s in flags else FLAGS_DEFAULT.get(s, False)
            t = e.test
            if isinstance(t, ast.Compare) and len(t.ops) == 1 and is_flags(t.comparators[0]):
                s0 = sx(t.left, env)
                if isinstance(t.ops[0], ast.In) and flags_item(e.body, env) == s0 and default_get(e.orelse, env) == s0:
                    return f'(FLook {s0})'
                if isinstance(t.ops[0], ast.NotIn) and flags_item(e.orelse, env) == s0 and default_get(e.body, env) == s0:
                    return f'(FLook {s0})'
                return 'FBOther'
            return f'(FIte {bx(t, env)} {bx(e.body, env)} {bx(e.orelse, env)})'
        # bool(flags.get(s, FLAGS_DEFAULT.get(s, False)))
        if isinstance(e, ast.Call) and K._is_name(e.func, 'bool') and len(e.args) == 1 and not e.keywords:
            g = e.args[0]
            if isinstance(g, ast.Call) and isinstance(g.func, ast.Attribute) and g.func.attr == 'get' and is_flags(g.func.value) \
                    and len(g.args) == 2 and not g.keywords:
                s0 = sx(g.args[0], env)
                if default_get(g.args[1], env) == s0:
                    return f'(FLook {s0})'
        return 'FBOther'

    def kind_of(e, env) -> str:
        """Is the expression a string or a boolean of the little language?  (what a local is bound to)"""
        if sx(e, env) != 'FSOther':
            return 's'
        return 'b'

    def lift_ifexp(s_):
        """`x = f(A if c else B)` is `if c: x = f(A) else: x = f(B)` (likewise for `return`): the first conditional
        expression that is not the lookup idiom `... if s in flags else ...` is turned into a fork."""
        val = s_.value
        if val is None:
            return None
        cand = [n for n in ast.walk(val) if isinstance(n, ast.IfExp) and not (
            isinstance(n.test, ast.Compare) and len(n.test.ops) == 1 and isinstance(n.test.ops[0], (ast.In, ast.NotIn)))]
        if not cand:
            return None
        ie = cand[0]

        def with_(repl):
            class Sub(ast.NodeTransformer):
                def visit_IfExp(self, n):
                    return copy.deepcopy(repl) if n is ie else self.generic_visit(n)
            new = copy.copy(s_)
            new.value = Sub().visit(val) if val is not ie else copy.deepcopy(repl)
            return new
        # (the transformer mutates `val` in place for nested nodes: work on copies)
        a_ = copy.deepcopy(s_)
        b_ = copy.deepcopy(s_)
        for clone, pick in ((a_, 'body'), (b_, 'orelse')):
            c2 = [n for n in ast.walk(clone.value) if isinstance(n, ast.IfExp) and not (
                isinstance(n.test, ast.Compare) and len(n.test.ops) == 1 and isinstance(n.test.ops[0], (ast.In, ast.NotIn)))][0]
            repl = getattr(c2, pick)
            if clone.value is c2:
                clone.value = repl
            else:
                for parent in ast.walk(clone.value):
                    for fld, v in ast.iter_fields(parent):
                        if v is c2:
                            setattr(parent, fld, repl)
                        elif isinstance(v, list):
                            for i_, x in enumerate(v):
                                if x is c2:
                                    v[i_] = repl
        return ast.copy_location(ast.If(test=ie.test, body=[a_], orelse=[b_]), s_)

    def run(stmts, env, depth=0) -> str:
        if depth > 40:
            raise _err(fn, '_read_flag: too deep')
        if not stmts:
            return 'FFail'          # falls off the end: returns None
        s_, rest = stmts[0], list(stmts[1:])
        if isinstance(s_, (ast.Assign, ast.AnnAssign, ast.Return)):
            lifted = lift_ifexp(s_)
            if lifted is not None:
                return run([lifted] + rest, env, depth + 1)
        if isinstance(s_, ast.Pass) or (isinstance(s_, ast.Expr) and isinstance(s_.value, ast.Constant)):
            return run(rest, env, depth + 1)
        if isinstance(s_, (ast.Assign, ast.AnnAssign)):
            tg = s_.targets if isinstance(s_, ast.Assign) else [s_.target]
            if s_.value is None:
                return run(rest, env, depth + 1)
            if len(tg) != 1 or not isinstance(tg[0], ast.Name) or tg[0].id == p_flags:
                raise _err(s_, '_read_flag: assignment target not understood')
            env = dict(env)
            if kind_of(s_.value, env) == 's':
                env[tg[0].id] = ('s', sx(s_.value, env))
            else:
                env[tg[0].id] = ('b', bx(s_.value, env))
            return run(rest, env, depth + 1)
        if isinstance(s_, ast.If):
            c = bx(s_.test, env)
            return f'(FNode {c} {run(list(s_.body) + rest, env, depth + 1)} {run(list(s_.orelse) + rest, env, depth + 1)})'
        if isinstance(s_, ast.Return):
            return f'(FLeaf {bx(s_.value, env)})' if s_.value is not None else 'FFail'
        if isinstance(s_, ast.Try) and not s_.finalbody and not s_.orelse and len(s_.handlers) == 1 and len(s_.body) == 1 \
                and K._is_name(s_.handlers[0].type, 'KeyError') and len(s_.handlers[0].body) == 1:
            # try: x = bool(flags[s])  except KeyError: x = FLAGS_DEFAULT.get(s, False)     (also with `return` for `x =`)
            b_, h_ = s_.body[0], s_.handlers[0].body[0]
            if isinstance(b_, ast.Assign) and isinstance(h_, ast.Assign) and len(b_.targets) == 1 and len(h_.targets) == 1 \
                    and isinstance(b_.targets[0], ast.Name) and K._is_name(h_.targets[0], b_.targets[0].id):
                s1, s2 = flags_item(b_.value, env), default_get(h_.value, env)
                env = dict(env)
                env[b_.targets[0].id] = ('b', f'(FLook {s1})' if s1 is not None and s1 == s2 else 'FBOther')
                return run(rest, env, depth + 1)
        raise _err(s_, f'_read_flag: statement not understood: {ast.unparse(s_)[:60]}')

    return run(K._strip_doc(copy.deepcopy(fn.body)), {p_val: ('s', 'FArg')})


# ------------------------------------------------------------------------------------------------ main
def coq_serpath(p: dict) -> str:
    return ('{| sp_file_none := %s; sp_ib := %s; sp_extra_tests := %d; sp_segs := [%s]; sp_ret_ok := %s |}'
            % ('true' if p['file_none'] else 'false', 'true' if p['ib'] else 'false', p['extra_tests'],
               '; '.join(p['segs']), 'true' if p['ret_ok'] else 'false'))


def translate() -> tuple[str, dict]:
    tree = ast.parse(src_text('keyvalues.py'))
    cls = next((n for n in tree.body if isinstance(n, ast.ClassDef) and n.name == 'Keyvalues'), None)
    if cls is None:
        raise TranslateError('keyvalues.py: class Keyvalues not found')
    K.FStr.module_funcs = {n.name: n for n in tree.body if isinstance(n, ast.FunctionDef)}
    K.SELF_PREDS.clear()
    K.SELF_PREDS.update(K.self_preds_of(cls))
    K.init_state('keyvalues.py', tree, cls)
    f_ser = K._find_method(cls, 'serialise')
    f_in = K._find_method(cls, '_serialise')
    _braces, _self, paths = K.tr_serialise(f_ser, f_in)
    flagprog = tr_flagprog(tree)
    inner, _s2 = K.tr_inner(f_in)
    wprog = inner['prog']

    def coq_instr(i) -> str:
        if i[0] == 'write':
            return f'WWrite {K.coq_pieces(i[1])}'
        if i[0] == 'children':
            return f'WChildren {K.coq_pieces(i[1])}'
        return 'WStore' if i[0] == 'store' else 'WMutate'

    STATE_KINDS = {'guard': 'HGuard', 'mark': 'HMark', 'unmark': 'HUnmark', 'state': 'HState'}

    def coq_branch(b) -> str:
        # (statements that touch only state outside the tree neither write text nor store to the tree: gen_hprog has them)
        return '[' + '; '.join(coq_instr(i) for i in b if i[0] not in STATE_KINDS) + ']'

    def coq_hbranch(b) -> str:
        return '[' + '; '.join({'write': 'HWrite', 'children': 'HChildren', **STATE_KINDS}[i[0]] for i in b
                               if i[0] in STATE_KINDS or i[0] in ('write', 'children')) + ']'
    # everything the writers (and the escaping they call) read or write that outlives the call
    f_exp = K._find_method(cls, 'export')
    sites = []
    for fn in (f_ser, f_in, f_exp):
        sites += [(ln, kind, f'{fn.name}: {nm}') for ln, kind, nm in
                  K.state_refs(ast.Module(body=list(fn.body), type_ignores=[]), 'keyvalues.py', {(fn.args.posonlyargs + fn.args.args)[0].arg})]
    xprog = K.tr_export_struct(f_exp)['prog']

    def coq_xbranch(b) -> str:
        return '[' + '; '.join(f'XYield {K.coq_pieces(i[1])}' if i[0] == 'write' else f'XChildren {K.coq_pieces(i[1])}'
                               if i[0] == 'children' else 'XStore' if i[0] == 'store' else 'XMutate' for i in b) + ']'
    ttree = ast.parse(src_text('tokenizer.py'))
    K.init_state('tokenizer.py', ttree)
    for fn in ttree.body:
        if isinstance(fn, ast.FunctionDef) and fn.name in ('escape_text', '_escape_matcher'):
            sites += [(ln, kind, f'{fn.name}: {nm}') for ln, kind, nm in
                      K.state_refs(ast.Module(body=list(fn.body), type_ignores=[]), 'tokenizer.py', set())]
    L = ['(* GENERATED by translate/c01_kvaux.py from src/srctools/keyvalues.py. Do not edit. *)',
         'From Coq Require Import List NArith.',
         'From SV Require Import KV.KvBase KV.KvWriter KV.KvFlagProg KV.KvWProg KV.KvWHist KV.KvXProg.', 'Import ListNotations.', 'Open Scope N_scope.', '',
         '(* the execution paths of Keyvalues.serialise(): what reaches the file / the returned string *)',
         'Definition gen_serpaths : list serpath := [', '  ' + ';\n  '.join(coq_serpath(p) for p in paths), '].', '',
         '(* _read_flag(flags, flag_val), executed symbolically *)',
         f'Definition gen_flagprog : ftree := {flagprog}.', '',
         '(* _serialise as a program: per branch the statements in order *)',
         'Definition gen_wprog : wprog := {|',
         f'  wp_root := {coq_branch(wprog["root"])};',
         f'  wp_block := {coq_branch(wprog["block"])};',
         f'  wp_leaf := {coq_branch(wprog["leaf"])} |}}.', '',
         '(* _serialise over the state that outlives a call (KV/KvWHist.v): writes, child loop, guard / mark / unmark / other use of '
         'module-level or class-level mutable objects *)',
         'Definition gen_hprog : hprog := {|',
         f'  hp_root := {coq_hbranch(wprog["root"])};',
         f'  hp_block := {coq_hbranch(wprog["block"])};',
         f'  hp_leaf := {coq_hbranch(wprog["leaf"])} |}}.', '',
         '(* the deprecated generator export() as a program: per branch the statements in order (KV/KvXProg.v) *)',
         'Definition gen_xprog : xprog := {|',
         f'  xp_root := {coq_xbranch(xprog["root"])};',
         f'  xp_block := {coq_xbranch(xprog["block"])};',
         f'  xp_leaf := {coq_xbranch(xprog["leaf"])} |}}.', '',
         '(* source lines of serialise / _serialise / export / escape_text / _escape_matcher that read (false) or write (true) '
         'a module-level or class-level mutable object *)',
         'Definition gen_writer_state_sites : list (N * bool) := ['
         + '; '.join(f'({ln}, {"true" if kind == "write" else "false"})' for ln, kind, _ in sites) + '].', '']
    side = {'serialise_paths': paths, 'flagprog': flagprog,
            'writer_program': {k: [i[0] for i in v] for k, v in wprog.items()},
            'export_program': {k: [i[0] for i in v] for k, v in xprog.items()},
            'writer_state_sites': [list(x) for x in sites],
            'module_level_mutable_objects': {m: {k: v for k, v in d.items()} for m, d in K.STATE['module'].items()},
            'class_level_mutable_attributes': sorted(K.STATE['cls'])}
    return '\n'.join(L), side


GEN = {'KVAux_gen': translate}
