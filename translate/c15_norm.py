"""C15: semantic normalisation of vtf.py before the three translators look at it.

The translators match decisive code shapes; this module rewrites behaviour-preserving spellings into the one shape they
know, so that a refactoring does not break the tie while a change of behaviour still does:

* module constants (`NAME = <int/str/bytes literal>`, bound once at module level, never rebound) are inlined where the
  name is read and not shadowed by a local / parameter of the enclosing function;
* `for a, b in itertools.product(A, B): body`  ->  `for a in A: for b in B: body`  (product iterates its LAST argument
  fastest, so the first argument is the outer loop);
* `for v in (e1, e2, ...): body` over a literal tuple/list of side-effect-free expressions is unrolled
  (body[v := e1]; body[v := e2]; ...) when the body neither rebinds v nor contains break/continue/else;
* `enumerate(X)` whose index is never read: `for i, t in enumerate(X)` -> `for t in X`;
* keyword arguments of struct.pack / struct.unpack / struct.unpack_from / Struct methods are left alone (not needed);
* `inline_self_calls(cls, fn)`: `v = self.helper(args)` / `return self.helper(args)` / `self.helper(args)` where helper is
  a plain method of the same class whose body is straight-line code (assignments, `if ...: raise`, expression
  statements, asserts) ending in one `return <expr>` is replaced by the body with the parameters substituted.

Every node gets an attribute `_seq` (depth-first source order AFTER the rewriting) that the translators use wherever
they need "the order in which the code runs" instead of line numbers (unrolled copies share a line).
Anything this module does not understand is left as it is: the translators stay fail-closed.
"""
from __future__ import annotations

import ast
import copy


# ------------------------------------------------------------------------------------------------ helpers
def _assigned_names(fn: ast.AST) -> set[str]:
    out: set[str] = set()
    for n in ast.walk(fn):
        if isinstance(n, ast.Name) and isinstance(n.ctx, (ast.Store, ast.Del)):
            out.add(n.id)
        elif isinstance(n, ast.arg):
            out.add(n.arg)
        elif isinstance(n, (ast.Global, ast.Nonlocal)):
            out.update(n.names)
        elif isinstance(n, (ast.FunctionDef, ast.AsyncFunctionDef, ast.ClassDef)) and n is not fn:
            out.add(n.name)
        elif isinstance(n, ast.alias):
            out.add((n.asname or n.name).split('.')[0])
        elif isinstance(n, ast.ExceptHandler) and n.name:
            out.add(n.name)
    return out


def _pure(e: ast.expr) -> bool:
    """an expression whose evaluation has no side effect and that may be duplicated"""
    if isinstance(e, (ast.Name, ast.Constant)):
        return True
    if isinstance(e, ast.Attribute):
        return _pure(e.value)
    if isinstance(e, ast.Subscript):
        return _pure(e.value) and _pure(e.slice)
    if isinstance(e, (ast.Tuple, ast.List)):
        return all(_pure(x) for x in e.elts)
    if isinstance(e, ast.UnaryOp):
        return _pure(e.operand)
    if isinstance(e, ast.BinOp):
        return _pure(e.left) and _pure(e.right)
    return False


class _Subst(ast.NodeTransformer):
    def __init__(self, mapping: dict[str, ast.expr]):
        self.mapping = mapping

    def visit_Name(self, n: ast.Name):
        if isinstance(n.ctx, ast.Load) and n.id in self.mapping:
            return ast.copy_location(copy.deepcopy(self.mapping[n.id]), n)
        return n


def subst(node, mapping: dict[str, ast.expr]):
    return _Subst(mapping).visit(copy.deepcopy(node))


# ------------------------------------------------------------------------------------------------ module constants
def module_constants(tree: ast.Module) -> dict[str, ast.Constant]:
    count: dict[str, int] = {}
    val: dict[str, ast.Constant] = {}
    for st in tree.body:
        tgts: list[ast.expr] = []
        v = None
        if isinstance(st, ast.Assign):
            tgts, v = st.targets, st.value
        elif isinstance(st, ast.AnnAssign) and st.value is not None:
            tgts, v = [st.target], st.value
        elif isinstance(st, ast.AugAssign):
            tgts, v = [st.target], None
        for t in tgts:
            for n in ast.walk(t):
                if isinstance(n, ast.Name):
                    count[n.id] = count.get(n.id, 0) + 1
                    if v is not None and len(tgts) == 1 and isinstance(t, ast.Name) and isinstance(v, ast.Constant) \
                            and type(v.value) in (int, str, bytes) :
                        val[n.id] = v
    # a `global NAME` anywhere, or a store to the name inside any function at module level scope, disqualifies it
    rebound: set[str] = set()
    for n in ast.walk(tree):
        if isinstance(n, ast.Global):
            rebound.update(n.names)
    return {k: v for k, v in val.items() if count.get(k) == 1 and k not in rebound}


def _inline_constants(tree: ast.Module, consts: dict[str, ast.Constant]) -> None:
    if not consts:
        return

    def do_fn(fn):
        local = _assigned_names(fn)
        m = {k: v for k, v in consts.items() if k not in local}
        if not m:
            return
        new = _Subst(m)
        # only the function's own code; defaults/decorators are evaluated in the enclosing scope but reading a
        # module constant there is the same value
        fn.body = [new.visit(s) for s in fn.body]

    for n in ast.walk(tree):
        if isinstance(n, (ast.FunctionDef, ast.AsyncFunctionDef)):
            do_fn(n)


# ------------------------------------------------------------------------------------------------ precompiled structs
def module_structs(tree: ast.Module) -> dict[str, str]:
    """NAME = struct.Struct('<literal>') bound once at module level -> format (whitespace removed, struct ignores it)."""
    count: dict[str, int] = {}
    val: dict[str, str] = {}
    for st in tree.body:
        if isinstance(st, (ast.Assign, ast.AnnAssign)) and st.value is not None:
            tgts = st.targets if isinstance(st, ast.Assign) else [st.target]
            for t in tgts:
                for n in ast.walk(t):
                    if isinstance(n, ast.Name):
                        count[n.id] = count.get(n.id, 0) + 1
            v = st.value
            if len(tgts) == 1 and isinstance(tgts[0], ast.Name) and isinstance(v, ast.Call) and ast.unparse(v.func) in ('struct.Struct', 'Struct') \
                    and len(v.args) == 1 and not v.keywords and isinstance(v.args[0], ast.Constant) and isinstance(v.args[0].value, str):
                val[tgts[0].id] = ''.join(v.args[0].value.split())
    rebound = {x for n in ast.walk(tree) if isinstance(n, ast.Global) for x in n.names}
    return {k: v for k, v in val.items() if count.get(k) == 1 and k not in rebound}


class _Structs(ast.NodeTransformer):
    """NAME.pack(a..) -> struct.pack(fmt, a..); NAME.unpack(b) -> struct.unpack(fmt, b); NAME.unpack_from(b, o) likewise;
    NAME.size -> the number (struct.calcsize; the Coq side re-checks it against its own calcsize of the format)."""
    def __init__(self, structs: dict[str, str], local: set[str]):
        self.structs = {k: v for k, v in structs.items() if k not in local}

    def visit_Call(self, c: ast.Call):
        self.generic_visit(c)
        f = c.func
        if isinstance(f, ast.Attribute) and isinstance(f.value, ast.Name) and f.value.id in self.structs \
                and f.attr in ('pack', 'unpack', 'unpack_from', 'pack_into', 'iter_unpack'):
            new = ast.Call(func=ast.Attribute(value=ast.Name(id='struct', ctx=ast.Load()), attr=f.attr, ctx=ast.Load()),
                           args=[ast.Constant(value=self.structs[f.value.id])] + c.args, keywords=c.keywords)
            return ast.copy_location(new, c)
        return c

    def visit_Attribute(self, a: ast.Attribute):
        self.generic_visit(a)
        if isinstance(a.value, ast.Name) and a.value.id in self.structs and a.attr == 'size' and isinstance(a.ctx, ast.Load):
            import struct
            try:
                return ast.copy_location(ast.Constant(value=struct.calcsize(self.structs[a.value.id])), a)
            except struct.error:
                return a
        return a


def _inline_structs(tree: ast.Module, structs: dict[str, str]) -> None:
    if not structs:
        return
    for n in ast.walk(tree):
        if isinstance(n, (ast.FunctionDef, ast.AsyncFunctionDef)):
            tr = _Structs(structs, _assigned_names(n))
            n.body = [tr.visit(s) for s in n.body]


# ------------------------------------------------------------------------------------------------ loops
def _has_loop_escape(body: list[ast.stmt], kinds=(ast.Break, ast.Continue)) -> bool:
    """a break/continue that belongs to THIS loop (not to a loop nested in the body)"""
    def go(stmts) -> bool:
        for st in stmts:
            if isinstance(st, kinds):
                return True
            if isinstance(st, (ast.For, ast.AsyncFor, ast.While)):
                if go(st.orelse):
                    return True
                continue        # escapes inside belong to the inner loop
            if isinstance(st, (ast.FunctionDef, ast.AsyncFunctionDef, ast.ClassDef)):
                continue
            for fld in ('body', 'orelse', 'finalbody'):
                if go(getattr(st, fld, []) or []):
                    return True
            for h in getattr(st, 'handlers', []) or []:
                if go(h.body):
                    return True
        return False
    return go(body)


def negate(test: ast.expr) -> ast.expr:
    """`not test`, simplified: not (a is b) -> a is not b, not (not x) -> x, ==/!=, </>=, in/not in"""
    if isinstance(test, ast.UnaryOp) and isinstance(test.op, ast.Not):
        return test.operand
    if isinstance(test, ast.Compare) and len(test.ops) == 1:
        flip = {ast.Is: ast.IsNot, ast.IsNot: ast.Is, ast.Eq: ast.NotEq, ast.NotEq: ast.Eq, ast.In: ast.NotIn, ast.NotIn: ast.In,
                ast.Lt: ast.GtE, ast.GtE: ast.Lt, ast.Gt: ast.LtE, ast.LtE: ast.Gt}
        # the order comparisons are only flipped for the identity/equality/membership operators: `not (a < b)` is not
        # `a >= b` for unordered values (NaN), so those keep the explicit `not`
        if type(test.ops[0]) in (ast.Is, ast.IsNot, ast.Eq, ast.NotEq, ast.In, ast.NotIn):
            return ast.copy_location(ast.Compare(left=test.left, ops=[flip[type(test.ops[0])]()], comparators=test.comparators), test)
    return ast.copy_location(ast.UnaryOp(op=ast.Not(), operand=test), test)


def _guard_clauses(body: list[ast.stmt]) -> list[ast.stmt]:
    """In a loop body: `if c: continue` followed by the rest of the body  ==  `if not c: <rest>`."""
    for i, st in enumerate(body):
        if isinstance(st, ast.If) and not st.orelse and len(st.body) == 1 and isinstance(st.body[0], ast.Continue):
            rest = _guard_clauses(body[i + 1:])
            if not rest:
                return body[:i]
            new = ast.If(test=negate(st.test), body=rest, orelse=[])
            return body[:i] + [ast.copy_location(new, st)]
    return body


class _Loops(ast.NodeTransformer):
    def visit_For(self, n: ast.For):
        self.generic_visit(n)
        n.body = _guard_clauses(n.body)
        it = n.iter
        # enumerate() whose index is not used
        if isinstance(it, ast.Call) and isinstance(it.func, ast.Name) and it.func.id == 'enumerate' and len(it.args) == 1 \
                and not it.keywords and isinstance(n.target, ast.Tuple) and len(n.target.elts) == 2 \
                and isinstance(n.target.elts[0], ast.Name):
            idx = n.target.elts[0].id
            used = any(isinstance(x, ast.Name) and x.id == idx for st in n.body + n.orelse for x in ast.walk(st))
            if not used:
                n.target = n.target.elts[1]
                n.iter = it.args[0]
                it = n.iter
        # itertools.product(A, B, ...) -> nested loops
        if isinstance(it, ast.Call) and ast.unparse(it.func) in ('itertools.product', 'product') and not it.keywords \
                and isinstance(n.target, ast.Tuple) and len(n.target.elts) == len(it.args) >= 2 and not n.orelse \
                and not _has_loop_escape(n.body, (ast.Break,)):
            body = n.body
            for tgt, seq in reversed(list(zip(n.target.elts, it.args))):
                loop = ast.For(target=tgt, iter=seq, body=body, orelse=[], type_comment=None)
                ast.copy_location(loop, n)
                body = [loop]
            return body[0]
        # loop over a literal tuple / list: unroll
        if isinstance(it, (ast.Tuple, ast.List)) and isinstance(n.target, ast.Name) and not n.orelse and it.elts \
                and all(_pure(e) for e in it.elts) and not _has_loop_escape(n.body) \
                and n.target.id not in {x.id for st in n.body for x in ast.walk(st) if isinstance(x, ast.Name) and isinstance(x.ctx, ast.Store)}:
            out: list[ast.stmt] = []
            for e in it.elts:
                for st in n.body:
                    out.append(subst(st, {n.target.id: e}))
            return out
        return n


# ------------------------------------------------------------------------------------------------ self.helper() inlining
def _straight_line_helper(fn: ast.FunctionDef) -> tuple[list[ast.stmt], ast.expr | None] | None:
    """(statements, returned expression) of a helper that is straight-line code with one trailing return, else None."""
    if fn.decorator_list or fn.args.vararg or fn.args.kwarg or fn.args.kwonlyargs or fn.args.posonlyargs:
        return None
    body = [s for s in fn.body if not (isinstance(s, ast.Expr) and isinstance(s.value, ast.Constant))]
    ret: ast.expr | None = None
    if body and isinstance(body[-1], ast.Return):
        ret = body[-1].value
        body = body[:-1]
    for st in body:
        for n in ast.walk(st):
            if isinstance(n, (ast.Return, ast.Yield, ast.YieldFrom, ast.Await, ast.FunctionDef, ast.Lambda, ast.ClassDef)):
                return None
        if isinstance(st, (ast.Assign, ast.AnnAssign, ast.AugAssign, ast.Expr, ast.Assert)):
            continue
        if isinstance(st, ast.If) and not st.orelse and all(isinstance(b, ast.Raise) for b in st.body):
            continue
        return None
    return body, ret


def inline_self_calls(cls: ast.ClassDef, fn: ast.FunctionDef, depth: int = 3, tree: ast.Module | None = None) -> ast.FunctionDef:
    """A copy of fn in which top-level statements `T = self.h(args)`, `return self.h(args)`, `self.h(args)` are replaced by
    the body of the helper method h of the same class (when h is straight-line code)."""
    helpers = {m.name: m for m in cls.body if isinstance(m, ast.FunctionDef) and m is not fn and m.name != fn.name}
    fn = copy.deepcopy(fn)
    for _ in range(depth):
        changed = False
        new_body: list[ast.stmt] = []
        taken = _assigned_names(fn)
        for st in fn.body:
            call = None
            if isinstance(st, (ast.Assign, ast.Return, ast.Expr)) and isinstance(st.value, ast.Call):
                call = st.value
            if call is None or not (isinstance(call.func, ast.Attribute) and isinstance(call.func.value, ast.Name)
                                    and call.func.value.id == 'self' and call.func.attr in helpers) or call.keywords:
                new_body.append(st)
                continue
            h = helpers[call.func.attr]
            sl = _straight_line_helper(h)
            params = [a.arg for a in h.args.args]
            if sl is None or not params or params[0] != 'self' or len(params) - 1 != len(call.args) \
                    or not all(_pure(a) for a in call.args):
                new_body.append(st)
                continue
            hbody, ret = sl
            mapping = dict(zip(params[1:], call.args))
            # locals of the helper that would capture a name of the caller are not handled (except when the caller's
            # statement assigns exactly that name, or the name is only bound by the same kind of unpacking)
            h_locals = _assigned_names(ast.Module(body=hbody, type_ignores=[])) - set(params)
            target_names = {x.id for t in (st.targets if isinstance(st, ast.Assign) else []) for x in ast.walk(t) if isinstance(x, ast.Name)}
            if (h_locals & taken) - target_names:
                new_body.append(st)
                continue
            if any(isinstance(x, ast.Name) and isinstance(x.ctx, ast.Store) and x.id in mapping for s in hbody for x in ast.walk(s)):
                new_body.append(st)     # the helper rebinds a parameter
                continue
            for s in hbody:
                new_body.append(ast.copy_location(subst(s, mapping), st))
            if ret is not None:
                r = subst(ret, mapping)
                if isinstance(st, ast.Assign):
                    new_body.append(ast.copy_location(ast.Assign(targets=st.targets, value=r, type_comment=None), st))
                elif isinstance(st, ast.Return):
                    new_body.append(ast.copy_location(ast.Return(value=r), st))
                else:
                    new_body.append(ast.copy_location(ast.Expr(value=r), st))
            elif isinstance(st, ast.Assign):
                new_body.append(ast.copy_location(ast.Assign(targets=st.targets, value=ast.Constant(value=None), type_comment=None), st))
            elif isinstance(st, ast.Return):
                new_body.append(ast.copy_location(ast.Return(value=None), st))
            changed = True
        fn.body = new_body
        if not changed:
            break
    if tree is not None and hasattr(tree, '_c15_unstable'):
        propagate_locals(fn, *tree._c15_unstable)     # locals of the inlined helper are names for expressions, too
    ast.fix_missing_locations(fn)
    number(fn)
    return fn


# ------------------------------------------------------------------------------------------------ local copy propagation
_CTOR_NAMES = ('__init__', '__new__', '__attrs_post_init__')
_MUTATORS = ('pop', 'popitem', 'clear', 'update', 'setdefault', 'append', 'extend', 'insert', 'remove', 'sort', 'reverse', '__setitem__',
             '__delitem__')


def stable_attrs(tree: ast.Module) -> tuple[set[str], set[str]]:
    """(attribute names that are assigned outside constructors, attribute names whose CONTENTS are changed outside
    constructors: subscript stores / deletes / mutating method calls on `<x>.name`).
    A constructor is `__init__` (stores on `self`) or a function storing on a local that it bound itself from
    `cls.__new__(cls)` / `cls(...)` (VTF.read builds its object that way).  Reading such an attribute twice in one call
    gives the same object, so a local that merely names `self.format` can be replaced by the expression."""
    unstable: set[str] = set()
    unstable_contents: set[str] = set()
    for fn in ast.walk(tree):
        if not isinstance(fn, (ast.FunctionDef, ast.AsyncFunctionDef)):
            continue
        fresh = set()
        for n in ast.walk(fn):
            if isinstance(n, ast.Assign) and len(n.targets) == 1 and isinstance(n.targets[0], ast.Name) and isinstance(n.value, ast.Call) \
                    and ast.unparse(n.value.func) in ('cls.__new__', 'cls', 'object.__new__'):
                fresh.add(n.targets[0].id)
        if fn.name in _CTOR_NAMES and fn.args.args:
            fresh.add(fn.args.args[0].arg)

        def owner_fresh(a: ast.Attribute) -> bool:
            return isinstance(a.value, ast.Name) and a.value.id in fresh
        for n in ast.walk(fn):
            if isinstance(n, ast.Attribute) and isinstance(n.ctx, (ast.Store, ast.Del)) and not owner_fresh(n):
                unstable.add(n.attr)
            if isinstance(n, ast.Subscript) and isinstance(n.ctx, (ast.Store, ast.Del)) and isinstance(n.value, ast.Attribute) \
                    and not owner_fresh(n.value):
                unstable_contents.add(n.value.attr)
            if isinstance(n, ast.Call) and isinstance(n.func, ast.Attribute) and n.func.attr in _MUTATORS \
                    and isinstance(n.func.value, ast.Attribute) and not owner_fresh(n.func.value):
                unstable_contents.add(n.func.value.attr)
            if isinstance(n, ast.Call) and isinstance(n.func, ast.Name) and n.func.id in ('setattr', 'delattr'):
                unstable.add('*')
    return unstable, unstable_contents


def _reads_only_stable(e: ast.expr, unstable: set[str], unstable_contents: set[str]) -> bool:
    if '*' in unstable:
        return not any(isinstance(n, (ast.Attribute, ast.Subscript)) for n in ast.walk(e))
    for n in ast.walk(e):
        if isinstance(n, ast.Attribute) and n.attr in unstable:
            return False
        if isinstance(n, ast.Subscript):
            # contents of a container: only `<x>.name[...]` whose contents nobody changes outside constructors
            if not (isinstance(n.value, ast.Attribute) and n.value.attr not in unstable_contents and n.value.attr not in unstable):
                return False
    return True


def _blocks(fn: ast.AST):
    """every statement list of fn (not of nested functions / classes)"""
    def go(node):
        for fld in ('body', 'orelse', 'finalbody'):
            b = getattr(node, fld, None)
            if isinstance(b, list) and b and isinstance(b[0], ast.stmt):
                yield b
                for st in b:
                    if not isinstance(st, (ast.FunctionDef, ast.AsyncFunctionDef, ast.ClassDef)):
                        yield from go(st)
        for h in getattr(node, 'handlers', []) or []:
            yield h.body
            for st in h.body:
                yield from go(st)
    yield from go(fn)


def _effect_free_window(name: str, tail: list[ast.stmt]) -> bool:
    """RHS reads attributes / items that calls might change: every use of `name` in `tail` must be evaluated before any
    call, attribute store or item store that follows the definition has happened."""
    def uses(node) -> list[ast.Name]:
        return [n for n in ast.walk(node) if isinstance(n, ast.Name) and n.id == name and isinstance(n.ctx, ast.Load)]

    def effectful(node) -> bool:
        for n in ast.walk(node):
            if isinstance(n, (ast.Call, ast.Await, ast.Yield, ast.YieldFrom)):
                return True
            if isinstance(n, (ast.Attribute, ast.Subscript)) and isinstance(n.ctx, (ast.Store, ast.Del)):
                return True
        return False

    def simple_ok(st: ast.stmt) -> bool:
        # every call of the statement is an ancestor of every use (its arguments are evaluated before it runs)
        us = uses(st)
        for c in ast.walk(st):
            if isinstance(c, ast.Call):
                inside = {id(x) for x in ast.walk(c)}
                if not all(id(u) in inside for u in us):
                    return False
                # ... and the use is not inside ANOTHER argument-level call evaluated earlier: nested calls must nest
        # item/attribute stores happen after the value is evaluated; a use inside the target is evaluated after the value
        if isinstance(st, (ast.Assign, ast.AugAssign, ast.AnnAssign)):
            tgts = st.targets if isinstance(st, ast.Assign) else [st.target]
            val = st.value
            if val is not None and any(isinstance(n, ast.Call) for n in ast.walk(val)) and any(uses(t) for t in tgts):
                return False
        return True

    def go(stmts: list[ast.stmt], open_: bool) -> tuple[bool, bool]:
        """-> (all uses fine, still open afterwards)"""
        for st in stmts:
            u = uses(st)
            if isinstance(st, ast.If):
                if uses(st.test) and (not open_ or effectful(st.test)) and not (open_ and simple_ok(ast.Expr(value=st.test))):
                    return False, False
                if effectful(st.test):
                    open_after_test = False
                else:
                    open_after_test = open_
                ok1, o1 = go(st.body, open_after_test)
                ok2, o2 = go(st.orelse, open_after_test)
                if not (ok1 and ok2):
                    return False, False
                open_ = o1 and o2
                continue
            if isinstance(st, (ast.For, ast.While, ast.Try, ast.With, ast.AsyncFor, ast.AsyncWith, ast.Match if hasattr(ast, 'Match') else ast.With)):
                if u:
                    return False, False
                if effectful(st):
                    open_ = False
                continue
            if u:
                if not open_ or not simple_ok(st):
                    return False, False
            if effectful(st):
                open_ = False
        return True, open_
    return go(tail, True)[0]


def propagate_locals(fn: ast.AST, unstable: set[str], unstable_contents: set[str]) -> int:
    """Replace a local that is a mere NAME for a side-effect-free expression by that expression:
    `n = <pure expr>` in a block, every read of n in the function lies in the rest of that block (of one of n's
    definitions), nothing in that rest rebinds n or a name the expression reads, and either the expression only reads
    names / constants / stable attributes (see stable_attrs), or every use is evaluated before the first call or store
    after the definition.  Returns the number of definitions removed."""
    removed = 0
    for _ in range(8):
        changed = False
        loads: dict[str, int] = {}
        stores: dict[str, int] = {}
        for n in ast.walk(fn):
            if isinstance(n, ast.Name):
                d = loads if isinstance(n.ctx, ast.Load) else stores
                d[n.id] = d.get(n.id, 0) + 1
        params = {a.arg for a in ast.walk(fn) if isinstance(a, ast.arg)}
        captured = set()
        for n in ast.walk(fn):
            if n is not fn and isinstance(n, (ast.FunctionDef, ast.AsyncFunctionDef, ast.Lambda, ast.ClassDef)):
                captured.update(x.id for x in ast.walk(n) if isinstance(x, ast.Name))
            if isinstance(n, (ast.Global, ast.Nonlocal)):
                captured.update(n.names)
        # candidate definitions per name
        cands: dict[str, list[tuple[list, int]]] = {}
        for blk in _blocks(fn):
            for i, st in enumerate(blk):
                tgt = val = None
                if isinstance(st, ast.Assign) and len(st.targets) == 1 and isinstance(st.targets[0], ast.Name):
                    tgt, val = st.targets[0].id, st.value
                elif isinstance(st, ast.AnnAssign) and st.value is not None and isinstance(st.target, ast.Name) and st.simple:
                    tgt, val = st.target.id, st.value
                if tgt is None or tgt in params or tgt in captured or not _pure(val):
                    continue
                if isinstance(val, ast.Constant) and not isinstance(val.value, (int, str, bytes, bool, type(None))):
                    continue
                cands.setdefault(tgt, []).append((blk, i))
        for name, defs in cands.items():
            if stores.get(name, 0) != len(defs) or not loads.get(name):
                continue        # another kind of binding of the name exists (loop target, augmented assignment, ...)
            covered = 0
            ok = True
            for blk, i in defs:
                val = blk[i].value
                tail = blk[i + 1:]
                tail_names = [x for st in tail for x in ast.walk(st) if isinstance(x, ast.Name)]
                if any(x.id == name and not isinstance(x.ctx, ast.Load) for x in tail_names):
                    ok = False
                    break
                free = {x.id for x in ast.walk(val) if isinstance(x, ast.Name)}
                if any(x.id in free and not isinstance(x.ctx, ast.Load) for x in tail_names):
                    ok = False
                    break
                if name in free:
                    ok = False
                    break
                n_uses = sum(1 for x in tail_names if x.id == name)
                if n_uses == 0:
                    ok = False      # a definition nobody reads in its block: leave the code alone
                    break
                if not _reads_only_stable(val, unstable, unstable_contents) and not _effect_free_window(name, tail):
                    ok = False
                    break
                covered += n_uses
            if not ok or covered != loads[name]:
                continue
            # a block that is the body of a loop re-runs the definition on every iteration before its uses: fine
            for blk, i in sorted(defs, key=lambda d: -d[1]):
                val = blk[i].value
                new_tail = [subst(st, {name: val}) for st in blk[i + 1:]]
                blk[i:] = new_tail
                removed += 1
            changed = True
            break           # counts are stale: start over
        if not changed:
            break
    return removed


# ------------------------------------------------------------------------------------------------ order
def number(tree: ast.AST, start: int = 0) -> int:
    """attach ._seq = depth-first (execution/source) order to every node"""
    k = start

    def go(n):
        nonlocal k
        n._seq = k
        k += 1
        for c in ast.iter_child_nodes(n):
            go(c)
    go(tree)
    return k


def seq(n: ast.AST) -> int:
    return getattr(n, '_seq', getattr(n, 'lineno', 0) * 1000 + getattr(n, 'col_offset', 0))


def normalised_tree(text: str) -> ast.Module:
    tree = ast.parse(text)
    _inline_constants(tree, module_constants(tree))
    _inline_structs(tree, module_structs(tree))
    tree = _Loops().visit(tree)
    unstable, unstable_contents = stable_attrs(tree)
    tree._c15_unstable = (unstable, unstable_contents)
    for n in ast.walk(tree):
        if isinstance(n, (ast.FunctionDef, ast.AsyncFunctionDef)):
            propagate_locals(n, unstable, unstable_contents)
    ast.fix_missing_locations(tree)
    number(tree)
    return tree
