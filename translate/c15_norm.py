"""C15: semantic normalisation of vtf.py before the three translators look at it.

The translators match decisive code shapes; this module rewrites behaviour-preserving spellings into the one shape they
know, so that a refactoring does not break the tie while a change of behaviour still does:

* module constants (`NAME = <int/str/bytes literal>`, bound once at module level, never rebound) are inlined where the
  name is read and not shadowed by a local / parameter of the enclosing function;
* `for a, b in itertools.product(A, B): body`  ->  `for a in A: for b in B: body`  (product iterates its LAST argument
  fastest, so the first argument is the outer loop);
* `for v in (e1, e2, ...): body` over a literal tuple/list of side-effect-free expressions is unrolled
  (body[v := e1]; body[v := e2]; ...) when the body neither rebinds v nor contains break/continue/else;
* `enumerate(X)` whose index is never read: `for i, t in enumerate(X)` -> `for t in X`;
* keyword arguments of struct.pack / struct.unpack / struct.unpack_from / Struct methods are left alone (not needed);
* `inline_self_calls(cls, fn)`: `v = self.helper(args)` / `return self.helper(args)` / `self.helper(args)` where helper is
  a plain method of the same class whose body is straight-line code (assignments, `if ...: raise`, expression
  statements, asserts) ending in one `return <expr>` is replaced by the body with the parameters substituted.

Every node gets an attribute `_seq` (depth-first source order AFTER the rewriting) that the translators use wherever
they need "the order in which the code runs" instead of line numbers (unrolled copies share a line).
Anything this module does not understand is left as it is: the translators stay fail-closed.
"""
from __future__ import annotations

import ast
import copy


# ------------------------------------------------------------------------------------------------ helpers
def _assigned_names(fn: ast.AST) -> set[str]:
    out: set[str] = set()
    for n in ast.walk(fn):
        if isinstance(n, ast.Name) and isinstance(n.ctx, (ast.Store, ast.Del)):
            out.add(n.id)
        elif isinstance(n, ast.arg):
            out.add(n.arg)
        elif isinstance(n, (ast.Global, ast.Nonlocal)):
            out.update(n.names)
        elif isinstance(n, (ast.FunctionDef, ast.AsyncFunctionDef, ast.ClassDef)) and n is not fn:
            out.add(n.name)
        elif isinstance(n, ast.alias):
            out.add((n.asname or n.name).split('.')[0])
        elif isinstance(n, ast.ExceptHandler) and n.name:
            out.add(n.name)
    return out


def _pure(e: ast.expr) -> bool:
    """an expression whose evaluation has no side effect and that may be duplicated"""
    if isinstance(e, (ast.Name, ast.Constant)):
        return True
    if isinstance(e, ast.Attribute):
        return _pure(e.value)
    if isinstance(e, ast.Subscript):
        return _pure(e.value) and _pure(e.slice)
    if isinstance(e, (ast.Tuple, ast.List)):
        return all(_pure(x) for x in e.elts)
    if isinstance(e, ast.UnaryOp):
        return _pure(e.operand)
    if isinstance(e, ast.BinOp):
        return _pure(e.left) and _pure(e.right)
    return False


class _Subst(ast.NodeTransformer):
    def __init__(self, mapping: dict[str, ast.expr]):
        self.mapping = mapping

    def visit_Name(self, n: ast.Name):
        if isinstance(n.ctx, ast.Load) and n.id in self.mapping:
            return ast.copy_location(copy.deepcopy(self.mapping[n.id]), n)
        return n


def subst(node, mapping: dict[str, ast.expr]):
    return _Subst(mapping).visit(copy.deepcopy(node))


# ------------------------------------------------------------------------------------------------ module constants
def module_constants(tree: ast.Module) -> dict[str, ast.Constant]:
    count: dict[str, int] = {}
    val: dict[str, ast.Constant] = {}
    for st in tree.body:
        tgts: list[ast.expr] = []
        v = None
        if isinstance(st, ast.Assign):
            tgts, v = st.targets, st.value
        elif isinstance(st, ast.AnnAssign) and st.value is not None:
            tgts, v = [st.target], st.value
        elif isinstance(st, ast.AugAssign):
            tgts, v = [st.target], None
        for t in tgts:
            for n in ast.walk(t):
                if isinstance(n, ast.Name):
                    count[n.id] = count.get(n.id, 0) + 1
                    if v is not None and len(tgts) == 1 and isinstance(t, ast.Name) and isinstance(v, ast.Constant) \
                            and type(v.value) in (int, str, bytes) :
                        val[n.id] = v
    # a `global NAME` anywhere, or a store to the name inside any function at module level scope, disqualifies it
    rebound: set[str] = set()
    for n in ast.walk(tree):
        if isinstance(n, ast.Global):
            rebound.update(n.names)
    return {k: v for k, v in val.items() if count.get(k) == 1 and k not in rebound}


def _inline_constants(tree: ast.Module, consts: dict[str, ast.Constant]) -> None:
    if not consts:
        return

    def do_fn(fn):
        local = _assigned_names(fn)
        m = {k: v for k, v in consts.items() if k not in local}
        if not m:
            return
        new = _Subst(m)
        # only the function's own code; defaults/decorators are evaluated in the enclosing scope but reading a
        # module constant there is the same value
        fn.body = [new.visit(s) for s in fn.body]

    for n in ast.walk(tree):
        if isinstance(n, (ast.FunctionDef, ast.AsyncFunctionDef)):
            do_fn(n)


# ------------------------------------------------------------------------------------------------ precompiled structs
def module_structs(tree: ast.Module) -> dict[str, str]:
    """NAME = struct.Struct('<literal>') bound once at module level -> format (whitespace removed, struct ignores it)."""
    count: dict[str, int] = {}
    val: dict[str, str] = {}
    for st in tree.body:
        if isinstance(st, (ast.Assign, ast.AnnAssign)) and st.value is not None:
            tgts = st.targets if isinstance(st, ast.Assign) else [st.target]
            for t in tgts:
                for n in ast.walk(t):
                    if isinstance(n, ast.Name):
                        count[n.id] = count.get(n.id, 0) + 1
            v = st.value
            if len(tgts) == 1 and isinstance(tgts[0], ast.Name) and isinstance(v, ast.Call) and ast.unparse(v.func) in ('struct.Struct', 'Struct') \
                    and len(v.args) == 1 and not v.keywords and isinstance(v.args[0], ast.Constant) and isinstance(v.args[0].value, str):
                val[tgts[0].id] = ''.join(v.args[0].value.split())
    rebound = {x for n in ast.walk(tree) if isinstance(n, ast.Global) for x in n.names}
    return {k: v for k, v in val.items() if count.get(k) == 1 and k not in rebound}


class _Structs(ast.NodeTransformer):
    """NAME.pack(a..) -> struct.pack(fmt, a..); NAME.unpack(b) -> struct.unpack(fmt, b); NAME.unpack_from(b, o) likewise;
    NAME.size -> the number (struct.calcsize; the Coq side re-checks it against its own calcsize of the format)."""
    def __init__(self, structs: dict[str, str], local: set[str]):
        self.structs = {k: v for k, v in structs.items() if k not in local}

    def visit_Call(self, c: ast.Call):
        self.generic_visit(c)
        f = c.func
        if isinstance(f, ast.Attribute) and isinstance(f.value, ast.Name) and f.value.id in self.structs \
                and f.attr in ('pack', 'unpack', 'unpack_from', 'pack_into', 'iter_unpack'):
            new = ast.Call(func=ast.Attribute(value=ast.Name(id='struct', ctx=ast.Load()), attr=f.attr, ctx=ast.Load()),
                           args=[ast.Constant(value=self.structs[f.value.id])] + c.args, keywords=c.keywords)
            return ast.copy_location(new, c)
        return c

    def visit_Attribute(self, a: ast.Attribute):
        self.generic_visit(a)
        if isinstance(a.value, ast.Name) and a.value.id in self.structs and a.attr == 'size' and isinstance(a.ctx, ast.Load):
            import struct
            try:
                return ast.copy_location(ast.Constant(value=struct.calcsize(self.structs[a.value.id])), a)
            except struct.error:
                return a
        return a


def _inline_structs(tree: ast.Module, structs: dict[str, str]) -> None:
    if not structs:
        return
    for n in ast.walk(tree):
        if isinstance(n, (ast.FunctionDef, ast.AsyncFunctionDef)):
            tr = _Structs(structs, _assigned_names(n))
            n.body = [tr.visit(s) for s in n.body]


# ------------------------------------------------------------------------------------------------ loops
def _has_loop_escape(body: list[ast.stmt]) -> bool:
    for st in body:
        for n in ast.walk(st):
            if isinstance(n, (ast.Break, ast.Continue)):
                return True
    return False


class _Loops(ast.NodeTransformer):
    def visit_For(self, n: ast.For):
        self.generic_visit(n)
        it = n.iter
        # enumerate() whose index is not used
        if isinstance(it, ast.Call) and isinstance(it.func, ast.Name) and it.func.id == 'enumerate' and len(it.args) == 1 \
                and not it.keywords and isinstance(n.target, ast.Tuple) and len(n.target.elts) == 2 \
                and isinstance(n.target.elts[0], ast.Name):
            idx = n.target.elts[0].id
            used = any(isinstance(x, ast.Name) and x.id == idx for st in n.body + n.orelse for x in ast.walk(st))
            if not used:
                n.target = n.target.elts[1]
                n.iter = it.args[0]
                it = n.iter
        # itertools.product(A, B, ...) -> nested loops
        if isinstance(it, ast.Call) and ast.unparse(it.func) in ('itertools.product', 'product') and not it.keywords \
                and isinstance(n.target, ast.Tuple) and len(n.target.elts) == len(it.args) >= 2 and not n.orelse \
                and not _has_loop_escape(n.body):
            body = n.body
            for tgt, seq in reversed(list(zip(n.target.elts, it.args))):
                loop = ast.For(target=tgt, iter=seq, body=body, orelse=[], type_comment=None)
                ast.copy_location(loop, n)
                body = [loop]
            return body[0]
        # loop over a literal tuple / list: unroll
        if isinstance(it, (ast.Tuple, ast.List)) and isinstance(n.target, ast.Name) and not n.orelse and it.elts \
                and all(_pure(e) for e in it.elts) and not _has_loop_escape(n.body) \
                and n.target.id not in {x.id for st in n.body for x in ast.walk(st) if isinstance(x, ast.Name) and isinstance(x.ctx, ast.Store)}:
            out: list[ast.stmt] = []
            for e in it.elts:
                for st in n.body:
                    out.append(subst(st, {n.target.id: e}))
            return out
        return n


# ------------------------------------------------------------------------------------------------ self.helper() inlining
def _straight_line_helper(fn: ast.FunctionDef) -> tuple[list[ast.stmt], ast.expr | None] | None:
    """(statements, returned expression) of a helper that is straight-line code with one trailing return, else None."""
    if fn.decorator_list or fn.args.vararg or fn.args.kwarg or fn.args.kwonlyargs or fn.args.posonlyargs:
        return None
    body = [s for s in fn.body if not (isinstance(s, ast.Expr) and isinstance(s.value, ast.Constant))]
    ret: ast.expr | None = None
    if body and isinstance(body[-1], ast.Return):
        ret = body[-1].value
        body = body[:-1]
    for st in body:
        for n in ast.walk(st):
            if isinstance(n, (ast.Return, ast.Yield, ast.YieldFrom, ast.Await, ast.FunctionDef, ast.Lambda, ast.ClassDef)):
                return None
        if isinstance(st, (ast.Assign, ast.AnnAssign, ast.AugAssign, ast.Expr, ast.Assert)):
            continue
        if isinstance(st, ast.If) and not st.orelse and all(isinstance(b, ast.Raise) for b in st.body):
            continue
        return None
    return body, ret


def inline_self_calls(cls: ast.ClassDef, fn: ast.FunctionDef, depth: int = 3) -> ast.FunctionDef:
    """A copy of fn in which top-level statements `T = self.h(args)`, `return self.h(args)`, `self.h(args)` are replaced by
    the body of the helper method h of the same class (when h is straight-line code)."""
    helpers = {m.name: m for m in cls.body if isinstance(m, ast.FunctionDef) and m is not fn and m.name != fn.name}
    fn = copy.deepcopy(fn)
    for _ in range(depth):
        changed = False
        new_body: list[ast.stmt] = []
        taken = _assigned_names(fn)
        for st in fn.body:
            call = None
            if isinstance(st, (ast.Assign, ast.Return, ast.Expr)) and isinstance(st.value, ast.Call):
                call = st.value
            if call is None or not (isinstance(call.func, ast.Attribute) and isinstance(call.func.value, ast.Name)
                                    and call.func.value.id == 'self' and call.func.attr in helpers) or call.keywords:
                new_body.append(st)
                continue
            h = helpers[call.func.attr]
            sl = _straight_line_helper(h)
            params = [a.arg for a in h.args.args]
            if sl is None or not params or params[0] != 'self' or len(params) - 1 != len(call.args) \
                    or not all(_pure(a) for a in call.args):
                new_body.append(st)
                continue
            hbody, ret = sl
            mapping = dict(zip(params[1:], call.args))
            # locals of the helper that would capture a name of the caller are not handled (except when the caller's
            # statement assigns exactly that name, or the name is only bound by the same kind of unpacking)
            h_locals = _assigned_names(ast.Module(body=hbody, type_ignores=[])) - set(params)
            target_names = {x.id for t in (st.targets if isinstance(st, ast.Assign) else []) for x in ast.walk(t) if isinstance(x, ast.Name)}
            if (h_locals & taken) - target_names:
                new_body.append(st)
                continue
            if any(isinstance(x, ast.Name) and isinstance(x.ctx, ast.Store) and x.id in mapping for s in hbody for x in ast.walk(s)):
                new_body.append(st)     # the helper rebinds a parameter
                continue
            for s in hbody:
                new_body.append(ast.copy_location(subst(s, mapping), st))
            if ret is not None:
                r = subst(ret, mapping)
                if isinstance(st, ast.Assign):
                    new_body.append(ast.copy_location(ast.Assign(targets=st.targets, value=r, type_comment=None), st))
                elif isinstance(st, ast.Return):
                    new_body.append(ast.copy_location(ast.Return(value=r), st))
                else:
                    new_body.append(ast.copy_location(ast.Expr(value=r), st))
            elif isinstance(st, ast.Assign):
                new_body.append(ast.copy_location(ast.Assign(targets=st.targets, value=ast.Constant(value=None), type_comment=None), st))
            elif isinstance(st, ast.Return):
                new_body.append(ast.copy_location(ast.Return(value=None), st))
            changed = True
        fn.body = new_body
        if not changed:
            break
    ast.fix_missing_locations(fn)
    number(fn)
    return fn


# ------------------------------------------------------------------------------------------------ order
def number(tree: ast.AST, start: int = 0) -> int:
    """attach ._seq = depth-first (execution/source) order to every node"""
    k = start

    def go(n):
        nonlocal k
        n._seq = k
        k += 1
        for c in ast.iter_child_nodes(n):
            go(c)
    go(tree)
    return k


def seq(n: ast.AST) -> int:
    return getattr(n, '_seq', getattr(n, 'lineno', 0) * 1000 + getattr(n, 'col_offset', 0))


def normalised_tree(text: str) -> ast.Module:
    tree = ast.parse(text)
    _inline_constants(tree, module_constants(tree))
    _inline_structs(tree, module_structs(tree))
    tree = _Loops().visit(tree)
    ast.fix_missing_locations(tree)
    number(tree)
    return tree
