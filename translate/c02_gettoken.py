"""C02/C03 translator: ``Tokenizer._get_token`` and ``Tokenizer._handle_comment`` as decision trees -> Gen/GtTrees_gen.v.

Generalises translate/c02_hstring.py (one loop, flat rows) to every loop of the two functions.  Each function is cut into
*segments*: a segment starts at the function entry or at the head of a ``while True:`` loop and runs until the function
returns / raises, the loop's body ends (``continue``), or another ``while True:`` loop is entered (a ``break`` runs on
into the statements that follow the loop).  A segment reads one character (at most two) with ``self._next_char()``; what
it does depends only on *atoms*:

* the class of the character read (17 classes: end of input, CR, LF, SP, TAB, ``/ " [ ( BOM : + ] ) # *``, anything else),
  the class of a second character read in the same segment,
* whether the character is a key of ``_OPERATORS`` / a member of ``BARE_DISALLOWED`` (kept abstract: the model is generic
  over the two tables),
* ``self._last_was_cr`` and ``self.line_num == 1`` at the start of the segment, and the seven option attributes.

Each segment is *executed on abstract values* (a small interpreter over the Python ``ast``); an atom whose value is needed
and not yet fixed forks the execution, which yields a decision tree whose leaves say: is the (last) character pushed
back, by how much ``line_num`` grows, what happens to ``_last_was_cr``, what is appended to the buffer, and how the
segment ends (next iteration / return token+value / return the operator / raise error site+argument / call
``_handle_string`` / the ``_handle_comment`` call pattern / enter loop <role> with <initial buffer> / return None).
Loops are named by the class of character that leads into them (``[`` bracket, ``(`` parenthesis, ``#`` directive, any other
character: bare string; ``*`` star comment, ``/`` line comment), never by their position in the source.  Names of locals,
order of ``elif`` branches, guard clauses vs ``else``, helper methods consisting of one ``return`` (inlined), ``in``-tests
vs ``try/except KeyError`` are irrelevant by construction.  Anything outside the statement language raises TranslateError
(fail closed).  Whether the trees are those of the hand model Text/Tokenizer.v is NOT decided here: that is the instance
obligations of Text/GtGen.v, under which Text/GtTableProofs.v identifies the interpretation of the trees with the model."""
from __future__ import annotations

import ast

from harness.common import TranslateError, src_text

CLASS_CHARS = [None, '\r', '\n', ' ', '\t', '/', '"', '[', '(', '\ufeff', ':', '+', ']', ')', '#', '*']
K_EOF, K_OTHER = 0, 16
NCLS = 17
CLASS_OF_LIT = {c: k for k, c in enumerate(CLASS_CHARS) if c is not None}
CLASS_NAMES = ['EOF', 'CR', 'LF', 'SP', 'TAB', 'slash', 'dquote', 'lbrack', 'lparen', 'BOM', 'colon', 'plus', 'rbrack', 'rparen', 'hash', 'star', 'other']
OPTIONS = ['string_bracket', 'string_parens', 'allow_escapes', 'allow_star_comments', 'preserve_comments', 'colon_operator', 'plus_operator']
TOKENS = ['EOF', 'STRING', 'NEWLINE', 'PAREN_ARGS', 'DIRECTIVE', 'COMMENT', 'BRACE_OPEN', 'BRACE_CLOSE', 'PAREN_OPEN', 'PAREN_CLOSE',
          'PROP_FLAG', 'BRACK_OPEN', 'BRACK_CLOSE', 'COLON', 'EQUALS', 'PLUS', 'COMMA']
# error sites of Text/Tokenizer.v (numbered as in harness/c02_util._ERR) <- the message texts; an unknown text is site 99
MESSAGES = [
    (1, 'Unterminated string!'), (2, 'No character to escape!'), (3, 'Reached end of line without closing "]"!'),
    (4, 'Cannot nest [] brackets!'), (5, 'Unterminated property flag!'), (6, 'Cannot nest () brackets!'),
    (7, 'Unterminated parentheses!'), (8, 'No open [] to close with "]"!'), (9, 'No open () to close with ")"!'),
    (10, 'Unexpected character "{}"!'), (11, 'Unclosed /* comment (starting on line {})!'), (12, '/**/-style comments are not allowed!'),
    (13, 'Single slash found, instead of two for a comment (// or /* */)!'), (14, 'Single slash found, instead of two for a comment (//)!'),
]
PREFIX_MATCH = {5}
ROLE_BRACK, ROLE_PAREN, ROLE_DIRECTIVE, ROLE_BARE, ROLE_STAR, ROLE_LINE = 1, 2, 3, 4, 5, 6
ROLE_NAMES = {0: 'dispatch', 1: 'bracket', 2: 'paren', 3: 'directive', 4: 'bare', 5: 'star-comment', 6: 'line-comment', 7: 'comment-prefix'}
ROLE_OF_CLASS_GT = {7: ROLE_BRACK, 8: ROLE_PAREN, 14: ROLE_DIRECTIVE, K_OTHER: ROLE_BARE}
ROLE_OF_CLASS_HC = {15: ROLE_STAR, 5: ROLE_LINE}
A_LF, A_C1, A_C1_FOLD, A_C2 = 1, 2, 3, 4
X_CONTINUE, X_RETURN, X_RETURN_OP, X_ERROR, X_STRING, X_COMMENT, X_ENTER, X_SWALLOW, X_BAD = 0, 1, 2, 3, 4, 5, 6, 7, 9
V_EMPTY, V_C1, V_LF, V_JOIN = 0, 1, 2, 3


class _Need(Exception):
    def __init__(self, atom: tuple) -> None:
        self.atom = atom


class _Ctl(Exception):
    pass


class _Continue(_Ctl):
    pass


class _Break(_Ctl):
    pass


class _KeyErr(_Ctl):
    pass


class _Exit(_Ctl):
    def __init__(self, code: int, a1: int = 0, a2: int = 0, loop: ast.While | None = None) -> None:
        self.code, self.a1, self.a2, self.loop = code, a1, a2, loop


def _fail(node: ast.AST | None, fn: str, why: str) -> TranslateError:
    return TranslateError(f'tokenizer.py:{getattr(node, "lineno", "?")}: {fn}: {why}' + (f': `{ast.unparse(node)[:120]}`' if node is not None else ''))


def _strip_doc(body: list[ast.stmt]) -> list[ast.stmt]:
    if body and isinstance(body[0], ast.Expr) and isinstance(body[0].value, ast.Constant) and isinstance(body[0].value.value, str):
        return body[1:]
    return body


def _site_of(text: str) -> int:
    for i, t in MESSAGES:
        if text == t or (i in PREFIX_MATCH and text.startswith(t)):
            return i
    return 99


class _Run:
    """One abstract run of one segment under a (partial) assignment of atoms."""

    def __init__(self, cls: ast.ClassDef, fname: str, assign: dict, env: dict, own: ast.While | None) -> None:
        self.cls, self.fname, self.assign, self.own = cls, fname, assign, own
        self.env: dict[str, tuple] = dict(env)
        self.reads = 0
        self.unread = False
        self.dline = 0
        self.lcr: bool | None = None
        self.apps: list[int] = []
        self.called_comment = False
        self.depth = 0

    def fail(self, node: ast.AST | None, why: str) -> TranslateError:
        return _fail(node, self.fname, why)

    # ---- atoms
    def atom(self, a: tuple) -> bool:
        if a in self.assign:
            return self.assign[a]
        raise _Need(a)

    def cls_is(self, which: int, k: int) -> bool:
        """Is the `which`-th character read of class k?"""
        tag = 'c1' if which == 1 else 'c2'
        known = {a[1]: v for a, v in self.assign.items() if a[0] == tag}
        for j, v in known.items():
            if v:
                return j == k
        if k in known:
            return known[k]
        if which == 1 and k == K_EOF and (self.assign.get(('ops',)) or self.assign.get(('bd',))):
            return False         # None is neither a key of _OPERATORS nor a member of BARE_DISALLOWED
        if len(known) == NCLS - 1:
            return True           # every other class is excluded
        raise _Need((tag, k))

    def table_atom(self, v: tuple, name: str, node: ast.AST) -> bool:
        if v[0] == 'none':
            return False
        if v != ('ch', 1):
            raise self.fail(node, f'{name} is indexed by something other than the (first) character read')
        if self.cls_is(1, K_EOF):
            return False
        return self.atom((name,))

    # ---- values
    def eq(self, a: tuple, b: tuple, node: ast.AST) -> bool:
        simple = ('lit', 'none', 'bool')
        if a[0] in simple and b[0] not in simple:
            a, b = b, a
        if a[0] in simple:
            return a == b
        if b[0] == 'bool' or b[0] not in simple:
            raise self.fail(node, 'comparison not modelled')
        if a[0] == 'ch':
            if b[0] == 'none':
                return self.cls_is(a[1], K_EOF)
            if len(b[1]) != 1:
                return False
            if b[1] not in CLASS_OF_LIT:
                if self.cls_is(a[1], K_OTHER):
                    raise self.fail(node, f'the character read is compared with {b[1]!r}, which is outside the class partition of the model')
                return False
            return self.cls_is(a[1], CLASS_OF_LIT[b[1]])
        if a[0] in ('buf', 'cres', 'opres', 'join', 'fold', 'start', 'line0', 'tok') and b[0] == 'none':
            if a[0] == 'cres':
                return not self.atom(('cres',))
            return False
        raise self.fail(node, 'comparison not modelled')

    def truth(self, v: tuple, node: ast.AST) -> bool:
        if v[0] == 'bool':
            return v[1]
        if v[0] == 'none':
            return False
        if v[0] == 'lit':
            return bool(v[1])
        if v[0] == 'ch':
            return not self.cls_is(v[1], K_EOF)
        if v[0] == 'cres':
            return self.atom(('cres',))
        raise self.fail(node, 'truth value not modelled')

    def self_attr(self, n: ast.Attribute) -> tuple:
        if n.attr in OPTIONS:
            return ('bool', self.atom(('opt', OPTIONS.index(n.attr))))
        if n.attr == '_last_was_cr':
            return ('bool', self.lcr if self.lcr is not None else self.atom(('lcr',)))
        if n.attr == 'line_num':
            if self.dline != 0:
                raise self.fail(n, 'self.line_num is read after it was incremented in the same segment')
            return ('line0',)
        raise self.fail(n, 'attribute not modelled')

    def inline(self, n: ast.Call, name: str) -> tuple:
        """A helper method of the same class consisting of one `return <expr>`: evaluated with its parameters bound."""
        f = next((m for m in self.cls.body if isinstance(m, ast.FunctionDef) and m.name == name), None)
        if f is None or f.decorator_list or f.args.vararg or f.args.kwarg or f.args.kwonlyargs or f.args.posonlyargs or f.args.defaults or n.keywords:
            raise self.fail(n, 'call not modelled')
        body = _strip_doc(list(f.body))
        params = [a.arg for a in f.args.args]
        if len(body) != 1 or not isinstance(body[0], ast.Return) or body[0].value is None or not params or params[0] != 'self' \
                or len(params) - 1 != len(n.args) or self.depth > 3:
            raise self.fail(n, 'call of a helper that is not a single `return <expr>`')
        saved = self.env
        self.env = {p: self.ev(a) for p, a in zip(params[1:], n.args)}
        self.depth += 1
        try:
            return self.ev(body[0].value)
        finally:
            self.depth -= 1
            self.env = saved

    def ev(self, n: ast.expr) -> tuple:
        if isinstance(n, ast.Constant):
            if isinstance(n.value, bool):
                return ('bool', n.value)
            if n.value is None:
                return ('none',)
            if isinstance(n.value, str):
                return ('lit', n.value)
            if type(n.value) is int:
                return ('int', n.value)
            raise self.fail(n, 'constant not modelled')
        if isinstance(n, ast.Name):
            if n.id not in self.env:
                raise self.fail(n, f'local `{n.id}` is read before it is assigned in this segment (a loop-carried value other than the buffer)')
            return self.env[n.id]
        if isinstance(n, ast.NamedExpr) and isinstance(n.target, ast.Name):
            v = self.ev(n.value)
            self.env[n.target.id] = v
            return v
        if isinstance(n, ast.Attribute) and isinstance(n.value, ast.Name):
            if n.value.id == 'self':
                return self.self_attr(n)
            if n.value.id == 'Token' and n.attr in TOKENS:
                return ('tok', n.attr)
            raise self.fail(n, 'attribute not modelled')
        if isinstance(n, ast.List):
            if not n.elts:
                return ('buf', 0)
            if len(n.elts) == 1 and self.ev(n.elts[0]) == ('ch', 1) and not self.cls_is(1, K_EOF):
                return ('buf', 1)
            raise self.fail(n, 'list not modelled')
        if isinstance(n, ast.Tuple):
            return ('tuple', *[self.ev(x) for x in n.elts])
        if isinstance(n, ast.Call):
            f = n.func
            if isinstance(f, ast.Attribute) and isinstance(f.value, ast.Name) and f.value.id == 'self':
                if f.attr == '_next_char' and not n.args and not n.keywords:
                    if self.unread:
                        raise self.fail(n, 'a character is read after a push-back in the same segment')
                    self.reads += 1
                    if self.reads > 2:
                        raise self.fail(n, 'a third character is read in one segment')
                    return ('ch', self.reads)
                if f.attr == '_handle_comment' and not n.args and not n.keywords and self.fname == '_get_token':
                    if self.called_comment or self.reads != 1 or self.unread:
                        raise self.fail(n, '_handle_comment call not modelled here')
                    self.called_comment = True
                    return ('cres',)
                if f.attr == '_handle_string' and not n.args and not n.keywords and self.fname == '_get_token':
                    return ('hsres',)
                if f.attr not in ('error', '_next_char', '_handle_comment', '_handle_string', '_get_token'):
                    return self.inline(n, f.attr)
                raise self.fail(n, 'call not modelled')
            if isinstance(f, ast.Attribute) and f.attr == 'join' and isinstance(f.value, ast.Constant) and f.value.value == '' \
                    and len(n.args) == 1 and not n.keywords:
                if self.ev(n.args[0]) == ('buf', 'carried'):
                    return ('join',)
                raise self.fail(n, 'join of something other than the buffer of the loop')
            if isinstance(f, ast.Attribute) and f.attr == 'casefold' and not n.args and not n.keywords:
                v = self.ev(f.value)
                if v == ('ch', 1) and not self.cls_is(1, K_EOF):
                    return ('fold', 1)
                raise self.fail(n, 'casefold of something other than the character read')
            raise self.fail(n, 'call not modelled')
        if isinstance(n, ast.Subscript) and isinstance(n.value, ast.Name) and n.value.id == '_OPERATORS':
            if self.table_atom(self.ev(n.slice), 'ops', n):
                return ('opres',)
            raise _KeyErr()
        if isinstance(n, ast.Compare) and len(n.ops) == 1:
            op = n.ops[0]
            c = n.comparators[0]
            if isinstance(op, (ast.In, ast.NotIn)):
                a = self.ev(n.left)
                if isinstance(c, ast.Name) and c.id in ('BARE_DISALLOWED', '_OPERATORS'):
                    r = self.table_atom(a, 'bd' if c.id == 'BARE_DISALLOWED' else 'ops', n)
                else:
                    if isinstance(c, ast.Constant) and isinstance(c.value, str):
                        if a[0] == 'none' or (a[0] == 'ch' and self.cls_is(a[1], K_EOF)):
                            raise self.fail(n, '`None in <str>` raises TypeError')
                        items = [('lit', x) for x in c.value]
                    elif isinstance(c, (ast.Tuple, ast.List, ast.Set)):
                        items = [self.ev(x) for x in c.elts]
                    else:
                        raise self.fail(n, 'membership test not modelled')
                    r = any(self.eq(a, it, n) for it in items)
                return ('bool', r if isinstance(op, ast.In) else not r)
            a, b = self.ev(n.left), self.ev(c)
            if isinstance(op, (ast.Eq, ast.NotEq)):
                if a == ('line0',) and b == ('int', 1):
                    r = self.atom(('line1',))
                elif a[0] in ('line0', 'int') or b[0] in ('line0', 'int'):
                    raise self.fail(n, 'comparison of the line number not modelled')
                else:
                    r = self.eq(a, b, n)
                return ('bool', r if isinstance(op, ast.Eq) else not r)
            if isinstance(op, (ast.Is, ast.IsNot)):
                if a[0] != 'none' and b[0] != 'none' and not (a[0] == 'bool' and b[0] == 'bool'):
                    raise self.fail(n, '`is` with something other than None / a bool')
                r = self.eq(a, b, n)
                return ('bool', r if isinstance(op, ast.Is) else not r)
            raise self.fail(n, 'comparison operator not modelled')
        if isinstance(n, ast.BoolOp):
            if isinstance(n.op, ast.And):
                for v in n.values:
                    if not self.truth(self.ev(v), v):
                        return ('bool', False)
                return ('bool', True)
            for v in n.values:
                if self.truth(self.ev(v), v):
                    return ('bool', True)
            return ('bool', False)
        if isinstance(n, ast.UnaryOp) and isinstance(n.op, ast.Not):
            return ('bool', not self.truth(self.ev(n.operand), n.operand))
        if isinstance(n, ast.IfExp):
            return self.ev(n.body if self.truth(self.ev(n.test), n.test) else n.orelse)
        raise self.fail(n, 'expression not modelled')

    # ---- statements
    def run(self, stmts: list[ast.stmt]) -> None:
        for st in stmts:
            self.stmt(st)

    def ret(self, st: ast.Return) -> None:
        if st.value is None or (isinstance(st.value, ast.Constant) and st.value.value is None):
            if self.fname != '_handle_comment':
                raise self.fail(st, 'return None')
            raise _Exit(X_SWALLOW)
        v = self.ev(st.value)
        if v == ('hsres',):
            raise _Exit(X_STRING)
        if v == ('cres',):
            raise _Exit(X_COMMENT)
        if v[0] == 'none' and self.fname == '_handle_comment':
            raise _Exit(X_SWALLOW)
        if v[0] != 'tuple' or len(v) != 3:
            raise self.fail(st, 'return value not modelled')
        t, x = v[1], v[2]
        if t == ('opres',) and x == ('ch', 1):
            raise _Exit(X_RETURN_OP)
        if t[0] != 'tok':
            raise self.fail(st, 'returned token kind not modelled')
        if x == ('join',):
            mode = V_JOIN
        elif x == ('ch', 1) and not self.cls_is(1, K_EOF):
            mode = V_C1
        elif x[0] == 'lit' and x[1] == '':
            mode = V_EMPTY
        elif x[0] == 'lit' and x[1] == '\n':
            mode = V_LF
        elif x[0] == 'lit' and len(x[1]) == 1 and x[1] in CLASS_OF_LIT and self.reads == 1 and self.cls_is(1, CLASS_OF_LIT[x[1]]):
            mode = V_C1           # the literal IS the character read
        else:
            raise self.fail(st, 'returned token value not modelled')
        raise _Exit(X_RETURN, TOKENS.index(t[1]), mode)

    def stmt(self, st: ast.stmt) -> None:
        if isinstance(st, ast.AnnAssign) and st.value is None:
            return
        if isinstance(st, (ast.Assign, ast.AnnAssign)):
            tg = st.targets[0] if isinstance(st, ast.Assign) and len(st.targets) == 1 else getattr(st, 'target', None)
            if isinstance(tg, ast.Attribute) and ast.unparse(tg) == 'self._last_was_cr':
                v = self.ev(st.value)
                if v[0] != 'bool':
                    raise self.fail(st, '_last_was_cr is assigned a non-boolean value')
                self.lcr = v[1]
                return
            if not isinstance(tg, ast.Name):
                raise self.fail(st, 'assignment not modelled')
            self.env[tg.id] = self.ev(st.value)
        elif isinstance(st, ast.AugAssign):
            tgt = ast.unparse(st.target)
            one = isinstance(st.value, ast.Constant) and type(st.value.value) is int and st.value.value == 1
            if tgt == 'self.line_num' and isinstance(st.op, ast.Add) and one:
                self.dline += 1
            elif tgt == 'self._char_index' and isinstance(st.op, ast.Sub) and one:
                if self.reads == 0 or self.unread:
                    raise self.fail(st, 'push-back that does not directly follow a read')
                self.unread = True
            else:
                raise self.fail(st, 'augmented assignment not modelled')
        elif isinstance(st, ast.Expr):
            c = st.value
            if isinstance(c, ast.Constant):
                return
            if isinstance(c, ast.Call) and isinstance(c.func, ast.Attribute) and c.func.attr == 'append' and isinstance(c.func.value, ast.Name) \
                    and len(c.args) == 1 and not c.keywords:
                if self.ev(c.func.value) != ('buf', 'carried'):
                    raise self.fail(st, 'append to something other than the buffer of the loop')
                v = self.ev(c.args[0])
                if v == ('lit', '\n'):
                    self.apps.append(A_LF)
                elif v[0] == 'ch' and not self.cls_is(v[1], K_EOF):
                    self.apps.append(A_C1 if v[1] == 1 else A_C2)
                elif v == ('fold', 1):
                    self.apps.append(A_C1_FOLD)
                else:
                    raise self.fail(st, 'appended value not modelled')
                return
            raise self.fail(st, 'expression statement not modelled')
        elif isinstance(st, ast.If):
            self.run(st.body if self.truth(self.ev(st.test), st.test) else st.orelse)
        elif isinstance(st, ast.While):
            if not (isinstance(st.test, ast.Constant) and st.test.value is True) or st.orelse:
                raise self.fail(st, 'loop that is not `while True:`')
            raise _Exit(X_ENTER, loop=st)
        elif isinstance(st, ast.Continue):
            raise _Continue()
        elif isinstance(st, ast.Break):
            raise _Break()
        elif isinstance(st, ast.Pass):
            return
        elif isinstance(st, ast.Return):
            self.ret(st)
        elif isinstance(st, ast.Raise):
            if st.cause is not None and not (isinstance(st.cause, ast.Constant) and st.cause.value is None):
                raise self.fail(st, 'raise ... from <something>')
            c = st.exc
            if not (isinstance(c, ast.Call) and ast.unparse(c.func) == 'self.error' and 1 <= len(c.args) <= 2 and not c.keywords):
                raise self.fail(st, 'raise of something other than self.error(<message>[, <argument>])')
            m = self.ev(c.args[0])
            if m[0] != 'lit':
                raise self.fail(st, 'error message is not a string literal')
            arg = 0
            if len(c.args) == 2:
                a = self.ev(c.args[1])
                if a == ('ch', 1) and not self.cls_is(1, K_EOF):
                    arg = 1
                elif a == ('start',) or (a == ('line0',) and self.dline == 0):
                    arg = 2
                else:
                    raise self.fail(st, 'error argument not modelled')
            raise _Exit(X_ERROR, _site_of(m[1]), arg)
        elif isinstance(st, ast.Try):
            if st.finalbody:
                raise self.fail(st, 'try/finally not modelled')
            try:
                self.run(st.body)
            except _KeyErr:
                for h in st.handlers:
                    names = [h.type] if not isinstance(h.type, ast.Tuple) else list(h.type.elts)
                    if h.type is None or any(isinstance(x, ast.Name) and x.id in ('KeyError', 'LookupError', 'Exception') for x in names):
                        if h.name:
                            raise self.fail(st, 'exception bound to a name')
                        self.run(h.body)
                        return
                raise
            else:
                self.run(st.orelse)
        else:
            raise self.fail(st, 'statement not modelled')


# ------------------------------------------------------------------------------------------------ segments -> trees
def _parents(root: list[ast.stmt]) -> dict[int, tuple[list[ast.stmt], int, ast.AST | None]]:
    """id(stmt) -> (the block it stands in, its index, the statement owning that block)."""
    out: dict[int, tuple] = {}

    def walk(block: list[ast.stmt], owner: ast.AST | None) -> None:
        for i, st in enumerate(block):
            out[id(st)] = (block, i, owner)
            for name in ('body', 'orelse', 'finalbody'):
                sub = getattr(st, name, None)
                if isinstance(sub, list) and sub and isinstance(sub[0], ast.stmt):
                    walk(sub, st)
            for h in getattr(st, 'handlers', []):
                walk(h.body, st)
    walk(root, None)
    return out


class _Fn:
    def __init__(self, cls: ast.ClassDef, f: ast.FunctionDef) -> None:
        if [a.arg for a in f.args.args] != ['self'] or f.args.vararg or f.args.kwarg or f.args.kwonlyargs or f.args.posonlyargs:
            raise TranslateError(f'{f.name}: unrecognised signature')
        self.cls, self.f, self.name = cls, f, f.name
        self.body = _strip_doc(list(f.body))
        self.par = _parents(self.body)
        for x in ast.walk(f):
            if isinstance(x, (ast.For, ast.AsyncFor, ast.With, ast.Lambda, ast.FunctionDef)) and x is not f:
                raise _fail(x, f.name, 'construct not modelled')
        self.entries: dict[int, list] = {}       # id(loop) -> [(loop, option assignment, carried env, class that led here)]

    def after(self, st: ast.stmt) -> list[list[ast.stmt]]:
        """The statements that run after `st` completes normally, innermost block first, up to the function's end; crossing a loop
        boundary is not modelled."""
        out = []
        cur: ast.AST = st
        while True:
            block, i, owner = self.par[id(cur)]
            out.append(block[i + 1:])
            if owner is None:
                return out
            if isinstance(owner, ast.While):
                raise _fail(st, self.name, 'a `break` whose continuation runs into the end of an enclosing loop body is not modelled')
            if isinstance(owner, ast.Try):
                raise _fail(st, self.name, 'loop inside try')
            cur = owner

    def one(self, assign: dict, env: dict, own: ast.While | None) -> tuple:
        """Run one segment under `assign`; returns the leaf."""
        r = _Run(self.cls, self.name, assign, env, own)
        try:
            try:
                r.run(own.body if own is not None else self.body)
                if own is None:
                    if self.name != '_handle_comment':
                        raise _fail(self.f, self.name, 'the function can fall off its end')
                    raise _Exit(X_SWALLOW)
                raise _Continue()
            except _Break:
                if own is None:
                    raise _fail(self.f, self.name, 'break outside the loop of the segment') from None
                for block in self.after(own):
                    r.run(block)
                if self.name != '_handle_comment':
                    raise _fail(own, self.name, 'the function can fall off its end') from None
                raise _Exit(X_SWALLOW) from None
        except _Continue:
            if own is None:
                raise _fail(self.f, self.name, 'continue outside a loop') from None
            for k, v in env.items():
                if r.env.get(k) != v:
                    raise _fail(own, self.name, f'loop-carried local `{k}` changes its kind in an iteration') from None
            ex = _Exit(X_CONTINUE)
        except _KeyErr:
            raise _fail(own or self.f, self.name, 'KeyError from a table lookup is not caught') from None
        except _Exit as e:
            ex = e
        if r.reads == 0 and ex.code != X_ENTER:
            raise _fail(own or self.f, self.name, 'a segment ends without reading a character')
        if r.called_comment and ex.code not in (X_COMMENT, X_CONTINUE):
            raise _fail(own or self.f, self.name, 'the result of _handle_comment() is used other than `if it is not None: return it`')
        a1, a2 = ex.a1, ex.a2
        if ex.code == X_ENTER:
            assert ex.loop is not None
            carried = {k: (('buf', 'carried') if v[0] == 'buf' else ('start',) if v == ('line0',) else v)
                       for k, v in r.env.items() if v[0] in ('buf', 'none', 'line0', 'start')}
            bufs = [v for v in r.env.values() if v[0] == 'buf']
            if len(bufs) > 1 or any(v == ('buf', 'carried') for v in bufs):
                raise _fail(ex.loop, self.name, 'more than one buffer / a used buffer is carried into a loop')
            if any(v == ('line0',) for v in r.env.values()) and r.dline != 0:
                raise _fail(ex.loop, self.name, 'the remembered line number is not the line at loop entry')
            if r.apps or r.unread:
                raise _fail(ex.loop, self.name, 'append / push-back before entering a loop')
            if own is None and r.reads == 0:
                cls_in = -1          # the function starts with the loop
            else:
                cls_in = next((a[1] for a, v in assign.items() if a[0] == 'c1' and v), K_OTHER)
            opts = {a: v for a, v in assign.items() if a[0] == 'opt'}
            self.entries.setdefault(id(ex.loop), []).append((ex.loop, opts, carried, cls_in))
            a1 = id(ex.loop)          # replaced by the role later
            a2 = bufs[0][1] if bufs else 2
        known = r.lcr if r.lcr is not None else assign.get(('lcr',))     # "unchanged" from a known value = that value
        lcr = 0 if known is None else 1 if known else 2
        if r.called_comment and ex.code == X_CONTINUE:
            code = ('cres-none',)
        else:
            code = None
        return ('leaf', r.reads, r.unread, r.dline, lcr, tuple(r.apps), ex.code, a1, a2, code)

    def explore(self, assign: dict, env: dict, own: ast.While | None) -> tuple:
        try:
            return self.one(assign, env, own)
        except _Need as nd:
            a = nd.atom
            y = self.explore({**assign, a: True}, env, own)
            n = self.explore({**assign, a: False}, env, own)
            if a == ('cres',):
                # `if (x := self._handle_comment()) is not None: return x` and nothing else: one leaf
                if y[0] == 'leaf' and n[0] == 'leaf' and y[6] == X_COMMENT and n[6] == X_CONTINUE and n[9] == ('cres-none',) \
                        and y[1:6] == n[1:6] and not n[5] and not n[2]:
                    return n[:6] + (X_COMMENT, 0, 0, None)
                raise _fail(own or self.f, self.name, 'the _handle_comment() call pattern is not `if (r := call) is not None: return r`, then next iteration')
            return ('node', a, y, n)


def _leaves(t: tuple):
    if t[0] == 'leaf':
        yield t
    else:
        yield from _leaves(t[2])
        yield from _leaves(t[3])


def _loop_tree(fn: _Fn, lid: int) -> tuple:
    ents = fn.entries[lid]
    loop = ents[0][0]
    envs = []
    for _, _, env, _ in ents:
        if env not in envs:
            envs.append(env)
    if len(envs) == 1:
        return fn.explore({}, envs[0], loop)
    atoms = sorted({a for _, o, _, _ in ents for a in o})
    for a in atoms:
        if all(a in o for _, o, _, _ in ents):
            ey = [e for _, o, e, _ in ents if o[a]]
            en = [e for _, o, e, _ in ents if not o[a]]
            if ey and en and all(e == ey[0] for e in ey) and all(e == en[0] for e in en):
                return ('node', a, fn.explore({a: True}, ey[0], loop), fn.explore({a: False}, en[0], loop))
    raise _fail(loop, fn.name, 'the loop is entered with buffers of different kinds that no single option explains')


def _analyse(fn: _Fn, role_of_class: dict[int, int], top_role: int) -> dict[int, tuple]:
    """role -> tree for the function's entry segment (top_role) and all its loops."""
    top = fn.explore({}, {}, None)
    trees: dict[int, tuple] = {}
    roles: dict[int, int] = {}
    done: set[int] = set()
    # a function that starts with its loop: the entry segment is just "enter"
    if top[0] == 'leaf' and top[6] == X_ENTER and top[1] == 0:
        lid = top[7]
        roles[lid] = top_role
    else:
        trees[top_role] = top
    while True:
        todo = [lid for lid in fn.entries if lid not in done]
        if not todo:
            break
        for lid in todo:
            done.add(lid)
            if lid not in roles:
                cls_in = {c for _, _, _, c in fn.entries[lid]}
                rs = {role_of_class.get(c, role_of_class.get(K_OTHER)) for c in cls_in}
                if len(rs) != 1 or None in rs:
                    raise _fail(fn.entries[lid][0][0], fn.name, f'cannot name the loop: it is entered after characters of classes {sorted(CLASS_NAMES[c] for c in cls_in)}')
                roles[lid] = rs.pop()
            if roles[lid] in trees:
                raise _fail(fn.entries[lid][0][0], fn.name, f'two loops for the role {ROLE_NAMES[roles[lid]]}')
            trees[roles[lid]] = _loop_tree(fn, lid)
    # replace loop ids by roles in the ENTER leaves

    def fix(t: tuple) -> tuple:
        if t[0] == 'leaf':
            if t[6] == X_ENTER:
                return t[:7] + (roles[t[7]],) + t[8:]
            return t
        return ('node', t[1], fix(t[2]), fix(t[3]))
    return {r: fix(t) for r, t in trees.items()}


def trees_of_source(text: str) -> dict[int, tuple]:
    mod = ast.parse(text)
    cls = next((n for n in mod.body if isinstance(n, ast.ClassDef) and n.name == 'Tokenizer'), None)
    if cls is None:
        raise TranslateError('class Tokenizer not found')
    fns = {f.name: f for f in cls.body if isinstance(f, ast.FunctionDef)}
    for name in ('_get_token', '_handle_comment'):
        if name not in fns:
            raise TranslateError(f'Tokenizer.{name} not found')
    gt = _analyse(_Fn(cls, fns['_get_token']), ROLE_OF_CLASS_GT, 0)
    hc = _analyse(_Fn(cls, fns['_handle_comment']), ROLE_OF_CLASS_HC, 7)
    out = {**gt, **hc}
    for r in range(8):
        if r not in out:
            raise TranslateError(f'no segment found for the role {ROLE_NAMES[r]}')
    return out



# ------------------------------------------------------------------------------------------------ state census
STATE_FUNCS = ['_get_token', '_handle_comment', '_handle_string']
READ_OK = set(OPTIONS) | {'line_num', '_last_was_cr', '_next_char', 'error', '_handle_comment', '_handle_string'}
WRITE_OK = {'line_num', '_last_was_cr', '_char_index'}
GLOBALS_OK = {'ESCAPES', '_OPERATORS', 'BARE_DISALLOWED', 'Token', 'None', 'True', 'False', 'KeyError', 'LookupError', 'Exception',
              'str', 'len', 'bool', 'isinstance'}


CENSUS_KEYS = ('class_data', 'foreign_reads', 'foreign_writes', 'foreign_globals', 'mutable_defaults', 'table_mutation', 'cached_options')


def option_census(mod: ast.Module, cls: ast.ClassDef) -> list[str]:
    """The seven options are public, documented, settable attributes, and the model takes the option vector as a parameter of
    every call.  That is faithful only if every option the token functions consult is read from the public attribute AT CALL TIME
    (that they read nothing but `self.<option>` is `foreign_reads`).  Listed here - every entry is a way in which a value derived
    from an option can outlive the construction, or in which the attribute is not a plain attribute:

    * `__init__` uses an option parameter for anything but `self.<same name> = <param>` / `= bool(<param>)` (a private attribute
      derived from it, a branch on it, passing it on to another call), or reads `self.<option>` back;
    * an option attribute is stored in `__init__` from something other than its own parameter, or never stored;
    * the class (or a base class defined in this module) defines the option as a method / property / class attribute, or defines
      `__setattr__` / `__getattr__` / `__getattribute__` / `__delattr__` (an option must be a plain instance attribute)."""
    out: list[str] = []
    init = next((f for f in cls.body if isinstance(f, ast.FunctionDef) and f.name == '__init__'), None)
    if init is None:
        return ['Tokenizer.__init__ not found']
    params = {a.arg for a in init.args.args + init.args.kwonlyargs + init.args.posonlyargs}
    ok_nodes: set[int] = set()
    stored: dict[str, int] = {}
    for st in ast.walk(init):
        tg = st.targets[0] if isinstance(st, ast.Assign) and len(st.targets) == 1 else st.target if isinstance(st, ast.AnnAssign) and st.value is not None else None
        if tg is None or not (isinstance(tg, ast.Attribute) and isinstance(tg.value, ast.Name) and tg.value.id == 'self' and tg.attr in OPTIONS):
            continue
        v = st.value
        if isinstance(v, ast.Call) and isinstance(v.func, ast.Name) and v.func.id == 'bool' and len(v.args) == 1 and not v.keywords:
            v = v.args[0]
        stored[tg.attr] = stored.get(tg.attr, 0) + 1
        if isinstance(v, ast.Name) and v.id == tg.attr and tg.attr in params:
            ok_nodes.add(id(v))
        else:
            out.append(f'__init__:{st.lineno}: self.{tg.attr} is stored from `{ast.unparse(st.value)[:50]}`, not from its own parameter')
    for o in OPTIONS:
        if o not in params:
            out.append(f'__init__: no parameter {o}')
        if stored.get(o, 0) != 1:
            out.append(f'__init__: self.{o} is assigned {stored.get(o, 0)} times')
    ann = {id(y) for x in ast.walk(init) if isinstance(x, (ast.arg, ast.AnnAssign)) and x.annotation is not None for y in ast.walk(x.annotation)}
    for x in ast.walk(init):
        if id(x) in ann or id(x) in ok_nodes:
            continue
        if isinstance(x, ast.Name) and x.id in OPTIONS and isinstance(x.ctx, ast.Load):
            out.append(f'__init__:{x.lineno}: option parameter {x.id} is used for something other than `self.{x.id} = {x.id}` '
                       f'(a value derived from it at construction time does not follow the attribute)')
        elif isinstance(x, ast.Attribute) and isinstance(x.value, ast.Name) and x.value.id == 'self' and x.attr in OPTIONS and isinstance(x.ctx, ast.Load):
            out.append(f'__init__:{x.lineno}: self.{x.attr} is read back at construction time')
    classes = {c.name: c for c in mod.body if isinstance(c, ast.ClassDef)}
    todo, seen = [cls], set()
    while todo:
        c = todo.pop()
        if c.name in seen:
            continue
        seen.add(c.name)
        todo += [classes[b.id] for b in c.bases if isinstance(b, ast.Name) and b.id in classes]
        for n in c.body:
            if isinstance(n, (ast.FunctionDef, ast.AsyncFunctionDef)) and (n.name in OPTIONS or n.name in ('__setattr__', '__getattr__', '__getattribute__', '__delattr__')):
                out.append(f'class {c.name}:{n.lineno}: defines {n.name} (an option must be a plain instance attribute)')
            elif isinstance(n, ast.Assign) and any(isinstance(t, ast.Name) and t.id in OPTIONS for t in n.targets):
                out.append(f'class {c.name}:{n.lineno}: {ast.unparse(n)[:50]} (an option must be a plain instance attribute)')
            elif isinstance(n, ast.AnnAssign) and n.value is not None and isinstance(n.target, ast.Name) and n.target.id in OPTIONS:
                out.append(f'class {c.name}:{n.lineno}: {ast.unparse(n)[:50]} (an option must be a plain instance attribute)')
    return out


def state_census(text: str) -> dict[str, list[str]]:
    """What the model assumes about state, read off the source: the three functions keep nothing between calls except
    `self.line_num` / `self._last_was_cr` (and the reader position, through `_next_char` / the one-character push-back).

    * class_data: names bound to a value in the body of class Tokenizer (a class-level list / dict would be shared by every
      tokenizer and survive a failed parse); annotations without a value and methods are not data;
    * foreign_reads / foreign_writes: `self.<attr>` read / written in the three functions (and in one-`return` helper methods
      they call) outside the modelled state; helper methods of the class may be called;
    * foreign_globals: module-level names they read other than the constant tables and `Token`; names bound by `global` /
      `nonlocal`;
    * mutable_defaults: parameters of these functions with a default value (a mutable default is state that outlives the call);
    * table_mutation: statements anywhere in the module that assign to / delete / call a mutating method on one of the constant
      tables after its definition."""
    mod = ast.parse(text)
    cls = next((n for n in mod.body if isinstance(n, ast.ClassDef) and n.name == 'Tokenizer'), None)
    if cls is None:
        raise TranslateError('class Tokenizer not found')
    out: dict[str, list[str]] = {k: [] for k in CENSUS_KEYS}
    out['cached_options'] = option_census(mod, cls)
    from translate.c02_tables import module_level_bindings
    where = module_level_bindings(mod, 'Tokenizer')
    if len(where) != 1:
        out['class_data'].append(f'Tokenizer is bound {len(where)} times at module level (lines {where}): the class that is read is not necessarily the one callers get')
    methods = {f.name: f for f in cls.body if isinstance(f, (ast.FunctionDef, ast.AsyncFunctionDef))}
    for n in cls.body:
        if isinstance(n, ast.Assign):
            out['class_data'] += [ast.unparse(t) for t in n.targets]
        elif isinstance(n, ast.AnnAssign) and n.value is not None:
            out['class_data'].append(ast.unparse(n.target))
        elif isinstance(n, ast.AugAssign):
            out['class_data'].append(ast.unparse(n.target))
    todo = [f for f in STATE_FUNCS if f in methods]
    for f in STATE_FUNCS:
        if f not in methods:
            raise TranslateError(f'Tokenizer.{f} not found')
    seen: set[str] = set()
    while todo:
        name = todo.pop()
        if name in seen:
            continue
        seen.add(name)
        f = methods[name]
        a = f.args
        if a.defaults or any(d is not None for d in a.kw_defaults):
            out['mutable_defaults'].append(f'{name}: parameter default')
        local = {x.arg for x in a.args + a.kwonlyargs + a.posonlyargs} | ({a.vararg.arg} if a.vararg else set()) | ({a.kwarg.arg} if a.kwarg else set())
        for x in ast.walk(f):
            if isinstance(x, ast.Name) and isinstance(x.ctx, (ast.Store, ast.Del)):
                local.add(x.id)
            elif isinstance(x, (ast.Global, ast.Nonlocal)):
                out['foreign_globals'] += [f'{name}:{x.lineno}: {"global" if isinstance(x, ast.Global) else "nonlocal"} {n}' for n in x.names]
        ann: set[int] = set()
        for x in ast.walk(f):
            for sub in ([x.annotation] if isinstance(x, (ast.AnnAssign, ast.arg)) and x.annotation is not None else []) + \
                    ([x.returns] if isinstance(x, ast.FunctionDef) and x.returns is not None else []):
                ann |= {id(y) for y in ast.walk(sub)}
        for x in ast.walk(f):
            if id(x) in ann:
                continue
            if isinstance(x, ast.Attribute) and isinstance(x.value, ast.Name) and x.value.id == 'self':
                if isinstance(x.ctx, ast.Load):
                    if x.attr in READ_OK or (x.attr == '_char_index' and False):
                        continue
                    if x.attr in methods and x.attr not in ('__init__',):
                        # a helper method: its own accesses are counted with the caller's
                        if x.attr not in ('_next_char',):
                            todo.append(x.attr)
                        continue
                    out['foreign_reads'].append(f'{name}:{x.lineno}: self.{x.attr}')
                else:
                    if x.attr not in WRITE_OK:
                        out['foreign_writes'].append(f'{name}:{x.lineno}: self.{x.attr}')
            elif isinstance(x, ast.AugAssign) and ast.unparse(x.target) == 'self._char_index':
                ok = isinstance(x.op, ast.Sub) and isinstance(x.value, ast.Constant) and x.value.value == 1
                if not ok:
                    out['foreign_writes'].append(f'{name}:{x.lineno}: {ast.unparse(x)[:60]}')
            elif isinstance(x, ast.Name) and isinstance(x.ctx, ast.Load) and x.id not in local and x.id != 'self' and x.id not in GLOBALS_OK:
                out['foreign_globals'].append(f'{name}:{x.lineno}: {x.id}')
        for x in ast.walk(f):
            if isinstance(x, ast.Assign):
                for t in x.targets:
                    if ast.unparse(t) == 'self._char_index':
                        out['foreign_writes'].append(f'{name}:{x.lineno}: {ast.unparse(x)[:60]}')
    tables = {'ESCAPES', '_OPERATORS', 'BARE_DISALLOWED', 'ESCAPES_INV'}
    defined: set[str] = set()
    for n in ast.walk(mod):
        tg: list[ast.expr] = []
        if isinstance(n, ast.Assign):
            tg = list(n.targets)
        elif isinstance(n, (ast.AnnAssign, ast.AugAssign)):
            tg = [n.target]
        elif isinstance(n, ast.Delete):
            tg = list(n.targets)
        for t in tg:
            base = t
            while isinstance(base, (ast.Subscript, ast.Attribute)):
                base = base.value
            if isinstance(base, ast.Name) and base.id in tables:
                if isinstance(t, ast.Name) and not isinstance(n, (ast.AugAssign, ast.Delete)) and t.id not in defined and n in mod.body:
                    defined.add(t.id)
                else:
                    out['table_mutation'].append(f'{n.lineno}: {ast.unparse(n)[:70]}')
        if isinstance(n, ast.Call) and isinstance(n.func, ast.Attribute) and isinstance(n.func.value, ast.Name) and n.func.value.id in tables \
                and n.func.attr in ('update', 'pop', 'popitem', 'clear', 'setdefault', 'add', 'discard', 'remove', '__setitem__', '__delitem__'):
            out['table_mutation'].append(f'{n.lineno}: {ast.unparse(n)[:70]}')
    return out


def _coq_strs(xs: list[str]) -> str:
    return '[' + '; '.join('[' + '; '.join(str(ord(c)) for c in x) + ']' for x in xs) + ']'


# ------------------------------------------------------------------------------------------------ output
def _b(x: bool) -> str:
    return 'true' if x else 'false'


def _atom(a: tuple) -> str:
    if a[0] == 'c1':
        return f'ACls {a[1]}'
    if a[0] == 'c2':
        return f'ACls2 {a[1]}'
    if a[0] == 'opt':
        return f'AOpt {a[1]}'
    return {'ops': 'AOps', 'bd': 'ABd', 'lcr': 'ALcr', 'line1': 'ALine1'}[a[0]]


def _coq(t: tuple, two: bool = False) -> str:
    """A tree as a Coq term; the part of the tree below the first query of the second character is wrapped in Read2."""
    if t[0] == 'leaf':
        _, reads, unread, dline, lcr, apps, code, a1, a2, _ = t
        s = f'Leaf ({_b(unread)}, {dline}, {lcr}, [{"; ".join(map(str, apps))}], {code}, {a1}, {a2})'
        return f'Read2 ({s})' if reads == 2 and not two else s
    _, a, y, n = t
    if a[0] == 'c2' and not two:
        return f'Read2 ({_coq(t, True)})'
    return f'Node ({_atom(a)}) ({_coq(y, two)}) ({_coq(n, two)})'


def _check_reads(t: tuple, role: int, two: bool = False) -> None:
    """Every leaf below a query of the second character has read two characters, every other leaf that has read two must not
    depend on it; the Read2 wrapping of _coq is then faithful."""
    if t[0] == 'leaf':
        if two and t[1] != 2:
            raise TranslateError(f'{ROLE_NAMES[role]}: the class of a second character is queried on a path that reads only one')
        return
    _check_reads(t[2], role, two or t[1][0] == 'c2')
    _check_reads(t[3], role, two or t[1][0] == 'c2')


def _show(t: tuple, depth: int = 0) -> list[str]:
    pad = '  ' * depth
    if t[0] == 'leaf':
        _, reads, unread, dline, lcr, apps, code, a1, a2, _ = t
        end = {0: 'next iteration', 1: f'return {TOKENS[a1] if a1 < len(TOKENS) else a1}, value mode {a2}', 2: 'return _OPERATORS[c], c',
               3: f'error site {a1} arg {a2}', 4: 'return self._handle_string()', 5: '_handle_comment() pattern',
               6: f'enter loop {ROLE_NAMES.get(a1, a1)} with buffer {a2}', 7: 'return None'}.get(code, str(code))
        return [pad + f'reads={reads} unread={unread} dline={dline} lcr={["keep", "True", "False"][lcr]} appends={list(apps)} -> {end}']
    _, a, y, n = t
    nm = (f'c{a[0][1]} is {CLASS_NAMES[a[1]]}' if a[0] in ('c1', 'c2') else OPTIONS[a[1]] if a[0] == 'opt' else a[0])
    return [pad + f'if {nm}:'] + _show(y, depth + 1) + [pad + 'else:'] + _show(n, depth + 1)


def translate() -> tuple[str, dict]:
    """The trees AND the state census.  When the tree executor fails closed (statement outside its language) invalid trees are
    written (side info `trees_failed_closed`), but the census - which needs no execution - is still produced, so that its named
    obligations are evaluated for exactly the code the executor could not follow."""
    try:
        trees = trees_of_source(src_text('tokenizer.py'))
    except TranslateError as e:
        cen = state_census(src_text('tokenizer.py'))
        return _empty(cen), {'state_census': cen, 'trees_failed_closed': str(e), 'segments': {}, 'leaves': 0}
    names = {0: 'gt_dispatch', 1: 'gt_brack', 2: 'gt_paren', 3: 'gt_directive', 4: 'gt_bare', 5: 'gt_star', 6: 'gt_line', 7: 'gt_cprefix'}
    lines = [
        '(* GENERATED by translate/c02_gettoken.py from /repo/src/srctools/tokenizer.py (Tokenizer._get_token, _handle_comment). Do not edit. *)',
        'From Coq Require Import NArith List.', 'From SV Require Import Text.GtTable.', 'Import ListNotations.', 'Open Scope N_scope.',
        '(* leaf: (push the last character back; line_num increments; _last_was_cr: 0 keep 1 True 2 False; appended: 1 LF, 2 the character,',
        '   3 its casefold, 4 the second character; end: 0 next iteration, 1 return token a1 with value mode a2 (0 empty, 1 the character, 2 LF,',
        '   3 the buffer), 2 return _OPERATORS[c], c, 3 error site a1 argument a2 (1 the character, 2 the start line), 4 _handle_string(),',
        '   5 the _handle_comment() pattern, 6 enter loop a1 with buffer a2 (0 empty, 1 the character, 2 none), 7 return None) *)',
    ]
    for r in range(8):
        _check_reads(trees[r], r)
        lines.append(f'Definition {names[r]} : tree :=\n  {_coq(trees[r])}.')
    cen = state_census(src_text('tokenizer.py'))
    lines.append('(* state census of _get_token / _handle_comment / _handle_string (texts as code points; every list must be empty): names bound to a')
    lines.append('   value in the body of class Tokenizer; self.<attr> read / written outside line_num, _last_was_cr, the options and the')
    lines.append('   reader; module-level names read other than the constant tables; parameter defaults; mutations of the constant tables;')
    lines.append('   st_cached_options: uses of an option in __init__ other than the store into the public attribute of the same name, options that')
    lines.append('   are not plain instance attributes (see option_census) *)')
    for k in CENSUS_KEYS:
        lines.append(f'Definition st_{k} : list (list N) := {_coq_strs(cen[k])}.')
    lines.append('')
    side = {'state_census': cen, 'segments': {ROLE_NAMES[r]: {'leaves': sum(1 for _ in _leaves(trees[r])), 'tree': _show(trees[r])} for r in range(8)},
            'leaves': sum(1 for r in range(8) for _ in _leaves(trees[r]))}
    return '\n'.join(lines), side


def _empty(cen: dict[str, list[str]] | None = None) -> str:
    names = ['gt_dispatch', 'gt_brack', 'gt_paren', 'gt_directive', 'gt_bare', 'gt_star', 'gt_line', 'gt_cprefix']
    if cen is not None:
        return ('(* GENERATED by translate/c02_gettoken.py: the tree executor FAILED CLOSED; invalid trees, real state census. *)\n'
                'From Coq Require Import NArith List.\nFrom SV Require Import Text.GtTable.\nImport ListNotations.\nOpen Scope N_scope.\n'
                + ''.join(f'Definition {n} : tree := Leaf (false, 0, 0, [], 9, 0, 0).\n' for n in names)
                + ''.join(f'Definition st_{k} : list (list N) := {_coq_strs(cen[k])}.\n' for k in CENSUS_KEYS))
    return ('(* GENERATED by translate/c02_gettoken.py: the translator FAILED CLOSED; invalid trees. *)\n'
            'From Coq Require Import NArith List.\nFrom SV Require Import Text.GtTable.\nImport ListNotations.\nOpen Scope N_scope.\n'
            + ''.join(f'Definition {n} : tree := Leaf (false, 0, 0, [], 9, 0, 0).\n' for n in names)
            + ''.join(f'Definition st_{k} : list (list N) := [[63]].\n'
                      for k in CENSUS_KEYS))


EMPTY_GEN = _empty()
GEN = {'GtTrees_gen': translate}
