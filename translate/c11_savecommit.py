"""C11 translator, part: what save() leaves behind when a writer raises (Fmt/BspSaveCommit.v).

save() rebuilds every parsed view in a loop over LUMP_REBUILD_ORDER: it takes the view out of the cache `_parsed_lumps`, calls the
writer (which raises when a value does not fit its field - the property demands that), and stores the bytes in the lump.  The
view's raw data was cleared when the view was assigned, so between "taken out of the cache" and "bytes stored" the content exists
nowhere else: a writer that raises in that window loses the whole view, and a second save() writes an empty lump without any error.

Read from the loop body, in execution order (try body, then its else; both branches of an if must do the same to the cache and the
lump or nothing at all): the sequence of events
    EvDrop   the view leaves the cache (`_parsed_lumps.pop(k)`, `del _parsed_lumps[k]`)
    EvRaise  a statement that can raise because of the VALUE (the writer call, consuming its generator, `raise`, any call that is
             not one of a few harmless ones)
    EvStore  the bytes are stored in `self.lumps[k].data` / `self.game_lumps[k].data`
Fail-closed: any other statement that touches the cache or a lump's data.
"""
from __future__ import annotations

import ast
from typing import Any

from harness.common import TranslateError

HARMLESS_CALLS = {'isinstance', 'inspect.isgenerator', 'BytesIO', 'io.BytesIO', 'len', 'bytes'}
HARMLESS_METHODS = {'write', 'getvalue'}


def _is_cache(e: ast.AST) -> bool:
    return isinstance(e, ast.Attribute) and e.attr == '_parsed_lumps' and isinstance(e.value, ast.Name) and e.value.id == 'self'


def _is_lump_data(t: ast.AST) -> bool:
    return isinstance(t, ast.Attribute) and t.attr == 'data' and isinstance(t.value, ast.Subscript) \
        and ast.unparse(t.value.value) in ('self.lumps', 'self.game_lumps')


def _expr_events(e: ast.AST, where: str) -> list[str]:
    out: list[str] = []
    for n in ast.walk(e):
        if isinstance(n, ast.Call):
            f = ast.unparse(n.func)
            if isinstance(n.func, ast.Attribute) and n.func.attr == 'pop' and _is_cache(n.func.value):
                out.append('EvDrop')
            elif isinstance(n.func, ast.Attribute) and n.func.attr in ('get', '__contains__', 'keys') and _is_cache(n.func.value):
                pass        # a look at the cache
            elif isinstance(n.func, ast.Attribute) and _is_cache(n.func.value):
                raise TranslateError(f'{where}: line {n.lineno}: call of _parsed_lumps.{n.func.attr} not recognised')
            elif f in HARMLESS_CALLS or (isinstance(n.func, ast.Attribute) and n.func.attr in HARMLESS_METHODS):
                pass
            else:
                out.append('EvRaise')
    return out


def events(body: list[ast.stmt], where: str) -> list[str]:
    out: list[str] = []
    for st in body:
        if isinstance(st, (ast.Pass, ast.Continue)) or (isinstance(st, ast.Expr) and isinstance(st.value, ast.Constant)):
            continue        # (`continue`: this view is done - the path that goes on is the one described)
        if isinstance(st, (ast.Assign, ast.AnnAssign)):
            if st.value is not None:
                out += _expr_events(st.value, where)
            for t in (st.targets if isinstance(st, ast.Assign) else [st.target]):
                if _is_lump_data(t):
                    out.append('EvStore')
                elif any(_is_cache(x) for x in ast.walk(t)):
                    raise TranslateError(f'{where}: line {st.lineno}: the loop stores into _parsed_lumps')
                elif any(isinstance(x, ast.Attribute) and x.attr == 'data' for x in ast.walk(t)):
                    raise TranslateError(f'{where}: line {st.lineno}: store into {ast.unparse(t)[:50]} not recognised')
            continue
        if isinstance(st, ast.Delete):
            for t in st.targets:
                if isinstance(t, ast.Subscript) and _is_cache(t.value):
                    out.append('EvDrop')
                else:
                    raise TranslateError(f'{where}: line {st.lineno}: del {ast.unparse(t)[:50]} not recognised')
            continue
        if isinstance(st, ast.Expr):
            out += _expr_events(st.value, where)
            continue
        if isinstance(st, ast.Raise):
            out.append('EvRaise')
            continue
        if isinstance(st, ast.Try) and not st.finalbody:
            for h in st.handlers:
                if events(h.body, where):
                    raise TranslateError(f'{where}: line {h.lineno}: an except handler touches the cache, the lump or may raise')
            out += events(st.body, where) + events(st.orelse, where)
            continue
        if isinstance(st, ast.If):
            a = _expr_events(st.test, where) + events(st.body, where)
            b = _expr_events(st.test, where) + events(st.orelse, where)
            if a == b:
                out += a
            elif not ({'EvDrop', 'EvStore'} & set(a + b)):
                out.append('EvRaise')       # one of the branches may raise
            else:
                raise TranslateError(f'{where}: line {st.lineno}: the branches of an if treat the cache / the lump differently')
            continue
        if isinstance(st, ast.For) and not st.orelse:
            inner = events(st.body, where)
            if {'EvDrop', 'EvStore'} & set(inner):
                raise TranslateError(f'{where}: line {st.lineno}: a nested loop drops the view or stores the lump')
            out.append('EvRaise')           # iterating may run the writer's generator
            continue
        raise TranslateError(f'{where}: line {st.lineno}: statement {type(st).__name__} not recognised')
    # consecutive duplicates carry no information
    sq: list[str] = []
    for e in out:
        if not sq or sq[-1] != e or e != 'EvRaise':
            sq.append(e)
    return sq


def generate(raw_tree: ast.Module) -> tuple[str, dict[str, Any]]:
    bsp_cls = next((n for n in raw_tree.body if isinstance(n, ast.ClassDef) and n.name == 'BSP'), None)
    if bsp_cls is None:
        raise TranslateError('class BSP not found')
    fn = next((f for f in bsp_cls.body if isinstance(f, ast.FunctionDef) and f.name == 'save'), None)
    if fn is None:
        raise TranslateError('BSP.save not found')
    loops = [n for n in ast.walk(fn) if isinstance(n, ast.For) and any(isinstance(x, ast.Name) and x.id == 'LUMP_REBUILD_ORDER' for x in ast.walk(n.iter))]
    if len(loops) != 1:
        raise TranslateError(f'save(): {len(loops)} loops over LUMP_REBUILD_ORDER (a rebuild in several passes is not modelled)')
    evs = events(loops[0].body, 'save()')
    if any(_is_cache(x) and not any(x is y for lp in loops for y in ast.walk(lp)) for x in ast.walk(fn)):
        raise TranslateError('save(): _parsed_lumps is used outside the rebuild loop')
    text = '\n'.join(['(* save(): what the rebuild loop does with one view, in execution order (translate/c11_savecommit.py) *)',
                      'Definition save_events : list sc_event := [' + '; '.join(evs) + '].'])
    return text, {'save_events': evs}
