"""C06 round 4: "IDs are preserved when asked" -- the ID managers of a VMF read from vmf.py.

Gen/VmfIds_gen.v holds
  * gen_id_managers: every attribute VMF.__init__ fills with an ID manager (an instance of a class that has a get_id method), with
    the class it gets when preserve_ids is true and when it is false (VMF.__init__ is executed symbolically in both worlds);
  * gen_id_classes: for each of those classes the body of its get_id method (resolved through the base classes of the module),
    executed symbolically into a decision list over the requested ID (Fmt/VmfIds.v: idprog): one entry per path, with the
    path condition (comparisons of `desired` with integer constants, and/or/not; anything else is one opaque condition) and
    whether the path returns `desired` itself or anything else;  `super().get_id(desired)` is inlined;
  * gen_id_sites: every call  <...>.<manager attribute>.get_id(x)  of the module with the method it is in and whether the
    statement stores the answer (possibly through str());
  * gen_parse_passes_preserve: VMF.parse constructs the map with preserve_ids=<its own parameter>.
Fail-closed: statement and expression shapes that are not understood raise TranslateError."""
from __future__ import annotations

import ast
from typing import Any

from harness.common import TranslateError, src_text

CMP = {ast.Eq: 'CEq', ast.NotEq: 'CNe', ast.Lt: 'CLt', ast.LtE: 'CLe', ast.Gt: 'CGt', ast.GtE: 'CGe'}
FLIP = {'CEq': 'CEq', 'CNe': 'CNe', 'CLt': 'CGt', 'CLe': 'CGe', 'CGt': 'CLt', 'CGe': 'CLe'}


def _int_const(e: ast.AST) -> int | None:
    if isinstance(e, ast.Constant) and isinstance(e.value, int) and not isinstance(e.value, bool):
        return e.value
    if isinstance(e, ast.UnaryOp) and isinstance(e.op, ast.USub):
        v = _int_const(e.operand)
        return None if v is None else -v
    return None


class IdProg:
    """Symbolic execution of one get_id method."""

    def __init__(self, classes: dict[str, ast.ClassDef], consts: dict[str, int]) -> None:
        self.classes = classes
        self.consts = consts
        self.opaque: dict[str, str] = {}        # ast dump -> source text of the (single) opaque condition

    def method(self, cname: str) -> tuple[str, ast.FunctionDef]:
        """get_id of a class, looked up through its bases (classes of this module only)."""
        seen = set()
        while cname in self.classes and cname not in seen:
            seen.add(cname)
            c = self.classes[cname]
            for m in c.body:
                if isinstance(m, ast.FunctionDef) and m.name == 'get_id':
                    return cname, m
            bases = [b.id for b in c.bases if isinstance(b, ast.Name) and b.id in self.classes]
            if len(bases) != 1:
                break
            cname = bases[0]
        raise TranslateError(f'no get_id method found for class {cname}')

    def guard(self, e: ast.AST, var: str) -> str:
        if isinstance(e, ast.BoolOp):
            parts = [self.guard(v, var) for v in e.values]
            op = 'GAnd' if isinstance(e.op, ast.And) else 'GOr'
            out = parts[-1]
            for p in reversed(parts[:-1]):
                out = f'({op} {p} {out})'
            return out
        if isinstance(e, ast.UnaryOp) and isinstance(e.op, ast.Not):
            return f'(GNot {self.guard(e.operand, var)})'
        if isinstance(e, ast.Constant) and isinstance(e.value, bool):
            return 'GTrue' if e.value else '(GNot GTrue)'
        if isinstance(e, ast.Compare) and len(e.ops) == 1 and type(e.ops[0]) in CMP:
            l, r = e.left, e.comparators[0]
            lc = self.const_of(l)
            rc = self.const_of(r)
            if isinstance(l, ast.Name) and l.id == var and rc is not None:
                return f'(GCmp {CMP[type(e.ops[0])]} ({rc}))'
            if isinstance(r, ast.Name) and r.id == var and lc is not None:
                return f'(GCmp {FLIP[CMP[type(e.ops[0])]]} ({lc}))'
        if isinstance(e, ast.Compare) and len(e.ops) == 2 and all(type(o) in (ast.Lt, ast.LtE) for o in e.ops):
            # a < desired <= b
            return self.guard(ast.BoolOp(op=ast.And(), values=[
                ast.Compare(left=e.left, ops=[e.ops[0]], comparators=[e.comparators[0]]),
                ast.Compare(left=e.comparators[0], ops=[e.ops[1]], comparators=[e.comparators[1]])]), var)
        # anything else: one opaque condition (the obligations must hold whatever its outcome)
        key = ast.dump(e)
        self.opaque.setdefault(key, ast.unparse(e))
        if len(self.opaque) > 1:
            raise TranslateError(f'get_id: more than one condition that is not a comparison of the requested ID with a constant: '
                                 f'{sorted(self.opaque.values())}')
        return 'GOpaque'

    def const_of(self, e: ast.AST) -> int | None:
        v = _int_const(e)
        if v is None and isinstance(e, ast.Name) and e.id in self.consts:
            return self.consts[e.id]
        return v

    def run(self, cname: str, depth: int = 0) -> list[tuple[str, str]]:
        """[(path condition, AKeep | AOther)] of get_id of class `cname`, the requested ID being the first parameter."""
        if depth > 4:
            raise TranslateError('get_id: super() chain too deep')
        owner, fn = self.method(cname)
        a = fn.args
        params = [x.arg for x in a.posonlyargs + a.args]
        if len(params) != 2 or a.vararg or a.kwarg or a.kwonlyargs:
            raise TranslateError(f'{owner}.get_id: expected (self, desired), got {params}')
        var = params[1]
        if a.defaults and _int_const(a.defaults[-1]) != -1:
            raise TranslateError(f'{owner}.get_id: the default of {var} is not -1')
        paths: list[tuple[str, str]] = []

        def conj(c: list[str]) -> str:
            if not c:
                return 'GTrue'
            out = c[-1]
            for p in reversed(c[:-1]):
                out = f'(GAnd {p} {out})'
            return out

        def ret(e: ast.AST | None, cond: list[str]) -> None:
            if isinstance(e, ast.Name) and e.id == var:
                paths.append((conj(cond), 'AKeep'))
                return
            if (isinstance(e, ast.Call) and isinstance(e.func, ast.Attribute) and e.func.attr == 'get_id'
                    and isinstance(e.func.value, ast.Call) and isinstance(e.func.value.func, ast.Name) and e.func.value.func.id == 'super'):
                args = list(e.args) + [k.value for k in e.keywords]
                if len(args) == 1 and isinstance(args[0], ast.Name) and args[0].id == var:
                    bases = [b.id for b in self.classes[owner].bases if isinstance(b, ast.Name) and b.id in self.classes]
                    if len(bases) != 1:
                        raise TranslateError(f'{owner}.get_id: super() with bases {bases}')
                    for g, act in self.run(bases[0], depth + 1):
                        paths.append((conj(cond + [g]), act))
                    return
            if e is not None and any(isinstance(n, ast.Name) and n.id == var for n in ast.walk(e)) and not (
                    isinstance(e, ast.Call) and isinstance(e.func, ast.Attribute) and e.func.attr == 'get_id'):
                # an expression of the requested ID that is not the ID itself (desired + 1, abs(desired), ...)
                paths.append((conj(cond), 'AOther'))
                return
            paths.append((conj(cond), 'AOther'))

        def block(stmts: list[ast.stmt], cond: list[str]) -> bool:
            """Returns True when every path through the statements has returned."""
            for i, s in enumerate(stmts):
                if isinstance(s, ast.Return):
                    ret(s.value, cond)
                    return True
                if isinstance(s, ast.If):
                    g = self.guard(s.test, var)
                    d1 = block(s.body, cond + [g])
                    d2 = block(s.orelse, cond + [f'(GNot {g})'])
                    if d1 and d2:
                        return True
                    if d1:
                        cond = cond + [f'(GNot {g})']
                    elif d2:
                        cond = cond + [g]
                    elif s.body or s.orelse:
                        # neither branch returns: the branches may only do bookkeeping (no assignment to the requested ID)
                        for n in ast.walk(s):
                            if isinstance(n, (ast.Assign, ast.AugAssign, ast.AnnAssign)) and any(
                                    isinstance(x, ast.Name) and x.id == var for t in (n.targets if isinstance(n, ast.Assign) else [n.target])
                                    for x in ast.walk(t)):
                                raise TranslateError(f'{owner}.get_id: the requested ID is reassigned')
                    continue
                if isinstance(s, (ast.Assign, ast.AugAssign, ast.AnnAssign)):
                    tg = s.targets if isinstance(s, ast.Assign) else [s.target]
                    if any(isinstance(x, ast.Name) and x.id == var for t in tg for x in ast.walk(t) if isinstance(t, (ast.Name, ast.Tuple, ast.List))):
                        raise TranslateError(f'{owner}.get_id: the requested ID is reassigned')
                    continue
                if isinstance(s, (ast.Expr, ast.Pass, ast.Assert)):
                    continue
                if isinstance(s, (ast.While, ast.For)):
                    for n in ast.walk(s):
                        if isinstance(n, ast.Return) and n.value is not None and any(isinstance(x, ast.Name) and x.id == var for x in ast.walk(n.value)):
                            raise TranslateError(f'{owner}.get_id: a loop returns an expression of the requested ID')
                        if isinstance(n, (ast.Assign, ast.AugAssign)) and any(
                                isinstance(x, ast.Name) and x.id == var for t in (n.targets if isinstance(n, ast.Assign) else [n.target]) for x in ast.walk(t)):
                            raise TranslateError(f'{owner}.get_id: the requested ID is reassigned in a loop')
                    forever = isinstance(s, ast.While) and isinstance(s.test, ast.Constant) and s.test.value is True
                    if forever:
                        paths.append((conj(cond), 'AOther'))     # whatever the search loop hands out, it is not "the ID as requested"
                        return True
                    continue
                raise TranslateError(f'{owner}.get_id: statement {type(s).__name__} not understood')
            return False
        if not block(fn.body, []):
            paths.append(('GTrue', 'AOther'))        # falls off the end: returns None
        return paths


def _classes(tree: ast.Module) -> dict[str, ast.ClassDef]:
    return {n.name: n for n in tree.body if isinstance(n, ast.ClassDef)}


def _has_get_id(classes: dict[str, ast.ClassDef], name: str) -> bool:
    seen = set()
    while name in classes and name not in seen:
        seen.add(name)
        c = classes[name]
        if any(isinstance(m, ast.FunctionDef) and m.name == 'get_id' for m in c.body):
            return True
        bases = [b.id for b in c.bases if isinstance(b, ast.Name) and b.id in classes]
        if len(bases) != 1:
            return False
        name = bases[0]
    return False


def managers(classes: dict[str, ast.ClassDef], flag: str = 'preserve_ids') -> dict[str, tuple[str, str]]:
    """attribute of VMF -> (class under preserve_ids, class otherwise), by executing VMF.__init__ in both worlds."""
    vmf = classes.get('VMF')
    init = next((m for m in (vmf.body if vmf else []) if isinstance(m, ast.FunctionDef) and m.name == '__init__'), None)
    if init is None:
        raise TranslateError('VMF.__init__ not found')
    if flag not in [a.arg for a in init.args.args + init.args.kwonlyargs]:
        raise TranslateError(f'VMF.__init__ has no parameter {flag}')

    def world(val: bool) -> dict[str, str]:
        env: dict[str, Any] = {}            # local -> ('cls', name) | ('inst', name) | ('bool', b)
        out: dict[str, str] = {}

        def ev(e: ast.AST) -> Any:
            if isinstance(e, ast.Name):
                if e.id == flag:
                    return ('bool', val)
                if e.id in env:
                    return env[e.id]
                if e.id in classes and _has_get_id(classes, e.id):
                    return ('cls', e.id)
                return None
            if isinstance(e, ast.UnaryOp) and isinstance(e.op, ast.Not):
                v = ev(e.operand)
                return ('bool', not v[1]) if v and v[0] == 'bool' else None
            if isinstance(e, ast.Call) and isinstance(e.func, ast.Name) and e.func.id == 'bool' and len(e.args) == 1:
                return ev(e.args[0])
            if isinstance(e, ast.IfExp):
                t = ev(e.test)
                if t and t[0] == 'bool':
                    return ev(e.body if t[1] else e.orelse)
                a, b = ev(e.body), ev(e.orelse)
                if a and a == b:
                    return a
                if (a and a[0] in ('cls', 'inst')) or (b and b[0] in ('cls', 'inst')):
                    raise TranslateError(f'VMF.__init__: ID manager chosen by a condition that is not {flag}: {ast.unparse(e)}')
                return None
            if isinstance(e, ast.Call):
                f = ev(e.func)
                if f and f[0] == 'cls':
                    return ('inst', f[1])
                return None
            return None

        def run(stmts: list[ast.stmt]) -> None:
            for s in stmts:
                if isinstance(s, ast.If):
                    t = ev(s.test)
                    if t and t[0] == 'bool':
                        run(s.body if t[1] else s.orelse)
                    else:
                        before = dict(out)
                        run(s.body)
                        run(s.orelse)
                        if out != before:
                            raise TranslateError(f'VMF.__init__: an ID manager is assigned under a condition that is not {flag}')
                    continue
                if isinstance(s, (ast.Assign, ast.AnnAssign)) and s.value is not None:
                    v = ev(s.value)
                    for t in (s.targets if isinstance(s, ast.Assign) else [s.target]):
                        if isinstance(t, ast.Name):
                            if v is None:
                                env.pop(t.id, None)
                            else:
                                env[t.id] = v
                        elif isinstance(t, ast.Attribute) and isinstance(t.value, ast.Name) and t.value.id == 'self':
                            if v and v[0] == 'inst':
                                out[t.attr] = v[1]
                            elif t.attr in out:
                                raise TranslateError(f'VMF.__init__: self.{t.attr} reassigned to something that is not an ID manager')
                    continue
                if isinstance(s, (ast.For, ast.While, ast.With, ast.Try)):
                    before = dict(out)
                    for fld in ('body', 'orelse', 'finalbody'):
                        run(getattr(s, fld, []) or [])
                    if out != before:
                        raise TranslateError('VMF.__init__: an ID manager is assigned inside a loop / with / try')
        run(init.body)
        return out
    wt, wf = world(True), world(False)
    if set(wt) != set(wf):
        raise TranslateError(f'VMF.__init__: different manager attributes in the two worlds: {sorted(set(wt) ^ set(wf))}')
    return {a: (wt[a], wf[a]) for a in wt}


def sites(tree: ast.Module, attrs: set[str]) -> list[tuple[str, str, bool]]:
    out: list[tuple[str, str, bool]] = []
    for c in tree.body:
        if not isinstance(c, ast.ClassDef):
            continue
        for m in c.body:
            if not isinstance(m, ast.FunctionDef):
                continue
            for st in ast.walk(m):
                if not isinstance(st, ast.stmt) or isinstance(st, (ast.FunctionDef, ast.If, ast.For, ast.While, ast.With, ast.Try)):
                    continue
                for n in ast.walk(st):
                    if (isinstance(n, ast.Call) and isinstance(n.func, ast.Attribute) and n.func.attr == 'get_id'
                            and isinstance(n.func.value, ast.Attribute) and n.func.value.attr in attrs):
                        args = list(n.args) + [k.value for k in n.keywords]
                        plain = len(args) == 1      # which ID is handed over is the object-level table's business (key id -> attribute id)
                        stored = False
                        if isinstance(st, ast.Assign) and len(st.targets) == 1 and isinstance(st.targets[0], (ast.Attribute, ast.Subscript)):
                            v = st.value
                            if v is n or (isinstance(v, ast.Call) and isinstance(v.func, ast.Name) and v.func.id == 'str'
                                          and len(v.args) == 1 and v.args[0] is n):
                                stored = True
                        out.append((f'{c.name}.{m.name}', n.func.value.attr, bool(plain and stored)))
    return out


def parse_passes_flag(classes: dict[str, ast.ClassDef], flag: str = 'preserve_ids') -> bool:
    vmf = classes.get('VMF')
    parse = next((m for m in (vmf.body if vmf else []) if isinstance(m, ast.FunctionDef) and m.name == 'parse'), None)
    if parse is None:
        raise TranslateError('VMF.parse not found')
    if flag not in [a.arg for a in parse.args.args + parse.args.kwonlyargs]:
        raise TranslateError(f'VMF.parse has no parameter {flag}')
    init = next(m for m in vmf.body if isinstance(m, ast.FunctionDef) and m.name == '__init__')
    pos = [a.arg for a in init.args.args][1:]
    # single-assignment locals that are just the parameter
    same = {flag}
    for n in ast.walk(parse):
        if isinstance(n, ast.Assign) and len(n.targets) == 1 and isinstance(n.targets[0], ast.Name):
            if n.targets[0].id == flag:
                raise TranslateError(f'VMF.parse reassigns {flag}')
            if isinstance(n.value, ast.Name) and n.value.id in same:
                same.add(n.targets[0].id)
    found = []
    for n in ast.walk(parse):
        if isinstance(n, ast.Call) and isinstance(n.func, ast.Name) and n.func.id in ('VMF', 'cls'):
            val = next((k.value for k in n.keywords if k.arg == flag), None)
            if val is None and flag in pos and len(n.args) > pos.index(flag):
                val = n.args[pos.index(flag)]
            found.append(isinstance(val, ast.Name) and val.id in same)
    if not found:
        raise TranslateError('VMF.parse: no constructor call of the map found')
    return all(found)


def analyse_ids() -> dict:
    tree = ast.parse(src_text('vmf.py'))
    classes = _classes(tree)
    consts = {}
    for n in tree.body:
        if isinstance(n, ast.Assign) and len(n.targets) == 1 and isinstance(n.targets[0], ast.Name) and _int_const(n.value) is not None:
            consts[n.targets[0].id] = _int_const(n.value)
    mans = managers(classes)
    if not mans:
        raise TranslateError('VMF.__init__ assigns no ID manager')
    progs: dict[str, list[tuple[str, str]]] = {}
    opaque: dict[str, list[str]] = {}
    for cp, cd in mans.values():
        for cname in (cp, cd):
            if cname not in progs:
                ip = IdProg(classes, consts)
                progs[cname] = ip.run(cname)
                opaque[cname] = sorted(ip.opaque.values())
    st = sites(tree, set(mans))
    return {'managers': mans, 'programs': progs, 'opaque': opaque, 'sites': st, 'parse_passes': parse_passes_flag(classes)}


def _cs(s: str) -> str:
    return '"' + s.replace('"', '""') + '"'


def gen_ids() -> tuple[str, dict]:
    r = analyse_ids()
    lines = ['(* generated by translate/c06_ids.py from vmf.py -- do not edit *)',
             'From Coq Require Import List String ZArith.', 'From SV Require Import Fmt.VmfIds.', 'Import ListNotations.',
             'Open Scope string_scope.', 'Open Scope Z_scope.', '']
    cl = []
    for c, prog in sorted(r['programs'].items()):
        cl.append(f'({_cs(c)}, [' + '; '.join(f'({g}, {a})' for g, a in prog) + '])')
    lines.append('Definition gen_id_classes : list (string * idprog) :=\n  [' + ';\n   '.join(cl) + '].')
    lines.append('Definition gen_id_managers : list idman :=\n  [' + ';\n   '.join(
        f'mk_idman {_cs(a)} {_cs(p)} {_cs(d)}' for a, (p, d) in sorted(r['managers'].items())) + '].')
    lines.append('Definition gen_id_sites : list idsite :=\n  [' + ';\n   '.join(
        f'mk_idsite {_cs(m)} {_cs(a)} {"true" if ok else "false"}' for m, a, ok in r['sites']) + '].')
    lines.append(f'Definition gen_parse_passes_preserve : bool := {"true" if r["parse_passes"] else "false"}.')
    side = {'managers': {a: list(v) for a, v in r['managers'].items()}, 'programs': {c: [list(x) for x in p] for c, p in r['programs'].items()},
            'opaque': r['opaque'], 'sites': [list(s) for s in r['sites']], 'parse_passes': r['parse_passes']}
    return '\n'.join(lines) + '\n', side


# ------------------------------------------------------------------------------------------------ membership sets
SET_WORDS = ('set[', 'Set[', 'MutableSet', 'AbstractSet', 'frozenset')


def set_attrs(cls: ast.ClassDef) -> set[str]:
    """Attributes of a class annotated as a set (class body, or `self.x: set[...] = ...` in __init__), or assigned `set(...)` in __init__."""
    out: set[str] = set()
    for n in ast.walk(cls):
        if isinstance(n, ast.AnnAssign) and any(w in ast.unparse(n.annotation) for w in SET_WORDS):
            t = n.target
            if isinstance(t, ast.Name):
                out.add(t.id)
            elif isinstance(t, ast.Attribute) and isinstance(t.value, ast.Name) and t.value.id == 'self':
                out.add(t.attr)
        elif isinstance(n, ast.Assign) and isinstance(n.value, ast.Call) and isinstance(n.value.func, ast.Name) and n.value.func.id in ('set', 'frozenset'):
            for t in n.targets:
                if isinstance(t, ast.Attribute) and isinstance(t.value, ast.Name) and t.value.id == 'self':
                    out.add(t.attr)
    return out


def member_loops(tree: ast.Module) -> list[tuple[str, str, bool]]:
    """Every loop / comprehension of an export method whose iterable mentions a set-typed attribute of self:
    (method, attribute, the iterable is sorted(<...self.attr...>) without a key that could tie)."""
    out: list[tuple[str, str, bool]] = []
    for c in tree.body:
        if not isinstance(c, ast.ClassDef):
            continue
        sets = set_attrs(c)
        if not sets:
            continue
        for m in c.body:
            if not (isinstance(m, ast.FunctionDef) and (m.name == 'export' or m.name.startswith('_export'))):
                continue
            # single-assignment locals: name -> expression
            loc: dict[str, ast.AST] = {}
            cnt: dict[str, int] = {}
            for n in ast.walk(m):
                if isinstance(n, ast.Assign) and len(n.targets) == 1 and isinstance(n.targets[0], ast.Name):
                    cnt[n.targets[0].id] = cnt.get(n.targets[0].id, 0) + 1
                    loc[n.targets[0].id] = n.value

            def resolve(e: ast.AST, depth: int = 0) -> ast.AST:
                if isinstance(e, ast.Name) and cnt.get(e.id) == 1 and depth < 4:
                    return resolve(loc[e.id], depth + 1)
                return e
            iters = [n.iter for n in ast.walk(m) if isinstance(n, (ast.For, ast.comprehension))]
            for it in iters:
                it = resolve(it)
                attrs = {x.attr for x in ast.walk(it) if isinstance(x, ast.Attribute) and isinstance(x.value, ast.Name)
                         and x.value.id == 'self' and x.attr in sets}
                for x in list(ast.walk(it)):
                    if isinstance(x, ast.Name) and cnt.get(x.id) == 1:
                        r = resolve(x)
                        attrs |= {y.attr for y in ast.walk(r) if isinstance(y, ast.Attribute) and isinstance(y.value, ast.Name)
                                  and y.value.id == 'self' and y.attr in sets}
                if not attrs:
                    continue
                canonical = (isinstance(it, ast.Call) and isinstance(it.func, ast.Name) and it.func.id == 'sorted'
                             and len(it.args) == 1 and all(k.arg == 'reverse' and isinstance(k.value, ast.Constant) for k in it.keywords))
                for a in sorted(attrs):
                    out.append((f'{c.name}.{m.name}', a, bool(canonical)))
    return out


def gen_sets() -> tuple[str, dict]:
    tree = ast.parse(src_text('vmf.py'))
    loops = member_loops(tree)
    lines = ['(* generated by translate/c06_ids.py from vmf.py -- do not edit *)',
             'From Coq Require Import List String.', 'From SV Require Import Fmt.VmfSets.', 'Import ListNotations.', 'Open Scope string_scope.', '',
             'Definition gen_member_loops : list memberloop :=\n  [' + ';\n   '.join(
                 f'mk_memberloop {_cs(m)} {_cs(a)} {"true" if ok else "false"}' for m, a, ok in loops) + '].']
    return '\n'.join(lines) + '\n', {'loops': [list(x) for x in loops]}


# ------------------------------------------------------------------------------------------------ 2D viewport axis
AXES = {'x': 'AX', 'y': 'AY', 'z': 'AZ'}


def _intval(e: ast.AST) -> int | None:
    if isinstance(e, ast.Constant) and isinstance(e.value, (int, float)) and not isinstance(e.value, bool) and float(e.value) == int(e.value):
        return int(e.value)
    if isinstance(e, ast.UnaryOp) and isinstance(e.op, ast.USub):
        v = _intval(e.operand)
        return None if v is None else -v
    return None


def gen_viewport() -> tuple[str, dict]:
    import re
    tree = ast.parse(src_text('vmf.py'))
    cls = _classes(tree).get('Strata2DViewport')
    if cls is None:
        raise TranslateError('class Strata2DViewport not found')
    exp = next((m for m in cls.body if isinstance(m, ast.FunctionDef) and m.name == 'export'), None)
    rd = next((m for m in cls.body if isinstance(m, ast.FunctionDef) and m.name == 'from_vector'), None)
    if exp is None or rd is None:
        raise TranslateError('Strata2DViewport.export / from_vector not found')
    # writer: the "position" template under each  self.axis == '<a>'  test
    tbl: dict[str, list[str]] = {}

    def template(js: ast.JoinedStr) -> str:
        out = ''
        for v in js.values:
            if isinstance(v, ast.Constant):
                out += str(v.value)
            else:
                names = {x.attr for x in ast.walk(v.value) if isinstance(x, ast.Attribute) and isinstance(x.value, ast.Name) and x.value.id == 'self'}
                if names == {'u'}:
                    out += '\x00U'
                elif names == {'v'}:
                    out += '\x00V'
                else:
                    out += '\x00?'
        return out

    def walk_if(n: ast.If) -> None:
        t = n.test
        ok = (isinstance(t, ast.Compare) and len(t.ops) == 1 and isinstance(t.ops[0], ast.Eq) and ast.unparse(t.left) == 'self.axis'
              and isinstance(t.comparators[0], ast.Constant) and t.comparators[0].value in AXES)
        if not ok:
            raise TranslateError(f'Strata2DViewport.export: test {ast.unparse(t)} not understood')
        axis = t.comparators[0].value
        for st in n.body:
            for js in [x for x in ast.walk(st) if isinstance(x, ast.JoinedStr)]:
                tpl = template(js)
                # the line itself, or a local holding the parenthesised triple that a later "position" line interpolates
                m = re.search(r'"position" "\((.*?)\)"', tpl) or re.fullmatch(r'\(([^()]* [^()]* [^()]*)\)', tpl)
                if m:
                    parts = m.group(1).split(' ')
                    if len(parts) != 3 or axis in tbl:
                        raise TranslateError(f'Strata2DViewport.export: position template of axis {axis}: {m.group(1)!r}')
                    sl = []
                    for p in parts:
                        if p == '\x00U':
                            sl.append('SU')
                        elif p == '\x00V':
                            sl.append('SV')
                        else:
                            try:
                                f = float(p)
                            except ValueError:
                                raise TranslateError(f'Strata2DViewport.export: slot {p!r} of axis {axis}')
                            if f != int(f):
                                raise TranslateError(f'Strata2DViewport.export: marker {p!r} is not integral')
                            sl.append(f'(SMark ({int(f)}))')
                    tbl[axis] = sl
        if len(n.orelse) == 1 and isinstance(n.orelse[0], ast.If):
            walk_if(n.orelse[0])
        elif n.orelse:
            raise TranslateError('Strata2DViewport.export: else branch of the axis chain not understood')
    for st in exp.body:
        if isinstance(st, ast.If):
            walk_if(st)
    if set(tbl) != set(AXES):
        raise TranslateError(f'Strata2DViewport.export: position templates found for axes {sorted(tbl)}')
    # reader: the tiers of marker values
    tiers = None
    for n in ast.walk(rd):
        if isinstance(n, ast.For) and isinstance(n.iter, (ast.List, ast.Tuple)) and all(isinstance(e, (ast.Tuple, ast.List)) for e in n.iter.elts):
            tt = [[_intval(x) for x in e.elts] for e in n.iter.elts]
            if all(v is not None for t in tt for v in t):
                if tiers is not None:
                    raise TranslateError('Strata2DViewport.from_vector: two loops over marker tiers')
                tiers = tt
    if tiers is None:
        raise TranslateError('Strata2DViewport.from_vector: no loop over a literal list of marker tuples found')
    # the axes u and v are read from: the table the method indexes with the chosen axis, and the constructor call
    ret = [n for n in ast.walk(rd) if isinstance(n, ast.Return) and isinstance(n.value, ast.Call)]
    unp = [n for n in ast.walk(rd) if isinstance(n, ast.Assign) and isinstance(n.targets[0], ast.Tuple) and len(n.targets[0].elts) == 2
           and isinstance(n.value, ast.Subscript)]
    if len(ret) != 1 or len(unp) != 1:
        raise TranslateError('Strata2DViewport.from_vector: return / unpacking shape not understood')
    un, vn = (e.id for e in unp[0].targets[0].elts)
    table_expr = ast.unparse(unp[0].value.value)
    fields = [n.target.id for n in cls.body if isinstance(n, ast.AnnAssign) and isinstance(n.target, ast.Name)]
    call = ret[0].value
    argmap = dict(zip(fields, call.args))
    argmap.update({k.arg: k.value for k in call.keywords})
    swapped = None
    if {ast.unparse(argmap.get('u', ast.Constant(0))), ast.unparse(argmap.get('v', ast.Constant(0)))} != {f'pos[{un}]', f'pos[{vn}]'}:
        raise TranslateError('Strata2DViewport.from_vector: u / v are not pos[<unpacked axis>]')
    swapped = ast.unparse(argmap['u']) == f'pos[{vn}]'
    if table_expr not in ('Vec.INV_AXIS', 'INV_AXIS'):
        raise TranslateError(f'Strata2DViewport.from_vector: axis table {table_expr}')
    from srctools.math import Vec
    inv = {}
    for a in AXES:
        pair = Vec.INV_AXIS[a]
        if len(pair) != 2 or any(x not in AXES for x in pair):
            raise TranslateError(f'Vec.INV_AXIS[{a!r}] = {pair!r}')
        inv[a] = (pair[1], pair[0]) if swapped else (pair[0], pair[1])
    lines = ['(* generated by translate/c06_ids.py from vmf.py / math.py -- do not edit *)',
             'From Coq Require Import List ZArith.', 'From SV Require Import Fmt.VmfViewport.', 'Import ListNotations.', 'Open Scope Z_scope.', '',
             'Definition gen_vp_tbl (a : ax) : slots :=\n  match a with ' + ' | '.join(
                 f'{AXES[a]} => ({", ".join(tbl[a])})' for a in 'xyz') + ' end.',
             'Definition gen_vp_inv (a : ax) : ax * ax :=\n  match a with ' + ' | '.join(
                 f'{AXES[a]} => ({AXES[inv[a][0]]}, {AXES[inv[a][1]]})' for a in 'xyz') + ' end.',
             'Definition gen_vp_tiers : list (list Z) := [' + '; '.join('[' + '; '.join(f'({v})' for v in t) + ']' for t in tiers) + '].']
    return '\n'.join(lines) + '\n', {'slots': tbl, 'tiers': tiers, 'inv': {a: list(v) for a, v in inv.items()}}


GEN = {'VmfIds_gen': gen_ids, 'VmfSets_gen': gen_sets, 'VmfViewport_gen': gen_viewport}
