"""C04 translator: rotation formulas and the @-dispatch of srctools/math.py -> Gen/RotFormulas_gen.v, Gen/RotDispatch_gen.v.

Part 1 (formulas).  A symbolic executor for *straight-line float arithmetic* (assignments, tuple assignments, attribute
stores on objects, math.cos/sin/radians/degrees/sqrt/atan2, + - * / ** %, if/elif/else whose dead ends `raise`).  It runs
the bodies of MatrixBase.from_pitch/from_yaw/from_roll/from_angle/_mat_mul/_vec_rot/transpose/_to_angle with symbolic
inputs, honouring Python's evaluation order (a store is visible to later reads; `_mat_mul` is also executed with
`other is self`), and emits the resulting expression trees as Coq terms over R.  The same trees can be evaluated with
Python floats (`py_eval`), which the check uses to compare them bit-for-bit with the implementation.

Part 2 (dispatch).  An executor for the small object language of the __matmul__/__rmatmul__/__imatmul__ methods of
VecBase/Vec/MatrixBase/Matrix/AngleBase/Angle (isinstance chains, helper calls, copy(), nested @ / @=), run for every
(operator form, left class, right class, aliased?) with Python's binary-operator protocol.  Objects have identity, so
"copy() of a frozen matrix is the matrix itself" and "X._mat_mul(X)" are visible.  The outcome of each triple (class and
identity of the result, its value as a term over the operands, the final values of both operands) becomes one row of a
Coq table.

Fail closed: anything not recognised raises TranslateError.
"""
from __future__ import annotations

import ast
import math
from fractions import Fraction
from typing import Any

from harness.common import TranslateError, ast_digest, src_text

MAT_FIELDS = ['aa', 'ab', 'ac', 'ba', 'bb', 'bc', 'ca', 'cb', 'cc']
VEC_FIELDS = ['x', 'y', 'z']
ANG_FIELDS = ['pitch', 'yaw', 'roll']
MATH_FUNCS = {'cos', 'sin', 'radians', 'degrees', 'sqrt'}
# Tolerant mode (round 5, used for Gen/RotReified_gen.v only, when the strict extraction has failed closed): a math function the
# formula model has no meaning for (asin, acos, atan, hypot ...) is kept as an opaque node, and an angle component that is not
# degrees(atan2(..)) % 360 is recorded as `other`; the reified component then is COther and the NAMED obligation about it
# (pitch_ok) is false, instead of only `translate:RotFormulas_gen` failing closed.
_TOLERANT = [False]


# =============================================================================================== control-flow paths
def _is_docstring(s: ast.stmt) -> bool:
    return isinstance(s, ast.Expr) and isinstance(s.value, ast.Constant) and isinstance(s.value.value, str)


def enum_paths(stmts: list[ast.stmt], where: str):
    """Every control-flow path through simple statements and if/elif/else.  Yields (conds, stmts); a path that reaches
    `raise` is dropped; a path ends at `return`."""
    def go(stmts, conds, acc):
        if not stmts:
            yield conds, acc, False
            return
        s, rest = stmts[0], stmts[1:]
        if isinstance(s, ast.If):
            for branch, taken in ((s.body, True), (s.orelse, False)):
                for c2, a2, ended in go(list(branch), conds + [(s.test, taken)], acc):
                    if ended:
                        yield c2, a2, True
                    else:
                        yield from go(rest, c2, a2)
        elif isinstance(s, ast.Raise):
            return
        elif isinstance(s, ast.Return):
            yield conds, acc + [s], True
        elif isinstance(s, ast.Pass) or _is_docstring(s) or (isinstance(s, ast.AnnAssign) and s.value is None):
            yield from go(rest, conds, acc)
        elif isinstance(s, (ast.Assign, ast.AnnAssign, ast.AugAssign, ast.Expr)):
            yield from go(rest, conds, acc + [s])
        else:
            raise TranslateError(f'{where}: line {s.lineno}: unsupported statement {type(s).__name__}')
    for conds, acc, _ended in go(list(stmts), [], []):
        yield conds, acc


# =============================================================================================== part 1: formulas
class Obj:
    def __init__(self, name: str | None) -> None:
        self.input = name          # reads of unset fields yield ('var', '<name>.<field>'); None = output only
        self.fields: dict[str, Any] = {}
        self.newcls: str | None = None   # for objects made by X.__new__(X): '<self>' (the receiver's class) or a class name


def _fld(attr: str) -> str:
    return attr[1:] if attr.startswith('_') else attr


class FormulaExec:
    def __init__(self, where: str, env: dict[str, Any], C: 'Classes | None' = None, depth: int = 0) -> None:
        self.where = where
        self.env = dict(env)
        self.ret: Any = None
        self.C = C
        self.depth = depth

    def err(self, node: ast.AST, msg: str):
        raise TranslateError(f'{self.where}: line {getattr(node, "lineno", "?")}: {msg}: `{ast.unparse(node)[:80]}`')

    def num(self, v: Any):
        if isinstance(v, tuple) and v and v[0] == 'param':
            return ('var', v[1])
        if not (isinstance(v, tuple) and v and v[0] in ('var', 'num', 'neg', 'add', 'sub', 'mul', 'div', 'pow', 'call', 'atan2', 'mod', 'opaque')):
            raise TranslateError(f'{self.where}: expected an arithmetic value, got {v!r}')
        return v

    def ev(self, n: ast.expr) -> Any:
        if isinstance(n, ast.Constant):
            if isinstance(n.value, (int, float)) and not isinstance(n.value, bool):
                return ('num', n.value)
            self.err(n, 'unsupported constant')
        if isinstance(n, ast.Name):
            if n.id not in self.env:
                if self.C is not None and self.C.name(n.id) in self.C.cls:
                    return ('clsname', self.C.name(n.id))
                if self.C is not None and n.id in self.C.consts:
                    return ('num', self.C.consts[n.id])
                self.err(n, 'unknown name')
            return self.env[n.id]
        if isinstance(n, ast.Attribute):
            base = self.ev(n.value) if not (isinstance(n.value, ast.Name) and n.value.id == 'math') else None
            if base is None:
                self.err(n, 'bare math attribute')
            f = _fld(n.attr)
            if isinstance(base, Obj):
                if f in base.fields:
                    return base.fields[f]
                if base.input is None:
                    self.err(n, 'read of a field that was never stored')
                return ('var', f'{base.input}.{f}')
            if isinstance(base, tuple) and base[0] == 'param':
                if f not in ANG_FIELDS:
                    self.err(n, 'unknown attribute of an angle argument')
                return ('var', f'a.{f}')
            self.err(n, 'attribute of a non-object')
        if isinstance(n, ast.UnaryOp):
            if isinstance(n.op, ast.USub):
                return ('neg', self.num(self.ev(n.operand)))
            if isinstance(n.op, ast.UAdd):
                return self.num(self.ev(n.operand))
            self.err(n, 'unsupported unary operator')
        if isinstance(n, ast.BinOp):
            a = self.num(self.ev(n.left))
            if isinstance(n.op, ast.Pow):
                if isinstance(n.right, ast.Constant) and isinstance(n.right.value, int) and 0 <= n.right.value <= 8:
                    return ('pow', a, n.right.value)
                self.err(n, 'unsupported exponent')
            b = self.num(self.ev(n.right))
            ops = {ast.Add: 'add', ast.Sub: 'sub', ast.Mult: 'mul', ast.Div: 'div', ast.Mod: 'mod'}
            for k, tag in ops.items():
                if isinstance(n.op, k):
                    if tag == 'mod' and b[0] != 'num':
                        self.err(n, 'modulus must be a constant')
                    return (tag, a, b)
            self.err(n, 'unsupported binary operator')
        if isinstance(n, ast.Tuple):
            return ('tuple', [self.ev(e) for e in n.elts])
        if isinstance(n, ast.Call):
            f = n.func
            if n.keywords:
                self.err(n, 'keyword arguments')
            if isinstance(f, ast.Attribute) and isinstance(f.value, ast.Name) and f.value.id == 'math':
                if f.attr in MATH_FUNCS and len(n.args) == 1:
                    return ('call', f.attr, self.num(self.ev(n.args[0])))
                if f.attr == 'atan2' and len(n.args) == 2:
                    return ('atan2', self.num(self.ev(n.args[0])), self.num(self.ev(n.args[1])))
                if _TOLERANT[0] and 1 <= len(n.args) <= 2:
                    return ('opaque', f.attr) + tuple(self.num(self.ev(a)) for a in n.args)
                self.err(n, 'unsupported math function')
            if isinstance(f, ast.Attribute) and f.attr == '__new__' and len(n.args) == 1:
                c = self.ev(f.value)
                if isinstance(c, tuple) and c and c[0] in ('cls', 'clsname') and self.ev(n.args[0]) == c:
                    o = Obj(None)
                    o.newcls = '<self>' if c[0] == 'cls' else c[1]
                    return o
                self.err(n, '__new__ on something that is not the class')
            if isinstance(f, ast.Attribute) and self.C is not None and not f.attr.startswith('__'):
                recv = self.ev(f.value)
                if (isinstance(recv, Obj) and recv.input == 's') or recv == ('cls',):
                    found = self.C.method('Matrix', f.attr)
                    f2 = self.C.method('FrozenMatrix', f.attr)
                    if found is None or f2 is None or found[1] is not f2[1]:
                        self.err(n, 'helper is not one shared MatrixBase method')
                    fn = found[1]
                    is_cm = any(isinstance(d, ast.Name) and d.id == 'classmethod' for d in fn.decorator_list)
                    ps = _params(fn)
                    args = [self.ev(a) for a in n.args]
                    if len(ps) != len(args) + 1 or self.depth > 3:
                        self.err(n, 'helper arity / inlining depth')
                    sub = FormulaExec(f'{self.where}>{fn.name}', dict(zip(ps, [('cls',) if is_cm else recv] + args)),
                                      self.C, self.depth + 1)
                    sub.run(_single_path(fn, sub.where))
                    return sub.ret
            if isinstance(f, ast.Name) and f.id == 'type' and len(n.args) == 1 and isinstance(self.ev(n.args[0]), Obj):
                return ('cls',)
            self.err(n, 'unsupported call')
        self.err(n, f'unsupported expression {type(n).__name__}')

    def store(self, tgt: ast.expr, val: Any) -> None:
        if isinstance(tgt, ast.Name):
            self.env[tgt.id] = val
        elif isinstance(tgt, ast.Attribute):
            o = self.ev(tgt.value)
            if not isinstance(o, Obj):
                self.err(tgt, 'store to attribute of a non-object')
            o.fields[_fld(tgt.attr)] = self.num(val)
        else:
            self.err(tgt, 'unsupported assignment target')

    def run(self, stmts: list[ast.stmt]) -> None:
        for s in stmts:
            if isinstance(s, ast.Assign) or (isinstance(s, ast.AnnAssign) and s.value is not None):
                targets = s.targets if isinstance(s, ast.Assign) else [s.target]
                if len(targets) != 1:
                    self.err(s, 'chained assignment')
                t = targets[0]
                v = self.ev(s.value)
                if isinstance(t, ast.Tuple):
                    if not (isinstance(v, tuple) and v[0] == 'tuple' and len(v[1]) == len(t.elts)):
                        self.err(s, 'tuple assignment from a non-tuple')
                    for ti, vi in zip(t.elts, v[1]):        # the right-hand side is fully evaluated first
                        self.store(ti, vi)
                else:
                    self.store(t, v)
            elif isinstance(s, ast.Return):
                self.ret = self.ev(s.value) if s.value is not None else None
            else:
                self.err(s, f'unsupported statement {type(s).__name__}')


def py_eval(ir: Any, env: dict[str, float]) -> float:
    """Evaluate an expression tree with Python floats, operation for operation as the source does."""
    t = ir[0]
    if t == 'var':
        return env[ir[1]]
    if t == 'num':
        return ir[1]
    if t == 'neg':
        return -py_eval(ir[1], env)
    if t == 'pow':
        return py_eval(ir[1], env) ** ir[2]
    if t == 'call':
        return getattr(math, ir[1])(py_eval(ir[2], env))
    if t == 'atan2':
        return math.atan2(py_eval(ir[1], env), py_eval(ir[2], env))
    a, b = py_eval(ir[1], env), py_eval(ir[2], env)
    if t == 'add':
        return a + b
    if t == 'sub':
        return a - b
    if t == 'mul':
        return a * b
    if t == 'div':
        return a / b
    if t == 'mod':
        return a % b
    raise TranslateError(f'py_eval: unknown node {t}')


COQ_VARS = {**{f's.{f}': f'({f} s)' for f in MAT_FIELDS}, **{f'o.{f}': f'({f} o)' for f in MAT_FIELDS},
            **{f'v.{f}': f'(v{f} v)' for f in VEC_FIELDS}, **{f'a.{f}': f'(a_{f} a)' for f in ANG_FIELDS},
            'pitch': 'pitch', 'yaw': 'yaw', 'roll': 'roll'}


def coq_num(v: Any) -> str:
    fr = Fraction(repr(v)) if isinstance(v, float) else Fraction(v)
    if fr.denominator == 1:
        return str(fr.numerator) if fr.numerator >= 0 else f'({fr.numerator})'
    return f'({fr.numerator}/{fr.denominator})'


def coq_expr(ir: Any) -> str:
    t = ir[0]
    if t == 'var':
        if ir[1] not in COQ_VARS:
            raise TranslateError(f'free variable {ir[1]} has no Coq rendering')
        return COQ_VARS[ir[1]]
    if t == 'num':
        return coq_num(ir[1])
    if t == 'neg':
        return f'(- {coq_expr(ir[1])})'
    if t == 'pow':
        return f'({coq_expr(ir[1])} ^ {ir[2]})'
    if t == 'call':
        return f'({ir[1]} {coq_expr(ir[2])})'
    if t in ('add', 'sub', 'mul', 'div'):
        return f'({coq_expr(ir[1])} {dict(add="+", sub="-", mul="*", div="/")[t]} {coq_expr(ir[2])})'
    raise TranslateError(f'expression form {t} is not allowed in a pure formula')


def _free_vars(ir: Any, acc: set) -> set:
    if ir[0] == 'var':
        acc.add(ir[1])
    else:
        for x in ir[1:]:
            if isinstance(x, tuple):
                _free_vars(x, acc)
    return acc


def _subst(ir: Any, f) -> Any:
    if ir[0] == 'var':
        return ('var', f(ir[1]))
    return tuple(_subst(x, f) if isinstance(x, tuple) else x for x in ir)


class Classes:
    """Class table of math.py (single inheritance) with the Py_/Cy_ aliases."""
    def __init__(self, tree: ast.Module) -> None:
        self.cls: dict[str, ast.ClassDef] = {}
        self.alias: dict[str, str] = {}
        # module-level numeric constants (NAME = 0.001 / NAME: Final = 0.001), bound exactly once in the whole module:
        # a formula that names one reads the literal
        self.consts: dict[str, Any] = {}
        bound: dict[str, int] = {}
        for sub in ast.walk(tree):
            if isinstance(sub, ast.Name) and isinstance(sub.ctx, (ast.Store, ast.Del)):
                bound[sub.id] = bound.get(sub.id, 0) + 1
            elif isinstance(sub, (ast.Global, ast.Nonlocal)):
                for nm in sub.names:
                    bound[nm] = bound.get(nm, 0) + 2
        for n in tree.body:
            tgt = n.targets[0] if isinstance(n, ast.Assign) and len(n.targets) == 1 else getattr(n, 'target', None) \
                if isinstance(n, ast.AnnAssign) else None
            val = getattr(n, 'value', None)
            if isinstance(tgt, ast.Name) and bound.get(tgt.id) == 1:
                neg = isinstance(val, ast.UnaryOp) and isinstance(val.op, ast.USub)
                lit = val.operand if neg else val
                if isinstance(lit, ast.Constant) and isinstance(lit.value, (int, float)) and not isinstance(lit.value, bool):
                    self.consts[tgt.id] = -lit.value if neg else lit.value
        for n in tree.body:
            if isinstance(n, ast.ClassDef):
                self.cls[n.name] = n
            elif isinstance(n, ast.Assign) and len(n.targets) == 1 and isinstance(n.targets[0], ast.Name) \
                    and isinstance(n.value, ast.Name) and n.targets[0].id.startswith(('Py_', 'Cy_')):
                self.alias[n.targets[0].id] = n.value.id

    def name(self, n: str) -> str:
        return self.alias.get(n, n)

    def mro(self, c: str) -> list[str]:
        out = []
        while c in self.cls:
            out.append(c)
            bases = [b.id for b in self.cls[c].bases if isinstance(b, ast.Name) and b.id in self.cls]
            if len(bases) > 1:
                raise TranslateError(f'class {c}: multiple inheritance')
            if not bases:
                break
            c = bases[0]
        return out

    def method(self, c: str, m: str) -> tuple[str, ast.FunctionDef] | None:
        for k in self.mro(c):
            found = [f for f in self.cls[k].body if isinstance(f, ast.FunctionDef) and f.name == m
                     and not any(isinstance(d, ast.Name) and d.id == 'overload' for d in f.decorator_list)]
            if found:
                return k, found[-1]
            # `__hash__ = None`-style deletions of the operators are not expected
            for a in self.cls[k].body:
                if isinstance(a, ast.Assign) and any(isinstance(t, ast.Name) and t.id == m for t in a.targets):
                    raise TranslateError(f'{k}.{m} is assigned, not defined')
        return None

    def issub(self, c: str, base: str) -> bool:
        return base in self.mro(c) or c == base


def _params(fn: ast.FunctionDef) -> list[str]:
    a = fn.args
    if a.vararg or a.kwarg or a.kwonlyargs:
        raise TranslateError(f'{fn.name}: unsupported signature')
    return [x.arg for x in a.posonlyargs + a.args]


def _single_path(fn: ast.FunctionDef, where: str) -> list[ast.stmt]:
    ps = list(enum_paths(fn.body, where))
    if len(ps) != 1 or ps[0][0]:
        raise TranslateError(f'{where}: expected straight-line code')
    return ps[0][1]


def _property_reads(C: Classes, cls: str, names: list[str]) -> None:
    """x/y/z and pitch/yaw/roll must be properties returning the private slot (so `vec.x` reads `_x`)."""
    for c in C.cls:
        if cls not in C.mro(c):
            continue
        for f in C.cls[c].body:
            if isinstance(f, ast.FunctionDef) and f.name in names and \
                    any(isinstance(d, ast.Name) and d.id == 'property' for d in f.decorator_list):
                body = [s for s in f.body if not _is_docstring(s)]
                if len(body) != 1 or ast.unparse(body[0]) != f'return self._{f.name}':
                    raise TranslateError(f'{c}.{f.name}: property getter is not `return self._{f.name}`')


def _mat_of(o: Any, where: str) -> list[Any]:
    if not isinstance(o, Obj) or set(o.fields) != set(MAT_FIELDS):
        raise TranslateError(f'{where}: result is not a matrix with all nine slots stored')
    return [o.fields[f] for f in MAT_FIELDS]


def extract_formulas(C: Classes) -> dict[str, Any]:
    F: dict[str, Any] = {}
    _property_reads(C, 'VecBase', VEC_FIELDS)
    _property_reads(C, 'AngleBase', ANG_FIELDS)

    def meth(name: str) -> ast.FunctionDef:
        m = C.method('Matrix', name)
        m2 = C.method('FrozenMatrix', name)
        if m is None or m2 is None or m[1] is not m2[1]:
            raise TranslateError(f'{name}: not one shared definition for Matrix and FrozenMatrix')
        return m[1]

    # from_pitch / from_yaw / from_roll
    for nm in ('pitch', 'yaw', 'roll'):
        fn = meth(f'from_{nm}')
        ps = _params(fn)
        if len(ps) != 2:
            raise TranslateError(f'from_{nm}: signature')
        ex = FormulaExec(f'from_{nm}', {ps[0]: ('cls',), ps[1]: ('var', nm)}, C)
        ex.run(_single_path(fn, f'from_{nm}'))
        F[f'from_{nm}'] = _mat_of(ex.ret, f'from_{nm}')
    # from_angle: two live paths (Angle object / three floats)
    fn = meth('from_angle')
    ps = _params(fn)
    if ps[1:] != ['pitch', 'yaw', 'roll']:
        raise TranslateError('from_angle: signature')
    live = list(enum_paths(fn.body, 'from_angle'))
    got = {}
    for conds, stmts in live:
        first = conds[0] if conds else None
        if first is None or ast.unparse(first[0]).replace('Py_', '') != 'isinstance(pitch, AngleBase)':
            raise TranslateError('from_angle: first test is not isinstance(pitch, AngleBase)')
        is_obj = first[1]
        env = {ps[0]: ('cls',), 'pitch': ('param', 'pitch'), 'yaw': ('var', 'yaw'), 'roll': ('var', 'roll')}
        ex = FormulaExec('from_angle', env, C)
        ex.run(stmts)
        m = _mat_of(ex.ret, 'from_angle')
        fv = set()
        for e in m:
            _free_vars(e, fv)
        want = {'a.pitch', 'a.yaw', 'a.roll'} if is_obj else {'pitch', 'yaw', 'roll'}
        if not fv <= want:
            raise TranslateError(f'from_angle ({"Angle" if is_obj else "float"} path): unexpected inputs {sorted(fv - want)}')
        key = 'from_angle_obj' if is_obj else 'from_angle'
        if key in got:
            raise TranslateError(f'from_angle: more than one live path for {key}')
        got[key] = m
    if set(got) != {'from_angle', 'from_angle_obj'}:
        raise TranslateError('from_angle: expected one Angle path and one float path')
    F.update(got)
    # _mat_mul, distinct operands and other-is-self
    fn = meth('_mat_mul')
    ps = _params(fn)
    body = _single_path(fn, '_mat_mul')
    s, o = Obj('s'), Obj('o')
    ex = FormulaExec('_mat_mul', {ps[0]: s, ps[1]: o}, C)
    ex.run(body)
    if o.fields:
        raise TranslateError('_mat_mul stores into its argument')
    F['mat_mul'] = _mat_of(s, '_mat_mul')
    s = Obj('s')
    ex = FormulaExec('_mat_mul(alias)', {ps[0]: s, ps[1]: s}, C)
    ex.run(body)
    F['mat_mul_self'] = _mat_of(s, '_mat_mul(alias)')
    F['mat_mul_alias_safe'] = F['mat_mul_self'] == [_subst(e, lambda v: 's.' + v[2:] if v.startswith('o.') else v)
                                                    for e in F['mat_mul']]
    # _vec_rot
    fn = meth('_vec_rot')
    ps = _params(fn)
    s, v = Obj('s'), Obj('v')
    ex = FormulaExec('_vec_rot', {ps[0]: s, ps[1]: v}, C)
    ex.run(_single_path(fn, '_vec_rot'))
    if s.fields or set(v.fields) != set(VEC_FIELDS):
        raise TranslateError('_vec_rot: must store exactly _x,_y,_z of its argument')
    F['vec_rot'] = [v.fields[f] for f in VEC_FIELDS]
    # transpose
    fn = meth('transpose')
    s = Obj('s')
    ex = FormulaExec('transpose', {_params(fn)[0]: s}, C)
    ex.run(_single_path(fn, 'transpose'))
    if s.fields:
        raise TranslateError('transpose modifies self')
    F['transpose'] = _mat_of(ex.ret, 'transpose')
    F['copy_kind'] = {}
    # _to_angle
    fn = meth('_to_angle')
    ps = _params(fn)
    paths = list(enum_paths(fn.body, '_to_angle'))
    if len(paths) != 2:
        raise TranslateError(f'_to_angle: expected exactly two paths, found {len(paths)}')
    ta: dict[str, Any] = {}
    for conds, stmts in paths:
        if len(conds) != 1:
            raise TranslateError('_to_angle: expected one comparison guarding the gimbal-lock branch')
        test, taken = conds[0]
        while isinstance(test, ast.UnaryOp) and isinstance(test.op, ast.Not):      # `if not (a > b)`: the other branch of a > b
            test, taken = test.operand, not taken
        if not isinstance(test, ast.Compare) or len(test.ops) != 1:
            raise TranslateError('_to_angle: expected one comparison guarding the gimbal-lock branch')
        s, a = Obj('s'), Obj(None)
        ex = FormulaExec('_to_angle', {ps[0]: s, ps[1]: a}, C)
        ex.run(stmts)
        if ex.ret is not a or s.fields or set(a.fields) != set(ANG_FIELDS):
            raise TranslateError('_to_angle: must store _pitch,_yaw,_roll of its argument and return it')
        # the guard is evaluated in the environment at the point of the test = the common prefix; all names it uses
        # are assigned before the `if`, and assignments after it cannot change them in straight-line SSA-like code:
        gex = FormulaExec('_to_angle', {ps[0]: Obj('s'), ps[1]: Obj(None)}, C)
        pre = []
        for st in fn.body:
            if isinstance(st, ast.If):
                break
            if not _is_docstring(st):
                pre.append(st)
        gex.run(pre)
        opn = type(test.ops[0]).__name__
        if opn not in ('Gt', 'GtE', 'Lt', 'LtE'):
            raise TranslateError(f'_to_angle: guard operator {opn}')
        guard = (gex.num(gex.ev(test.left)), opn, gex.num(gex.ev(test.comparators[0])))
        if guard[0][0] == 'num' and guard[2][0] != 'num':      # `0.001 < h` is `h > 0.001`
            guard = (guard[2], {'Gt': 'Lt', 'Lt': 'Gt', 'GtE': 'LtE', 'LtE': 'GtE'}[opn], guard[0])
        if 'guard' in ta and ta['guard'] != guard:
            raise TranslateError('_to_angle: inconsistent guard')
        ta['guard'] = guard
        comps = {}
        for f in ANG_FIELDS:
            e = a.fields[f]
            nmod = 0
            while e[0] == 'mod':
                if Fraction(repr(e[2][1])) != 360:
                    raise TranslateError(f'_to_angle: modulus {e[2][1]} is not 360')
                nmod += 1
                e = e[1]
            if e[0] == 'num':
                comps[f] = ('const', e[1], nmod)
            elif e[0] == 'call' and e[1] == 'degrees' and e[2][0] == 'atan2':
                for sub in (e[2][1], e[2][2]):
                    coq_expr(sub)    # must be pure arithmetic
                comps[f] = ('atan2', e[2][1], e[2][2], nmod)
            elif _TOLERANT[0]:
                comps[f] = ('other', e, nmod)
            else:
                raise TranslateError(f'_to_angle: {f} is not degrees(atan2(..)) % 360 or a constant')
        ta['main' if taken else 'lock'] = comps
    F['to_angle'] = ta
    return F


def classify_copy(C: Classes, F: dict[str, Any], cls: str, meth: str) -> tuple[str, str]:
    """What does the zero-argument matrix method cls.meth() return: ('alias', cls) = self itself, or ('fresh', K) = a
    new object of class K holding exactly self's nine values?  Decided by symbolic execution of its body."""
    key = f'{cls}.{meth}'
    if key in F['copy_kind']:
        return tuple(F['copy_kind'][key])
    found = C.method(cls, meth)
    if found is None:
        raise TranslateError(f'{key}: no such method')
    owner, fn = found
    body = [s_ for s_ in fn.body if not _is_docstring(s_)]
    if len(body) == 1 and ast.unparse(body[0]) == 'return self':
        res = ('alias', cls)
    else:
        s = Obj('s')
        ex = FormulaExec(key, {_params(fn)[0]: s}, C)
        ex.run(_single_path(fn, key))
        if s.fields or _mat_of(ex.ret, key) != [('var', f's.{f}') for f in MAT_FIELDS]:
            raise TranslateError(f'{key}: neither `return self` nor a field-for-field new matrix')
        k = cls if ex.ret.newcls == '<self>' else ex.ret.newcls
        if k not in ('Matrix', 'FrozenMatrix'):
            raise TranslateError(f'{key}: cannot tell the class of the new matrix')
        res = ('fresh', k)
    F['copy_kind'][key] = list(res)
    return res


def _coq_mat(name: str, args: str, m: list[Any]) -> str:
    rows = [' '.join(coq_expr(e) for e in m[i:i + 3]) for i in (0, 3, 6)]
    return f'Definition {name} {args} : mat :=\n  Mat ' + '\n      '.join(rows) + '.\n'


def formulas_coq(F: dict[str, Any]) -> str:
    out = ['(* GENERATED by translate/c04_formulas.py from src/srctools/math.py (MatrixBase). Do not edit. *)',
           'From Coq Require Import Reals.', 'From SV Require Import Rot.RotBase.', 'Open Scope R_scope.', '']
    for nm in ('pitch', 'yaw', 'roll'):
        out.append(_coq_mat(f'from_{nm}', f'({nm} : R)', F[f'from_{nm}']))
    out.append(_coq_mat('from_angle', '(pitch yaw roll : R)', F['from_angle']))
    out.append(_coq_mat('from_angle_obj', '(a : ang)', F['from_angle_obj']))
    out.append('(* self._mat_mul(other): the new value of self *)')
    out.append(_coq_mat('mat_mul', '(s o : mat)', F['mat_mul']))
    out.append('(* self._mat_mul(self): the same statements executed when `other is self` *)')
    out.append(_coq_mat('mat_mul_self', '(s : mat)', F['mat_mul_self']))
    out.append('(* mat._vec_rot(vec): the new value of vec *)')
    out.append('Definition vec_rot (s : mat) (v : vec) : vec :=\n  Vec3 ' + ' '.join(coq_expr(e) for e in F['vec_rot']) + '.\n')
    out.append(_coq_mat('transpose', '(s : mat)', F['transpose']))
    ta = F['to_angle']
    L, op, R = ta['guard']
    rel = {'Gt': '>', 'GtE': '>=', 'Lt': '<', 'LtE': '<='}[op]
    dec = {'Gt': 'Rgt_dec', 'GtE': 'Rge_dec', 'Lt': 'Rlt_dec', 'LtE': 'Rle_dec'}[op]
    out.append('(* _to_angle: the guard of the non-degenerate branch, and per branch the arguments of atan2 *)')
    out.append(f'Definition ta_guard (s : mat) : Prop := {coq_expr(L)} {rel} {coq_expr(R)}.')
    out.append(f'Definition ta_guard_dec (s : mat) : {{ta_guard s}} + {{~ ta_guard s}} := {dec} _ _.')
    out.append('Definition ta_modulus : R := 360.')
    for br in ('main', 'lock'):
        cs = []
        for f in ANG_FIELDS:
            c = ta[br][f]
            if c[0] == 'const':
                cs.append(f'TaConst {coq_num(c[1])}')
            else:
                cs.append(f'TaAtan2 {c[3]} {coq_expr(c[1])} {coq_expr(c[2])}')
        out.append(f'Definition ta_{br} (s : mat) : ta_comp * ta_comp * ta_comp :=\n  (' + ',\n   '.join(cs) + ').')
    out.append('')
    return '\n'.join(out)


# =============================================================================================== reified pieces
# Decisive pieces of the formulas in a form the kernel can DECIDE things about (no reals involved): polynomials in the
# slots of self/other as sorted lists of (integer coefficient, sorted list of atoms).  The expansion is done here; that
# it is right is proved in rocq/Rot/RotReifyProofs.v (`ring` against the generated formula), so a wrong expansion fails
# the build instead of weakening an obligation.
def poly_of(ir: Any) -> dict[tuple, Fraction]:
    t = ir[0]
    if t == 'var':
        pre, _, f = ir[1].partition('.')
        if pre not in ('s', 'o') or f not in MAT_FIELDS:
            raise TranslateError(f'polynomial over something other than matrix slots: {ir[1]}')
        return {((pre, MAT_FIELDS.index(f)),): Fraction(1)}
    if t == 'num':
        return {(): Fraction(repr(ir[1])) if isinstance(ir[1], float) else Fraction(ir[1])}
    if t == 'neg':
        return {m: -c for m, c in poly_of(ir[1]).items()}
    if t in ('add', 'sub'):
        out = dict(poly_of(ir[1]))
        for m, c in poly_of(ir[2]).items():
            out[m] = out.get(m, Fraction(0)) + (c if t == 'add' else -c)
        return {m: c for m, c in out.items() if c != 0}
    if t == 'mul' or t == 'pow':
        factors = [poly_of(ir[1])] * ir[2] if t == 'pow' else [poly_of(ir[1]), poly_of(ir[2])]
        acc: dict[tuple, Fraction] = {(): Fraction(1)}
        for f in factors:
            nxt: dict[tuple, Fraction] = {}
            for m1, c1 in acc.items():
                for m2, c2 in f.items():
                    m = tuple(sorted(m1 + m2, key=lambda a: (a[0] != 's', a[1])))
                    nxt[m] = nxt.get(m, Fraction(0)) + c1 * c2
            acc = {m: c for m, c in nxt.items() if c != 0}
        return acc
    raise TranslateError(f'not a polynomial: node {t}')


def _atom_key(a: tuple) -> tuple:
    return (a[0] != 's', a[1])


def coq_poly(p: dict[tuple, Fraction]) -> str:
    items = []
    for m in sorted(p, key=lambda m: (len(m), [_atom_key(a) for a in m])):
        c = p[m]
        if c.denominator != 1:
            raise TranslateError(f'polynomial with a non-integer coefficient {c}')
        cz = str(c.numerator) if c.numerator >= 0 else f'({c.numerator})'
        items.append(f'({cz}%Z, [' + '; '.join(('AS ' if a[0] == 's' else 'AO ') + str(a[1]) for a in m) + '])')
    return '[' + '; '.join(items) + ']'


def reified_coq(F: dict[str, Any]) -> tuple[str, dict]:
    ta = F['to_angle']
    L, op, R = ta['guard']
    if R[0] != 'num':
        raise TranslateError('_to_angle: the gimbal threshold is not a literal')
    thr = Fraction(repr(R[1])) if isinstance(R[1], float) else Fraction(R[1])
    if L[0] == 'call' and L[1] == 'sqrt':
        lhs_p, lhs = poly_of(L[2]), 'GSqrt'
    else:
        lhs_p, lhs = poly_of(L), 'GPoly'
    def gexpr(ir: Any) -> str:
        if ir[0] == 'call' and ir[1] == 'sqrt':
            return f'(GSqrt {coq_poly(poly_of(ir[2]))})'
        return f'(GPoly {coq_poly(poly_of(ir))})'

    def comp_cfg(c: tuple) -> str:
        """One component of the angle, reified; COther when it is not atan2 of polynomials / square roots of polynomials."""
        try:
            if c[0] == 'const':
                fr = Fraction(repr(c[1])) if isinstance(c[1], float) else Fraction(c[1])
                return f'CConst ({fr.numerator}#{fr.denominator})%Q' if fr.numerator >= 0 else f'CConst (({fr.numerator})#{fr.denominator})%Q'
            if c[0] != 'atan2':
                return 'COther'
            return f'CAtan2 {gexpr(c[1])} {gexpr(c[2])}'
        except TranslateError:
            return 'COther'
    pitch_cfg = {br: comp_cfg(ta[br]['pitch']) for br in ('main', 'lock')}
    to_s = lambda v: 's.' + v[2:] if v.startswith('o.') else v      # noqa: E731
    self_p = [poly_of(e) for e in F['mat_mul_self']]
    ss_p = [poly_of(_subst(e, to_s)) for e in F['mat_mul']]
    out = ['(* GENERATED by translate/c04_formulas.py from src/srctools/math.py (MatrixBase._to_angle guard, _mat_mul). Do not edit. *)',
           'From Coq Require Import ZArith QArith List.', 'From SV Require Import Rot.RotGJ Rot.RotReify.', 'Import ListNotations.',
           'Local Open Scope nat_scope.', '',
           '(* the test that selects the non-degenerate branch of _to_angle: operator, left operand, literal *)',
           f'Definition ta_guard_cfg : guard_cfg := GuardCfg {dict(Gt="CGt", GtE="CGe", Lt="CLt", LtE="CLe")[op]} '
           f'({lhs} {coq_poly(lhs_p)}) ({thr.numerator}#{thr.denominator})%Q.', '',
           '(* the pitch component of the result of _to_angle in the non-degenerate and in the gimbal-lock branch *)',
           f'Definition ta_pitch_main_cfg : comp_cfg := {pitch_cfg["main"]}.',
           f'Definition ta_pitch_lock_cfg : comp_cfg := {pitch_cfg["lock"]}.', '',
           '(* the nine entries of self._mat_mul(self) as executed with one object on both sides ... *)',
           'Definition mat_mul_self_polys : list poly := [\n  ' + ';\n  '.join(coq_poly(p) for p in self_p) + '].',
           '(* ... and of the product formula with `other` replaced by `self` *)',
           'Definition mat_mul_ss_polys : list poly := [\n  ' + ';\n  '.join(coq_poly(p) for p in ss_p) + '].', '']
    side = {'guard_operator': op, 'guard_left_operand': f'{lhs} {coq_poly(lhs_p)}', 'guard_literal': str(thr), 'pitch': pitch_cfg,
            'alias_rows_equal': [self_p[i:i + 3] == ss_p[i:i + 3] for i in (0, 3, 6)]}
    return '\n'.join(out), side


# =============================================================================================== part 2: dispatch
CONCRETE = ['Vec', 'FrozenVec', 'tuple', 'Angle', 'FrozenAngle', 'Matrix', 'FrozenMatrix']
COQ_CLS = {'Vec': 'CVec', 'FrozenVec': 'CFrozenVec', 'tuple': 'CTuple', 'Angle': 'CAngle', 'FrozenAngle': 'CFrozenAngle',
           'Matrix': 'CMatrix', 'FrozenMatrix': 'CFrozenMatrix'}
KIND = {'Vec': 'V', 'FrozenVec': 'V', 'tuple': 'V', 'Angle': 'A', 'FrozenAngle': 'A', 'Matrix': 'M', 'FrozenMatrix': 'M'}
NOTIMPL = ('notimpl',)
TYPEERROR = ('typeerror',)


class DObj:
    def __init__(self, cls: str, val: Any, origin: str) -> None:
        self.cls, self.val, self.origin = cls, val, origin


class Dispatch:
    def __init__(self, C: Classes, F: dict[str, Any]) -> None:
        self.C, self.F = C, F
        self.trace: list[str] = []
        self.depth = 0

    def err(self, node: ast.AST, msg: str):
        raise TranslateError(f'dispatch: line {getattr(node, "lineno", "?")}: {msg}: `{ast.unparse(node)[:90]}`')

    # ---- class tests
    def clsname(self, n: ast.expr) -> list[str]:
        if isinstance(n, ast.Name):
            c = self.C.name(n.id)
            if c in self.C.cls or c == 'tuple':
                return [c]
        if isinstance(n, ast.Tuple):
            return [x for e in n.elts for x in self.clsname(e)]
        self.err(n, 'unknown class in isinstance')

    def isinst(self, o: DObj, classes: list[str]) -> bool:
        return any((o.cls == 'tuple' and c == 'tuple') or (o.cls != 'tuple' and c != 'tuple' and self.C.issub(o.cls, c))
                   for c in classes)

    def cond(self, n: ast.expr, env: dict) -> bool:
        if isinstance(n, ast.UnaryOp) and isinstance(n.op, ast.Not):
            return not self.cond(n.operand, env)
        if isinstance(n, ast.BoolOp):
            vals = [self.cond(v, env) for v in n.values]
            return any(vals) if isinstance(n.op, ast.Or) else all(vals)
        if isinstance(n, ast.Call) and isinstance(n.func, ast.Name) and n.func.id == 'isinstance' and len(n.args) == 2:
            o = self.ev(n.args[0], env)
            if not isinstance(o, DObj):
                self.err(n, 'isinstance of a non-object')
            return self.isinst(o, self.clsname(n.args[1]))
        self.err(n, 'unsupported branch condition')

    # ---- expressions
    def fresh(self, cls: str, val: Any) -> DObj:
        return DObj(cls, val, 'fresh')

    def ev(self, n: ast.expr, env: dict) -> Any:
        if isinstance(n, ast.Name):
            if n.id == 'NotImplemented':
                return NOTIMPL
            if n.id in env:
                return env[n.id]
            c = self.C.name(n.id)
            if c in self.C.cls:
                return ('clsval', c)
            self.err(n, 'unknown name')
        if isinstance(n, ast.BinOp) and isinstance(n.op, ast.MatMult):
            return self.binop('matmul', self.obj(n.left, env), self.obj(n.right, env), n)
        if isinstance(n, ast.IfExp):        # `a if isinstance(..) else b`: the classes are concrete, so the test is decided
            return self.ev(n.body if self.cond(n.test, env) else n.orelse, env)
        if isinstance(n, ast.Call):
            f = n.func
            if n.keywords:
                self.err(n, 'keyword arguments')
            # type(X)
            if isinstance(f, ast.Name) and f.id == 'type' and len(n.args) == 1:
                return ('clsval', self.obj(n.args[0], env).cls)
            # C(...) constructors of vectors
            callee = self.ev(f, env) if isinstance(f, (ast.Name, ast.Call)) else None
            if callee is not None and isinstance(callee, tuple) and callee[0] == 'clsval':
                c = callee[1]
                if c in ('Vec', 'FrozenVec') and len(n.args) == 3:
                    srcs = []
                    for a, fld in zip(n.args, VEC_FIELDS):
                        if not (isinstance(a, ast.Attribute) and _fld(a.attr) == fld):
                            self.err(n, 'vector constructor arguments are not the x,y,z of one vector')
                        srcs.append(self.obj(a.value, env))
                    if not (srcs[0] is srcs[1] is srcs[2]) or KIND.get(srcs[0].cls) != 'V' or srcs[0].cls == 'tuple':
                        self.err(n, 'vector constructor arguments are not the x,y,z of one vector')
                    return self.fresh(c, srcs[0].val)          # three floats: always a new object
                if c in ('Angle', 'FrozenAngle') and len(n.args) == 3:
                    # Angle(a._pitch, a._yaw, a._roll) of ONE angle: a new object with the same value (the constructor's
                    # `% 360` leaves the already normalised components of an angle alone)
                    srcs = []
                    for a, fld in zip(n.args, ANG_FIELDS):
                        if not (isinstance(a, ast.Attribute) and _fld(a.attr) == fld):
                            self.err(n, 'angle constructor arguments are not the pitch,yaw,roll of one angle')
                        srcs.append(self.obj(a.value, env))
                    if not (srcs[0] is srcs[1] is srcs[2]) or KIND.get(srcs[0].cls) != 'A':
                        self.err(n, 'angle constructor arguments are not the pitch,yaw,roll of one angle')
                    return self.fresh(c, srcs[0].val)
                if c == 'Vec' and len(n.args) == 1:
                    src = self.obj(n.args[0], env)
                    if KIND.get(src.cls) != 'V':
                        self.err(n, 'Vec(x) of a non-vector')
                    return self.fresh('Vec', src.val)          # Vec.__init__ always fills a new object
                self.err(n, 'unsupported constructor call')
            if isinstance(f, ast.Attribute):
                m = f.attr
                if m == '__new__' and len(n.args) == 1:
                    c = self.ev(f.value, env)
                    if isinstance(c, tuple) and c[0] == 'clsval' and self.ev(n.args[0], env) == c and KIND.get(c[1]) == 'A':
                        return self.fresh(c[1], ('uninit',))
                    self.err(n, 'unsupported __new__')
                if m == 'from_angle' and len(n.args) == 1:
                    c = self.ev(f.value, env)
                    if c != ('clsval', 'Matrix'):
                        self.err(n, 'from_angle on a class other than Matrix')
                    a = self.obj(n.args[0], env)
                    if KIND.get(a.cls) != 'A':
                        self.err(n, 'from_angle of a non-angle')
                    self.trace.append('from_angle')
                    return self.fresh('Matrix', ('FromAngle', a.val))
                recv = self.obj(f.value, env)
                if not n.args and KIND.get(recv.cls) == 'M' and self.C.method(recv.cls, m) is not None:
                    how, k = classify_copy(self.C, self.F, recv.cls, m)
                    self.trace.append(f'{recv.cls}.{m}:{how}')
                    return recv if how == 'alias' else self.fresh(k, recv.val)
                if m == 'copy' and not n.args and KIND.get(recv.cls) in ('V', 'A') and recv.cls != 'tuple':
                    # Vec.copy() / Angle.copy(): a new object; FrozenVec.copy() / FrozenAngle.copy(): `return self` (executed)
                    return self.call(recv, m, [], n)
                if m == '_to_angle' and len(n.args) == 1 and KIND.get(recv.cls) == 'M':
                    tgt = self.obj(n.args[0], env)
                    if KIND.get(tgt.cls) != 'A':
                        self.err(n, '_to_angle into a non-angle')
                    self.trace.append('_to_angle')
                    tgt.val = ('ToAngle', recv.val)
                    return tgt
                if m == '_rotate_angle':
                    return self.call(recv, m, [self.ev(a, env) for a in n.args], n)
            self.err(n, 'unsupported call')
        self.err(n, f'unsupported expression {type(n).__name__}')

    def obj(self, n: ast.expr, env: dict) -> DObj:
        v = self.ev(n, env)
        if not isinstance(v, DObj):
            self.err(n, 'expected an object')
        return v

    # ---- statements
    def run(self, stmts: list[ast.stmt], env: dict) -> Any:
        for s in stmts:
            if isinstance(s, ast.Assign) and len(s.targets) == 1 and isinstance(s.targets[0], ast.Name):
                env[s.targets[0].id] = self.ev(s.value, env)
            elif isinstance(s, ast.AnnAssign) and isinstance(s.target, ast.Name) and s.value is not None:
                env[s.target.id] = self.ev(s.value, env)
            elif isinstance(s, ast.AugAssign) and isinstance(s.op, ast.MatMult) and isinstance(s.target, ast.Name):
                env[s.target.id] = self.binop('imatmul', self.obj(s.target, env), self.obj(s.value, env), s)
            elif isinstance(s, ast.Expr) and isinstance(s.value, ast.Call) and isinstance(s.value.func, ast.Attribute) \
                    and s.value.func.attr in ('_vec_rot', '_mat_mul') and len(s.value.args) == 1:
                recv = self.obj(s.value.func.value, env)
                arg = self.obj(s.value.args[0], env)
                if KIND.get(recv.cls) != 'M':
                    self.err(s, 'helper called on a non-matrix')
                if s.value.func.attr == '_vec_rot':
                    if KIND.get(arg.cls) != 'V' or arg.cls == 'tuple':
                        self.err(s, '_vec_rot of a non-vector')
                    self.trace.append('_vec_rot')
                    arg.val = ('VecRot', arg.val, recv.val)
                else:
                    if KIND.get(arg.cls) != 'M':
                        self.err(s, '_mat_mul by a non-matrix')
                    self.trace.append('_mat_mul' + ('(self)' if arg is recv else ''))
                    if arg is recv and not self.F['mat_mul_alias_safe']:
                        recv.val = ('MatMulSelf', recv.val)
                    else:
                        recv.val = ('MatMul', recv.val, arg.val)
            elif isinstance(s, ast.Expr) and isinstance(s.value, ast.Call) and isinstance(s.value.func, ast.Attribute) \
                    and s.value.func.attr == '_to_angle' and len(s.value.args) == 1:
                self.ev(s.value, env)          # `m._to_angle(a)` as a statement: stores into a (the result is a itself)
            elif isinstance(s, ast.Return) and s.value is not None:
                return self.ev(s.value, env)
            else:
                self.err(s, 'unsupported statement')
        self.err(stmts[-1] if stmts else ast.Pass(), 'method falls off its end')

    def call(self, recv: DObj, meth: str, args: list[Any], at: ast.AST) -> Any:
        found = self.C.method(recv.cls, meth)
        if found is None:
            self.err(at, f'{recv.cls} has no method {meth}')
        owner, fn = found
        ps = _params(fn)
        if len(ps) != len(args) + 1:
            self.err(at, f'{owner}.{meth}: arity')
        self.depth += 1
        if self.depth > 6:
            self.err(at, 'dispatch recursion too deep')
        env0 = dict(zip(ps, [recv] + args))
        chosen = None
        for conds, stmts in enum_paths(fn.body, f'{owner}.{meth}'):
            if all(self.cond(t, env0) == taken for t, taken in conds):
                if chosen is not None:
                    self.err(fn, 'two paths are enabled')
                chosen = stmts
        if chosen is None:
            self.err(fn, f'{owner}.{meth}: no path enabled (raises?)')
        self.trace.append(f'{owner}.{meth}')
        r = self.run(chosen, env0)
        self.depth -= 1
        return r

    def has(self, o: DObj, meth: str) -> bool:
        return o.cls != 'tuple' and self.C.method(o.cls, meth) is not None

    def binop(self, form: str, l: DObj, r: DObj, at: ast.AST) -> Any:
        """Python's protocol for `l @ r`, `l @= r`.  None of the seven classes is a subclass of another, so the
        reflected method is never tried first."""
        if form == 'imatmul':
            if self.has(l, '__imatmul__'):
                res = self.call(l, '__imatmul__', [r], at)
                if res != NOTIMPL:
                    return res
            return self.binop('matmul', l, r, at)
        if self.has(l, '__matmul__'):
            res = self.call(l, '__matmul__', [r], at)
            if res != NOTIMPL:
                return res
        if self.has(r, '__rmatmul__') and not (l.cls == r.cls):
            res = self.call(r, '__rmatmul__', [l], at)
            if res != NOTIMPL:
                return res
        return TYPEERROR

    def triple(self, form: str, lc: str, rc: str, alias: bool) -> dict:
        self.trace, self.depth = [], 0
        L = DObj(lc, ('L',), 'L')
        R = L if alias else DObj(rc, ('R',), 'R')
        at = ast.Pass()
        if form == 'rmatmul':
            res = self.call(R, '__rmatmul__', [L], at) if self.has(R, '__rmatmul__') else NOTIMPL
        else:
            res = self.binop(form, L, R, at)
        row = {'form': form, 'l': lc, 'r': rc, 'alias': alias, 'trace': list(self.trace)}
        if isinstance(res, DObj):
            row.update(kind='value', cls=res.cls, ident=res.origin, val=res.val, finalL=L.val, finalR=R.val)
        else:
            row.update(kind=res[0])
        return row


def term_coq(t: Any) -> str:
    k = t[0]
    if k in ('L', 'R'):
        return 'T' + k
    if k == 'uninit':
        return 'TUninit'
    if k == 'FromAngle':
        return f'(TFromAngle {term_coq(t[1])})'
    if k == 'ToAngle':
        return f'(TToAngle {term_coq(t[1])})'
    if k == 'MatMulSelf':
        return f'(TMatMulSelf {term_coq(t[1])})'
    if k == 'MatMul':
        return f'(TMatMul {term_coq(t[1])} {term_coq(t[2])})'
    if k == 'VecRot':
        return f'(TVecRot {term_coq(t[1])} {term_coq(t[2])})'
    raise TranslateError(f'unknown term {t!r}')


def dispatch_rows(C: Classes, F: dict[str, Any]) -> list[dict]:
    d = Dispatch(C, F)
    rows = []
    for form in ('matmul', 'imatmul', 'rmatmul'):
        for lc in CONCRETE:
            for rc in CONCRETE:
                rows.append(d.triple(form, lc, rc, False))
                if lc == rc and lc != 'tuple':
                    rows.append(d.triple(form, lc, rc, True))
    return rows


OPERATOR_METHODS = ('__matmul__', '__rmatmul__', '__imatmul__')
OPERAND_CLASSES = ('VecBase', 'Vec', 'FrozenVec', 'MatrixBase', 'Matrix', 'FrozenMatrix', 'AngleBase', 'Angle', 'FrozenAngle')


def operator_census(tree: ast.Module, C: Classes, rows: list[dict]) -> dict:
    """Every definition of an @ operator method in math.py must (1) sit directly in the body of one of the nine
    operand classes (so that the class table sees it), (2) not be installed or replaced by an assignment / setattr /
    del anywhere in the module, and (3) be executed by at least one row of the table.  Fail closed otherwise."""
    defs: dict[str, ast.FunctionDef] = {}
    for c in OPERAND_CLASSES:
        for f in C.cls[c].body:
            if isinstance(f, ast.FunctionDef) and f.name in OPERATOR_METHODS \
                    and not any(isinstance(d, ast.Name) and d.id == 'overload' for d in f.decorator_list):
                if f'{c}.{f.name}' in defs:
                    raise TranslateError(f'{c}.{f.name} is defined twice')
                if [d for d in f.decorator_list]:
                    raise TranslateError(f'{c}.{f.name} is decorated')
                defs[f'{c}.{f.name}'] = f
    known = {id(f) for f in defs.values()}
    for n in ast.walk(tree):
        if isinstance(n, (ast.FunctionDef, ast.AsyncFunctionDef)) and n.name in OPERATOR_METHODS and id(n) not in known \
                and not any(isinstance(d, ast.Name) and d.id == 'overload' for d in n.decorator_list):
            raise TranslateError(f'line {n.lineno}: {n.name} is defined outside the bodies of the nine operand classes')
        if isinstance(n, (ast.Assign, ast.AugAssign, ast.AnnAssign, ast.Delete)):
            tgts = n.targets if isinstance(n, (ast.Assign, ast.Delete)) else [n.target]
            for t in tgts:
                for sub in ast.walk(t):
                    if (isinstance(sub, ast.Attribute) and sub.attr in OPERATOR_METHODS) or \
                            (isinstance(sub, ast.Name) and sub.id in OPERATOR_METHODS):
                        raise TranslateError(f'line {n.lineno}: an @ operator method is assigned or deleted')
        if isinstance(n, ast.Call) and isinstance(n.func, ast.Name) and n.func.id in ('setattr', 'delattr') and len(n.args) >= 2 \
                and isinstance(n.args[1], ast.Constant) and n.args[1].value in OPERATOR_METHODS:
            raise TranslateError(f'line {n.lineno}: an @ operator method is installed with {n.func.id}')
        if isinstance(n, ast.Constant) and isinstance(n.value, str) and n.value in ('@', '@=', 'matmul', 'rmatmul', 'imatmul'):
            raise TranslateError(f'line {n.lineno}: the string {n.value!r} may feed a method template (exec)')
        if isinstance(n, ast.Constant) and isinstance(n.value, str) and len(n.value) > 40 \
                and any(f'def {m}' in n.value for m in OPERATOR_METHODS):
            raise TranslateError(f'line {n.lineno}: an @ operator method is defined in a code template string')
    reached = {t for r in rows for t in r['trace']}
    missing = sorted(k for k in defs if k not in reached)
    if missing:
        raise TranslateError(f'@ operator definitions never executed by any table row: {missing}')
    return {'definitions': sorted(defs), 'rows_per_definition': {k: sum(1 for r in rows if k in r['trace']) for k in sorted(defs)}}


def dispatch_coq(rows: list[dict]) -> str:
    out = ['(* GENERATED by translate/c04_formulas.py from src/srctools/math.py (@ dispatch). Do not edit. *)',
           'From Coq Require Import List.', 'From SV Require Import Rot.RotDispatch.', 'Import ListNotations.', '',
           'Definition dispatch_table : list triple := [']
    items = []
    for r in rows:
        fm = {'matmul': 'FMatmul', 'imatmul': 'FImatmul', 'rmatmul': 'FRmatmul'}[r['form']]
        if r['kind'] == 'value':
            o = (f'OValue {COQ_CLS[r["cls"]]} {dict(L="IdL", R="IdR", fresh="IdFresh")[r["ident"]]} {term_coq(r["val"])} '
                 f'{term_coq(r["finalL"])} {term_coq(r["finalR"])}')
        else:
            o = 'ONone'
        items.append(f'  Triple {fm} {COQ_CLS[r["l"]]} {COQ_CLS[r["r"]]} {"true" if r["alias"] else "false"} ({o})')
    out.append(';\n'.join(items))
    out.append('].')
    out.append('')
    return '\n'.join(out)


# =============================================================================================== entry points
_CACHE: dict[str, Any] = {}


def analyse() -> dict[str, Any]:
    text = src_text('math.py')
    if _CACHE.get('text') != text:
        tree = ast.parse(text)
        C = Classes(tree)
        for c in ('VecBase', 'Vec', 'FrozenVec', 'MatrixBase', 'Matrix', 'FrozenMatrix', 'AngleBase', 'Angle', 'FrozenAngle'):
            if c not in C.cls:
                raise TranslateError(f'class {c} not found in math.py')
        F = extract_formulas(C)
        rows = dispatch_rows(C, F)
        census = operator_census(tree, C, rows)
        dig = {}
        for c in ('VecBase', 'Vec', 'MatrixBase', 'Matrix', 'AngleBase', 'Angle'):
            for m in ('__matmul__', '__rmatmul__', '__imatmul__', '_rotate_angle', 'inverse'):
                got = [f for f in C.cls[c].body if isinstance(f, ast.FunctionDef) and f.name == m
                       and not any(isinstance(d, ast.Name) and d.id == 'overload' for d in f.decorator_list)]
                if got:
                    dig[f'{c}.{m}'] = ast_digest(got[-1])
        _CACHE.update(text=text, F=F, rows=rows, digests=dig, census=census)
    return _CACHE


def translate_formulas() -> tuple[str, dict]:
    A = analyse()
    F = A['F']
    ta = F['to_angle']
    side = {'mat_mul_alias_safe': F['mat_mul_alias_safe'], 'copy_kind': F['copy_kind'],
            'to_angle_guard': f'{coq_expr(ta["guard"][0])} {ta["guard"][1]} {coq_expr(ta["guard"][2])}',
            'to_angle_mod_counts': {br: {f: ta[br][f][-1] for f in ANG_FIELDS} for br in ('main', 'lock')},
            'digests': A['digests']}
    return formulas_coq(F), side


def translate_dispatch() -> tuple[str, dict]:
    A = analyse()
    side = {'rows': [{k: (v if k not in ('val', 'finalL', 'finalR') else term_coq(v)) for k, v in r.items()} for r in A['rows']],
            'operator_census': A['census']}
    return dispatch_coq(A['rows']), side


def translate_reified() -> tuple[str, dict]:
    try:
        F = analyse()['F']
    except TranslateError:
        # the formula model cannot express today's code: read the decisive pieces anyway (see _TOLERANT)
        _TOLERANT[0] = True
        try:
            tree = ast.parse(src_text('math.py'))
            F = extract_formulas(Classes(tree))
        finally:
            _TOLERANT[0] = False
    return reified_coq(F)


GEN = {'RotFormulas_gen': translate_formulas, 'RotDispatch_gen': translate_dispatch, 'RotReified_gen': translate_reified}
