"""C10 translator: the lazy-lump dependency graph of srctools/bsp.py -> Gen/BspGraph_gen.v.

Extracted (all from the Python ast, fail-closed):
  * BSP_LUMPS member values, the game-lump id constants;
  * every `ParsedLump(main, *extra)` declaration in class BSP (view name, main lump, lumps cleared);
  * LUMP_REBUILD_ORDER;
  * for every view the functions `_lmp_read_<view>` / `_lmp_write_<view>` and, transitively, every BSP method or
    property they reference through `self.`: which views they look at (`self.<view>`, including a writer looking at
    its OWN view), which raw lumps they read (`self.lumps[BSP_LUMPS.X].data`) and which lumps they store
    (`self.lumps[BSP_LUMPS.X].data = ...`), with the condition under which the store is executed.

The graph uses positions in the rebuild order as view numbers (that is how SM/LazyLumps.v identifies views) and
BSP_LUMPS values as lump numbers (game lumps: 64 + k).  Anything unrecognised (aliasing `self.lumps`, passing
`self` to another function, getattr, a non-constant lump index, an unknown attribute of self) raises
TranslateError.  Also extracted:
  * the statement order of `ParsedLump.__get__` (every path through the body as a sequence of events: reader call,
    materialisation of a generator result, store into `_parsed_lumps`, store into a lump's `.data`) and the loop
    shape of `BSP.save` (does the rebuild loop walk LUMP_REBUILD_ORDER itself and test/pop the cache at every
    position, or a list of cached views computed beforehand) -> `bsp_shape : shape` and the path listing;
  * how every writer / reader USES the views it looks at: read-only (iteration, indexing, len ...) or appending
    (`find_or_insert(self.view)`, `find_or_extend`, `.append`, `.extend`) or otherwise mutating -> `bsp_view_uses`.
Branches guarded by `self.is_vitamin` belong to the VitaminSource layout; a store that is skipped
only by an early `if self.is_vitamin: return` is counted as unconditional and reported in the side info.
"""
from __future__ import annotations

import ast
import copy

from harness.common import TranslateError, ast_digest, src_text

GAME_LUMP_BASE = 64


def _is_self_attr(node: ast.AST, attr: str | None = None) -> bool:
    return (isinstance(node, ast.Attribute) and isinstance(node.value, ast.Name) and node.value.id == 'self'
            and (attr is None or node.attr == attr))


# ---------------------------------------------------------------------------------- normalisation (round 3)
STABLE_ATTRS = {'lumps', 'game_lumps', '_parsed_lumps', '_save_funcs'}


def _module_const_names(tree: ast.Module) -> set[str]:
    """Module-level names bound exactly once (by a plain assignment) in the whole module."""
    count: dict[str, int] = {}
    for n in ast.walk(tree):
        if isinstance(n, ast.Name) and isinstance(n.ctx, (ast.Store, ast.Del)):
            count[n.id] = count.get(n.id, 0) + 1
        elif isinstance(n, (ast.Global, ast.Nonlocal)):
            for nm in n.names:
                count[nm] = count.get(nm, 0) + 2
    out = set()
    for st in tree.body:
        tg = None
        if isinstance(st, ast.Assign) and len(st.targets) == 1 and isinstance(st.targets[0], ast.Name):
            tg = st.targets[0].id
        elif isinstance(st, ast.AnnAssign) and isinstance(st.target, ast.Name) and st.value is not None:
            tg = st.target.id
        if tg is not None and count.get(tg) == 1:
            out.add(tg)
    return out


def _is_stable_ref(v: ast.AST, roots: set[str], consts: set[str]) -> bool:
    """`self.lumps`, `self.game_lumps`, `self._parsed_lumps`, `self._save_funcs`, one fixed element of the first two
    (`self.lumps[BSP_LUMPS.X]`, `instance.game_lumps[self.lump]`), or a module-level constant: expressions that denote the
    same object wherever they are evaluated inside one lump function."""
    def root_attr(x: ast.AST) -> bool:
        return isinstance(x, ast.Attribute) and isinstance(x.value, ast.Name) and x.value.id in roots and x.attr in STABLE_ATTRS
    if root_attr(v):
        return True
    if isinstance(v, ast.Name) and v.id in consts:
        return True
    if isinstance(v, ast.Subscript) and root_attr(v.value) and v.value.attr in ('lumps', 'game_lumps'):
        k = v.slice
        if isinstance(k, ast.Constant) or (isinstance(k, ast.Name) and k.id in consts):
            return True
        if isinstance(k, ast.Attribute) and isinstance(k.value, ast.Name) and k.value.id in ({'BSP_LUMPS'} | roots):
            return True
    return False


def _inline_aliases(fn: ast.FunctionDef, consts: set[str], nested_blocks: bool = True) -> None:
    """In place: a local that is bound exactly once, by a plain assignment at the top level of the function body, to a
    stable reference (see _is_stable_ref) is replaced by that expression at every use and the binding is dropped.
    `lumps = self.lumps; lumps[K].data = x` thus reads `self.lumps[K].data = x`, `order = LUMP_REBUILD_ORDER; for v in order`
    reads `for v in LUMP_REBUILD_ORDER`."""
    params = {a.arg for a in fn.args.posonlyargs + fn.args.args + fn.args.kwonlyargs}
    if fn.args.vararg:
        params.add(fn.args.vararg.arg)
    if fn.args.kwarg:
        params.add(fn.args.kwarg.arg)
    roots = {a.arg for a in (fn.args.posonlyargs + fn.args.args)[:2]}      # self (and `instance` of a descriptor)
    for _ in range(4):          # an alias of an alias
        stores: dict[str, int] = {}
        for n in ast.walk(fn):
            if isinstance(n, ast.Name) and isinstance(n.ctx, (ast.Store, ast.Del)):
                stores[n.id] = stores.get(n.id, 0) + 1
            elif isinstance(n, (ast.Global, ast.Nonlocal)):
                for nm in n.names:
                    stores[nm] = stores.get(nm, 0) + 2
            elif isinstance(n, ast.arg) and n.arg not in params:      # lambda parameters shadow
                stores[n.arg] = stores.get(n.arg, 0) + 2
        # the roots' stable attributes must not be rebound inside the function
        rebound = any(isinstance(n, ast.Attribute) and isinstance(n.ctx, (ast.Store, ast.Del)) and isinstance(n.value, ast.Name)
                      and n.value.id in roots and n.attr in STABLE_ATTRS for n in ast.walk(fn))
        subst: dict[str, ast.AST] = {}

        def binding(st: ast.stmt) -> tuple[str | None, ast.AST | None]:
            if isinstance(st, ast.Assign) and len(st.targets) == 1 and isinstance(st.targets[0], ast.Name):
                return st.targets[0].id, st.value
            if isinstance(st, ast.AnnAssign) and isinstance(st.target, ast.Name) and st.value is not None:
                return st.target.id, st.value
            return None, None
        keep = []
        for st in fn.body:
            tg, val = binding(st)
            if tg is not None and tg not in params and stores.get(tg) == 1 and not rebound and tg not in subst \
                    and _is_stable_ref(val, roots, consts) and not any(isinstance(x, ast.Name) and x.id in subst for x in ast.walk(val)):
                subst[tg] = val
            else:
                keep.append(st)
        fn.body = keep
        # the same for a binding inside a nested block (`if ids: lump = self.lumps[K]; lump.data = ...`), provided every use of
        # the name lies in the statements that follow the binding in that block (so the binding always ran before the use)
        all_loads: dict[str, int] = {}
        for n in ast.walk(fn):
            if isinstance(n, ast.Name) and isinstance(n.ctx, ast.Load):
                all_loads[n.id] = all_loads.get(n.id, 0) + 1

        def nested(stmts: list[ast.stmt], top: bool) -> None:
            i = 0
            while i < len(stmts):
                st = stmts[i]
                tg, val = (None, None) if top else binding(st)
                if tg is not None and tg not in params and stores.get(tg) == 1 and not rebound and tg not in subst \
                        and _is_stable_ref(val, roots, consts) and not any(isinstance(x, ast.Name) and x.id in subst for x in ast.walk(val)):
                    after = sum(1 for later in stmts[i + 1:] for n in ast.walk(later)
                                if isinstance(n, ast.Name) and isinstance(n.ctx, ast.Load) and n.id == tg)
                    if after == all_loads.get(tg, 0):
                        subst[tg] = val
                        del stmts[i]
                        continue
                for field in ('body', 'orelse', 'finalbody'):
                    sub = getattr(st, field, None)
                    if isinstance(sub, list) and sub and isinstance(sub[0], ast.stmt):
                        nested(sub, False)
                        if not sub:
                            sub.append(ast.Pass())
                for h in getattr(st, 'handlers', []) or []:
                    nested(h.body, False)
                    if not h.body:
                        h.body.append(ast.Pass())
                i += 1
        if nested_blocks:
            nested(fn.body, True)
        if not subst:
            return
        keep = fn.body

        class Sub(ast.NodeTransformer):
            def visit_Name(self, node: ast.Name):
                if isinstance(node.ctx, ast.Load) and node.id in subst:
                    new = copy.deepcopy(subst[node.id])
                    for x in ast.walk(new):
                        if hasattr(x, 'lineno'):
                            x.lineno = node.lineno
                    return new
                return node
        fn.body = keep
        Sub().visit(fn)
        for n in ast.walk(fn):      # a substituted object that is the target of `.data = ` keeps Store on the attribute only
            if isinstance(n, ast.Attribute) and isinstance(n.ctx, ast.Store):
                for x in ast.walk(n.value):
                    if hasattr(x, 'ctx'):
                        x.ctx = ast.Load()
        ast.fix_missing_locations(fn)


def _const_list(node: ast.AST, tree: ast.Module, consts: set[str], where: str, depth: int = 0) -> list[ast.AST]:
    """Elements of a module-level list expression: a list/tuple display, `a + b`, `[*a, x]`, `list(a)`, or the name of a
    module-level constant bound to one of these."""
    if depth > 6:
        raise TranslateError(f'{where}: list expression nested too deeply')
    if isinstance(node, (ast.List, ast.Tuple)):
        out: list[ast.AST] = []
        for e in node.elts:
            if isinstance(e, ast.Starred):
                out += _const_list(e.value, tree, consts, where, depth + 1)
            else:
                out.append(e)
        return out
    if isinstance(node, ast.BinOp) and isinstance(node.op, ast.Add):
        return _const_list(node.left, tree, consts, where, depth + 1) + _const_list(node.right, tree, consts, where, depth + 1)
    if isinstance(node, ast.Call) and isinstance(node.func, ast.Name) and node.func.id in ('list', 'tuple') and len(node.args) == 1 \
            and not node.keywords:
        return _const_list(node.args[0], tree, consts, where, depth + 1)
    if isinstance(node, ast.Name) and node.id in consts and node.id != 'BSP_LUMPS':
        for st in tree.body:
            tg = st.targets[0] if isinstance(st, ast.Assign) and len(st.targets) == 1 else getattr(st, 'target', None)
            if isinstance(tg, ast.Name) and tg.id == node.id and getattr(st, 'value', None) is not None:
                return _const_list(st.value, tree, consts, where, depth + 1)
    raise TranslateError(f'{where}: not a list display (or a sum / unpacking of list displays): {ast.unparse(node)[:80]}')


def _inline_helper_calls(body: list[ast.stmt], methods: dict[str, ast.FunctionDef], funcs: dict[str, ast.FunctionDef],
                         self_name: str, where: str, depth: int = 0) -> list[ast.stmt]:
    """A statement that is just a call of a method of the same class (`self.h(a, b)`) or of a module-level function
    (`h(a, b)`) is replaced by the body of `h` with the parameters replaced by the argument expressions.  Only helpers
    without a return value, without yield/nested definitions and whose parameters are not rebound are followed; the
    arguments must be names, attributes of names or constants (evaluating them has no effect)."""
    if depth > 4:
        raise TranslateError(f'{where}: helper calls nested too deeply')
    out: list[ast.stmt] = []
    for st in body:
        for fld in ('body', 'orelse', 'finalbody'):
            if isinstance(getattr(st, fld, None), list) and not isinstance(st, (ast.FunctionDef, ast.ClassDef, ast.AsyncFunctionDef)):
                setattr(st, fld, _inline_helper_calls(getattr(st, fld), methods, funcs, self_name, where, depth))
        for h in getattr(st, 'handlers', []):
            h.body = _inline_helper_calls(h.body, methods, funcs, self_name, where, depth)
        call = st.value if isinstance(st, ast.Expr) and isinstance(st.value, ast.Call) else None
        target = None
        if call is not None:
            f = call.func
            if isinstance(f, ast.Attribute) and isinstance(f.value, ast.Name) and f.value.id == self_name and f.attr in methods:
                target, bound = methods[f.attr], [ast.Name(id=self_name, ctx=ast.Load())]
            elif isinstance(f, ast.Name) and f.id in funcs:
                target, bound = funcs[f.id], []
        if target is None:
            out.append(st)
            continue
        hw = f'{where}:{st.lineno}: helper {target.name}'
        a = target.args
        if a.vararg or a.kwarg or a.kwonlyargs or a.defaults or a.posonlyargs or target.decorator_list:
            raise TranslateError(f'{hw}: signature with defaults / *args / decorators is not followed')
        params = [x.arg for x in a.args]
        args = bound + list(call.args)
        if any(isinstance(x, ast.Starred) for x in args) or len(args) + len(call.keywords) != len(params):
            raise TranslateError(f'{hw}: arguments do not match the parameters')
        amap = dict(zip(params, args))
        for kw in call.keywords:
            if kw.arg is None or kw.arg not in params or kw.arg in amap:
                raise TranslateError(f'{hw}: keyword argument not matched')
            amap[kw.arg] = kw.value
        for x in amap.values():
            simple = isinstance(x, (ast.Name, ast.Constant)) or (isinstance(x, ast.Attribute) and isinstance(x.value, ast.Name)) \
                or (isinstance(x, ast.Subscript) and isinstance(x.value, ast.Attribute) and isinstance(x.value.value, ast.Name)
                    and isinstance(x.slice, ast.Slice))
            if not simple:
                raise TranslateError(f'{hw}: argument {ast.unparse(x)} is not a plain name / attribute')
        hbody = copy.deepcopy(target.body)
        if hbody and isinstance(hbody[0], ast.Expr) and isinstance(hbody[0].value, ast.Constant) and isinstance(hbody[0].value.value, str):
            hbody = hbody[1:]       # docstring
        if hbody and isinstance(hbody[-1], ast.Return) and hbody[-1].value is None:
            hbody = hbody[:-1]
        for n in [x for b in hbody for x in ast.walk(b)]:
            if isinstance(n, (ast.Return, ast.Yield, ast.YieldFrom, ast.FunctionDef, ast.AsyncFunctionDef, ast.ClassDef, ast.Lambda,
                              ast.Global, ast.Nonlocal)):
                raise TranslateError(f'{hw}: return / yield / nested definition inside the helper is not followed')
            if isinstance(n, ast.Name) and n.id in amap and not isinstance(n.ctx, ast.Load):
                raise TranslateError(f'{hw}: parameter {n.id} is rebound')

        class Sub(ast.NodeTransformer):
            def visit_Name(self, node: ast.Name):
                if node.id in amap:
                    new = copy.deepcopy(amap[node.id])
                    for x in ast.walk(new):
                        if hasattr(x, 'lineno'):
                            x.lineno = node.lineno
                    return new
                return node
        hbody = [Sub().visit(b) for b in hbody]
        for b in hbody:
            ast.fix_missing_locations(b)
        out += _inline_helper_calls(hbody or [ast.Pass(lineno=st.lineno, col_offset=0)], methods, funcs, self_name, where, depth + 1)
    return out


def _unrollable(st: ast.For) -> bool:
    """A for-loop over a non-empty tuple/list display whose target is a name or a flat tuple of names matched by every
    element, without else / break / continue, whose body does not rebind the target names."""
    if not isinstance(st.iter, (ast.Tuple, ast.List)) or not st.iter.elts or st.orelse or len(st.iter.elts) > 16:
        return False
    if any(isinstance(e, ast.Starred) for e in st.iter.elts):
        return False
    if isinstance(st.target, ast.Name):
        names = [st.target.id]
    elif isinstance(st.target, (ast.Tuple, ast.List)) and all(isinstance(t, ast.Name) for t in st.target.elts):
        names = [t.id for t in st.target.elts]
        if not all(isinstance(e, (ast.Tuple, ast.List)) and len(e.elts) == len(names)
                   and not any(isinstance(x, ast.Starred) for x in e.elts) for e in st.iter.elts):
            return False
    else:
        return False
    for b in st.body:
        for n in ast.walk(b):
            if isinstance(n, (ast.Break, ast.Continue, ast.FunctionDef, ast.Lambda, ast.ClassDef)):
                return False
            if isinstance(n, ast.Name) and n.id in names and not isinstance(n.ctx, ast.Load):
                return False
    return True


def _bind_loop_target(st: ast.For, elt: ast.AST) -> list[ast.stmt]:
    if isinstance(st.target, ast.Name):
        amap = {st.target.id: elt}
    else:
        amap = {t.id: e for t, e in zip(st.target.elts, elt.elts)}

    class Sub(ast.NodeTransformer):
        def visit_Name(self, node: ast.Name):
            if node.id in amap:
                new = copy.deepcopy(amap[node.id])
                for x in ast.walk(new):
                    if hasattr(x, 'lineno'):
                        x.lineno = node.lineno
                return new
            return node
    body = [Sub().visit(copy.deepcopy(b)) for b in st.body]
    for b in body:
        ast.fix_missing_locations(b)
    return body


class _Module:
    def __init__(self) -> None:
        self.tree = ast.parse(src_text('bsp.py'))
        self.lump_vals: dict[str, int] = {}
        self.consts: dict[str, bytes] = {}
        self.order: list[str] = []          # lump keys: 'L:NAME' or 'G:<const name>'
        self.views: dict[str, tuple[str, list[str]]] = {}   # view -> (main key, [extra keys])
        self.methods: dict[str, ast.FunctionDef] = {}
        self.init_attrs: set[str] = set()
        self.bsp: ast.ClassDef | None = None
        self._scan()

    # ------------------------------------------------------------------ declarations
    def lump_key(self, node: ast.AST, where: str) -> str:
        if isinstance(node, ast.Attribute) and isinstance(node.value, ast.Name) and node.value.id == 'BSP_LUMPS':
            if node.attr not in self.lump_vals:
                raise TranslateError(f'{where}: unknown BSP_LUMPS member {node.attr}')
            return 'L:' + node.attr
        if isinstance(node, ast.Name) and node.id in self.consts:
            return 'G:' + node.id
        if isinstance(node, ast.Constant) and isinstance(node.value, bytes):
            for k, v in self.consts.items():
                if v == node.value:
                    return 'G:' + k
        raise TranslateError(f'{where}: lump index is not a BSP_LUMPS member or game-lump constant: {ast.unparse(node)}')

    def _scan(self) -> None:
        self.const_names = _module_const_names(self.tree)
        for n in self.tree.body:        # normalise the functions the translator interprets (see _inline_aliases)
            if isinstance(n, ast.ClassDef) and n.name in ('BSP', 'ParsedLump'):
                for f in n.body:
                    if isinstance(f, ast.FunctionDef):
                        # ParsedLump.__get__ / __set__ are read path by path with their local aliases of the lump objects: top level only
                        _inline_aliases(f, self.const_names, nested_blocks=n.name == 'BSP' and f.name not in ('save', 'read'))
        for n in self.tree.body:
            if isinstance(n, ast.ClassDef) and n.name == 'BSP_LUMPS':
                for st in n.body:
                    if isinstance(st, ast.Assign) and len(st.targets) == 1 and isinstance(st.targets[0], ast.Name):
                        if not (isinstance(st.value, ast.Constant) and isinstance(st.value.value, int)):
                            raise TranslateError(f'bsp.py:{st.lineno}: BSP_LUMPS member is not an int literal')
                        self.lump_vals[st.targets[0].id] = st.value.value
            elif isinstance(n, ast.Assign) and len(n.targets) == 1 and isinstance(n.targets[0], ast.Name) \
                    and isinstance(n.value, ast.Constant) and isinstance(n.value.value, bytes) \
                    and n.targets[0].id.startswith('LMP_ID_'):
                self.consts[n.targets[0].id] = n.value.value
        if len(self.lump_vals) < 60:
            raise TranslateError('class BSP_LUMPS not recognised')
        for n in self.tree.body:
            tgt = None
            if isinstance(n, ast.AnnAssign) and isinstance(n.target, ast.Name):
                tgt, val = n.target.id, n.value
            elif isinstance(n, ast.Assign) and len(n.targets) == 1 and isinstance(n.targets[0], ast.Name):
                tgt, val = n.targets[0].id, n.value
            if tgt == 'LUMP_REBUILD_ORDER':
                elts = _const_list(val, self.tree, self.const_names, f'bsp.py:{n.lineno} LUMP_REBUILD_ORDER')
                self.order = [self.lump_key(e, f'bsp.py:{e.lineno} LUMP_REBUILD_ORDER') for e in elts]
            if isinstance(n, ast.ClassDef) and n.name == 'BSP':
                self.bsp = n
        # LUMP_REBUILD_ORDER must not be mutated after its definition
        for node in ast.walk(self.tree):
            if isinstance(node, ast.Attribute) and isinstance(node.value, ast.Name) and node.value.id == 'LUMP_REBUILD_ORDER' \
                    and node.attr in ('append', 'insert', 'remove', 'pop', 'sort', 'reverse', 'extend', 'clear'):
                raise TranslateError(f'bsp.py:{node.lineno}: LUMP_REBUILD_ORDER is mutated')
            if isinstance(node, (ast.Assign, ast.AugAssign, ast.Delete)):
                tg = node.targets if isinstance(node, (ast.Assign, ast.Delete)) else [node.target]
                for t in tg:
                    if isinstance(t, ast.Subscript) and isinstance(t.value, ast.Name) and t.value.id == 'LUMP_REBUILD_ORDER':
                        raise TranslateError(f'bsp.py:{node.lineno}: LUMP_REBUILD_ORDER is mutated')
        if not self.order or self.bsp is None:
            raise TranslateError('LUMP_REBUILD_ORDER or class BSP not found')
        for st in self.bsp.body:
            if isinstance(st, (ast.FunctionDef, ast.AsyncFunctionDef)):
                if isinstance(st, ast.AsyncFunctionDef):
                    raise TranslateError(f'bsp.py:{st.lineno}: async method')
                # overloads: the last definition wins, like at run time
                self.methods[st.name] = st
            val = None
            if isinstance(st, ast.AnnAssign) and isinstance(st.target, ast.Name):
                name, val = st.target.id, st.value
            elif isinstance(st, ast.Assign) and len(st.targets) == 1 and isinstance(st.targets[0], ast.Name):
                name, val = st.targets[0].id, st.value
            if val is not None and isinstance(val, ast.Call) and isinstance(val.func, ast.Name) and val.func.id == 'ParsedLump':
                if val.keywords or any(isinstance(a, ast.Starred) for a in val.args) or not val.args:
                    raise TranslateError(f'bsp.py:{st.lineno}: ParsedLump declaration not recognised')
                keys = [self.lump_key(a, f'bsp.py:{st.lineno} ParsedLump') for a in val.args]
                self.views[name] = (keys[0], keys[1:])
        init = self.methods.get('__init__')
        if init is None:
            raise TranslateError('BSP.__init__ not found')
        for node in ast.walk(init):
            if isinstance(node, (ast.Assign, ast.AnnAssign)):
                tg = node.targets if isinstance(node, ast.Assign) else [node.target]
                for t in tg:
                    if _is_self_attr(t):
                        self.init_attrs.add(t.attr)
        # class-level annotations of plain attributes (version, game_ver, lump_layout, map_revision)
        for st in self.bsp.body:
            if isinstance(st, ast.AnnAssign) and isinstance(st.target, ast.Name) and st.value is None:
                self.init_attrs.add(st.target.id)
        for node in ast.walk(self.methods['read']) if 'read' in self.methods else ():
            if isinstance(node, ast.Assign):
                for t in node.targets:
                    if _is_self_attr(t):
                        self.init_attrs.add(t.attr)

    # ------------------------------------------------------------------ lumps stored on every path
    def must_store(self, fname: str, _stack: tuple[str, ...] = ()) -> set[str]:
        """Lump keys that BSP.<fname> stores on EVERY path that ends normally (falls off the end or returns): `if c: A = x;
        return` followed by `A = y`, or `if c: A = x else: A = y`, store A unconditionally although each single store is
        guarded.  A path that raises writes no file and is ignored; a loop body may run zero times (except a loop over a
        literal, which is unrolled); an exception handler starts from what was stored before the `try`; helper methods
        called as a statement (or as the value of an assignment / return / yield) contribute what they store on every
        path.  As everywhere in this translator, the branch of a `self.is_vitamin` test that belongs to the VitaminSource
        layout is left out."""
        if fname in _stack or len(_stack) > 6 or fname not in self.methods:
            return set()
        stack = _stack + (fname,)

        def simple(st: ast.stmt) -> set[str]:
            out: set[str] = set()
            targets: list[ast.AST] = []
            if isinstance(st, ast.Assign):
                targets = list(st.targets)
            elif isinstance(st, (ast.AnnAssign, ast.AugAssign)):
                targets = [st.target]
            for t in targets:
                for x in ([t] if not isinstance(t, (ast.Tuple, ast.List)) else t.elts):
                    if isinstance(x, ast.Attribute) and x.attr == 'data' and isinstance(x.value, ast.Subscript) \
                            and _is_self_attr(x.value.value) and x.value.value.attr in ('lumps', 'game_lumps'):
                        try:
                            out.add(self.lump_key(x.value.slice, fname))
                        except TranslateError:
                            pass        # reported by effects()
            val = getattr(st, 'value', None)
            if isinstance(val, (ast.Yield, ast.YieldFrom, ast.Await)):
                val = val.value
            if isinstance(val, ast.Call) and _is_self_attr(val.func) and val.func.attr in self.methods:
                out |= self.must_store(val.func.attr, stack)
            return out

        def vit(test: ast.AST) -> str | None:
            t = ast.unparse(test)
            return 'body' if t == 'self.is_vitamin' else 'orelse' if t in ('not self.is_vitamin', 'not (self.is_vitamin)') else None

        def meet(xs: list) -> set[str] | None:
            xs = [x for x in xs if x is not None]
            if not xs:
                return None
            out = set(xs[0])
            for x in xs[1:]:
                out &= x
            return out

        def block(stmts: list[ast.stmt], cur: set[str] | None) -> tuple[set[str] | None, list[set[str]]]:
            rets: list[set[str]] = []
            for st in stmts:
                if cur is None:
                    break
                if isinstance(st, ast.Return):
                    rets.append(cur | simple(st))
                    cur = None
                elif isinstance(st, ast.Raise):
                    cur = None
                elif isinstance(st, ast.If):
                    a, ra = block(st.body, set(cur))
                    b, rb = block(st.orelse, set(cur))
                    v = vit(st.test)
                    if v == 'body':
                        rets += rb
                        cur = b if b is not None else a
                    elif v == 'orelse':
                        rets += ra
                        cur = a if a is not None else b
                    else:
                        rets += ra + rb
                        cur = meet([a, b])
                elif isinstance(st, ast.For) and _unrollable(st):
                    for elt in st.iter.elts:
                        cur, r = block(_bind_loop_target(st, elt), cur)
                        rets += r
                        if cur is None:
                            break
                elif isinstance(st, (ast.For, ast.While)):
                    _, r = block(st.body, set(cur))
                    _, r2 = block(st.orelse, set(cur))
                    rets += r + r2
                elif isinstance(st, ast.Try):
                    b, rb = block(st.body, set(cur))
                    hs = []
                    for h in st.handlers:
                        x, rx = block(h.body, set(cur))
                        hs.append(x)
                        rets += rx
                    e, re_ = block(st.orelse, b) if b is not None else (None, [])
                    rets += rb + re_
                    fall = meet([e] + hs) if (e is not None or any(x is not None for x in hs)) else None
                    if fall is not None:
                        fall, rf = block(st.finalbody, fall)
                        rets += rf
                    cur = fall
                elif isinstance(st, ast.With):
                    cur, r = block(st.body, cur)
                    rets += r
                elif isinstance(st, (ast.FunctionDef, ast.AsyncFunctionDef, ast.ClassDef, ast.Match)):
                    pass
                else:
                    cur = cur | simple(st)
            return cur, rets

        fall, rets = block(self.methods[fname].body, set())
        return meet([fall] + rets) or set()

    def recorded_version_expr(self, val: ast.AST, line: int, where: str) -> bool:
        """Is the value stored into a lump's header version the number the READER recorded for this object, i.e.
        `self.static_prop_version.version` (the reader sets static_prop_version from the header number of the file through
        a table keyed by that number)?  A local name counts when EVERY assignment to it that precedes the store in the
        function is that expression."""
        def recorded(e: ast.AST) -> bool:
            return isinstance(e, ast.Attribute) and e.attr == 'version' and _is_self_attr(e.value) and e.value.attr == 'static_prop_version'
        if recorded(val):
            return True
        fname = where.rsplit('BSP.', 1)[-1].split(':')[0]
        fn = self.methods.get(fname)
        if isinstance(val, ast.Name) and fn is not None:
            defs = [st.value for st in ast.walk(fn) if isinstance(st, ast.Assign) and st.lineno < line
                    and any(isinstance(t, ast.Name) and t.id == val.id for t in st.targets)]
            others = [st for st in ast.walk(fn) if isinstance(st, (ast.AugAssign, ast.AnnAssign, ast.For, ast.NamedExpr)) and st.lineno < line
                      and any(isinstance(x, ast.Name) and x.id == val.id and isinstance(x.ctx, ast.Store) for x in ast.walk(st))]
            return bool(defs) and not others and all(recorded(d) for d in defs)
        return False

    def version_table_keyed_by_header_number(self) -> bool:
        """`_STATIC_PROP_VERSIONS = {(ver.version, ver.size): ver for ver in StaticPropVersion ...}`: the version the reader
        looks up under the header number of the file has that number as its `.version`."""
        for n in self.tree.body:
            tg = n.targets[0] if isinstance(n, ast.Assign) and len(n.targets) == 1 else n.target if isinstance(n, ast.AnnAssign) else None
            if isinstance(tg, ast.Name) and tg.id == '_STATIC_PROP_VERSIONS':
                d = n.value
                if isinstance(d, ast.DictComp) and len(d.generators) == 1 and isinstance(d.generators[0].target, ast.Name):
                    var = d.generators[0].target.id
                    k = d.key
                    return bool(isinstance(d.value, ast.Name) and d.value.id == var and isinstance(k, ast.Tuple) and k.elts
                                and isinstance(k.elts[0], ast.Attribute) and k.elts[0].attr == 'version'
                                and isinstance(k.elts[0].value, ast.Name) and k.elts[0].value.id == var)
                return False
        return False

    def lump_num(self, key: str) -> int:
        if key.startswith('L:'):
            return self.lump_vals[key[2:]]
        return GAME_LUMP_BASE + sorted(self.consts).index(key[2:])

    # ------------------------------------------------------------------ effects of a function
    def effects(self, fname: str, where: str) -> dict:
        """Views looked at, raw lumps read and lumps stored by BSP.<fname>, transitively through self.<method>."""
        out = {'views': {}, 'raw_reads': {}, 'stores': [], 'helpers': []}
        seen: set[str] = set()

        param_alias: dict[str, dict[str, str]] = {}     # callee -> parameter name -> view handed in
        elem_taint: dict[str, dict[str, set[str]]] = {}  # callee -> parameter name -> views whose objects are handed in

        def visit_func(name: str, ctx: tuple[str, ...]) -> None:
            if name in seen:
                return
            seen.add(name)
            fn = self.methods[name]
            if name != fname:
                out['helpers'].append(name)
            # local names / parameters that ARE a view: `x = self.view`, or a view handed in by the caller
            alias = dict(param_alias.get(name, {}))
            defs: set[int] = set()
            for n in ast.walk(fn):
                if isinstance(n, (ast.Assign, ast.AnnAssign)) and n.value is not None and _is_self_attr(n.value) \
                        and n.value.attr in self.views:
                    tg = n.targets if isinstance(n, ast.Assign) else [n.target]
                    if len(tg) == 1 and isinstance(tg[0], ast.Name):
                        if alias.get(tg[0].id, n.value.attr) != n.value.attr:
                            raise TranslateError(f'bsp.py BSP.{name}:{n.lineno}: {tg[0].id} names two different views')
                        alias[tg[0].id] = n.value.attr
                        defs.add(id(tg[0]))
            par = _parents(fn)
            for n in ast.walk(fn):
                if isinstance(n, ast.Call) and _is_self_attr(n.func) and n.func.attr in self.methods:
                    callee = self.methods[n.func.attr]
                    params = [a.arg for a in callee.args.args[1:]]
                    for k, a in enumerate(n.args):
                        v = a.attr if (_is_self_attr(a) and a.attr in self.views) else (alias.get(a.id) if isinstance(a, ast.Name) else None)
                        if v is not None:
                            if k >= len(params) or n.func.attr in seen and param_alias.get(n.func.attr, {}).get(params[k]) != v:
                                raise TranslateError(f'bsp.py BSP.{name}:{n.lineno}: view handed to self.{n.func.attr} in an untracked way')
                            param_alias.setdefault(n.func.attr, {})[params[k]] = v
                if isinstance(n, ast.Name) and n.id in alias and id(n) not in defs:
                    if not isinstance(n.ctx, ast.Load):
                        raise TranslateError(f'bsp.py BSP.{name}:{n.lineno}: {n.id} (a view) is rebound')
                    k = _classify_use(n, par)
                    if k == 'alias':
                        raise TranslateError(f'bsp.py BSP.{name}:{n.lineno}: view alias {n.id} aliased again')
                    if k != 'param':
                        out.setdefault('uses', []).append((alias[n.id], k, n.lineno))
            calls_out: dict[str, dict[int, set[str]]] = {}
            muts = _element_mutations(fn, alias, set(self.views), elem_taint.get(name), calls_out)
            for v in sorted({v for v, _, _ in muts}):
                late = name == fname and _mutations_come_last(fn, [n for w, _, n in muts if w == v])
                for w, line, _ in muts:
                    if w == v:
                        out.setdefault('elem_mut', []).append((v, line, late))
            for callee_name, by_pos in calls_out.items():
                if callee_name not in self.methods:
                    continue
                cfn = self.methods[callee_name]
                static = any(isinstance(d, ast.Name) and d.id == 'staticmethod' for d in cfn.decorator_list)
                cparams = [a.arg for a in cfn.args.args[0 if static else 1:]]
                for k, vs in by_pos.items():
                    if k >= len(cparams):
                        raise TranslateError(f'bsp.py BSP.{name}: object of a view handed to self.{callee_name} in an untracked way')
                    have = elem_taint.setdefault(callee_name, {}).setdefault(cparams[k], set())
                    if callee_name in seen and not vs <= have:
                        raise TranslateError(f'bsp.py BSP.{name}: self.{callee_name} receives objects of {sorted(vs - have)} after it was analysed')
                    have |= vs
            self._walk_body(fn.body, ctx, out, visit_func, f'bsp.py BSP.{name}')

        if fname not in self.methods:
            raise TranslateError(f'{where}: BSP.{fname} not found')
        visit_func(fname, ())
        return out

    def _walk_body(self, body: list[ast.stmt], ctx: tuple[str, ...], out: dict, visit_func, where: str) -> None:
        """Statements in order; `ctx` is the tuple of guards under which they run."""
        early: tuple[str, ...] = ()
        for st in body:
            c = ctx + early
            if isinstance(st, ast.If):
                test = ast.unparse(st.test)
                self._expr(st.test, c, out, visit_func, where)
                self._walk_body(st.body, c + (test,), out, visit_func, where)
                self._walk_body(st.orelse, c + (f'not ({test})',), out, visit_func, where)
                if _has_return(st.body) and not _has_return(st.orelse):
                    early += (f'after-return-if ({test})',)
                elif _has_return(st.orelse) and not _has_return(st.body):
                    early += (f'after-return-if (not ({test}))',)
            elif isinstance(st, ast.For) and _unrollable(st):
                # `for lump, buf in ((BSP_LUMPS.A, a), (BSP_LUMPS.B, b)): self.lumps[lump].data = ...`: a loop over a
                # non-empty display is its body once per element, executed unconditionally
                self._expr(st.iter, c, out, visit_func, where)
                for elt in st.iter.elts:
                    self._walk_body(_bind_loop_target(st, elt), c, out, visit_func, where)
            elif isinstance(st, (ast.For, ast.While)):
                if isinstance(st, ast.For):
                    self._expr(st.iter, c, out, visit_func, where)
                    self._expr(st.target, c, out, visit_func, where)
                    g = f'for {ast.unparse(st.target)}'
                else:
                    self._expr(st.test, c, out, visit_func, where)
                    g = f'while {ast.unparse(st.test)}'
                self._walk_body(st.body, c + (g,), out, visit_func, where)
                self._walk_body(st.orelse, c + (g + ' else',), out, visit_func, where)
            elif isinstance(st, ast.Try):
                self._walk_body(st.body, c + ('try',), out, visit_func, where)
                for h in st.handlers:
                    self._walk_body(h.body, c + ('except',), out, visit_func, where)
                self._walk_body(st.orelse, c + ('try-else',), out, visit_func, where)
                self._walk_body(st.finalbody, c, out, visit_func, where)
            elif isinstance(st, ast.With):
                for it in st.items:
                    self._expr(it.context_expr, c, out, visit_func, where)
                self._walk_body(st.body, c, out, visit_func, where)
            elif isinstance(st, (ast.FunctionDef, ast.ClassDef, ast.AsyncFunctionDef, ast.Match)):
                raise TranslateError(f'{where}:{st.lineno}: nested def/class/match inside a lump function')
            else:
                self._expr(st, c, out, visit_func, where)

    def _expr(self, node: ast.AST, ctx: tuple[str, ...], out: dict, visit_func, where: str) -> None:
        """Classify every use of `self` inside an expression or simple statement."""
        consumed: set[int] = set()
        par = _parents(node)
        for n in ast.walk(node):
            # self.lumps[K].data / self.game_lumps[K].data
            if isinstance(n, ast.Attribute) and isinstance(n.value, ast.Subscript) and _is_self_attr(n.value.value) \
                    and n.value.value.attr in ('lumps', 'game_lumps'):
                key = self.lump_key(n.value.slice, f'{where}:{n.lineno}')
                consumed.update((id(n.value), id(n.value.value), id(n.value.value.value)))
                if n.attr == 'data':
                    if isinstance(n.ctx, ast.Store):
                        out['stores'].append((key, ctx, n.lineno))
                    elif isinstance(n.ctx, ast.Load):
                        out['raw_reads'].setdefault(key, n.lineno)
                    else:
                        raise TranslateError(f'{where}:{n.lineno}: del of lump data')
                elif n.attr in ('version', 'flags', 'is_compressed', 'type', 'id') and isinstance(n.ctx, ast.Load):
                    pass
                elif n.attr == 'version' and isinstance(n.ctx, ast.Store) and isinstance(par.get(id(n)), ast.Assign) \
                        and len(par[id(n)].targets) == 1 and par[id(n)].targets[0] is n:
                    # the header version of a lump set by a reader / writer: given a meaning by the caller (a cell of the file
                    # that no look clears; a look + save must leave it equal)
                    out.setdefault('version_stores', []).append((key, par[id(n)].value, n.lineno, ctx, where))
                else:
                    raise TranslateError(f'{where}:{n.lineno}: unrecognised use of a lump object: {ast.unparse(n)}')
        for n in ast.walk(node):
            if isinstance(n, ast.Subscript) and _is_self_attr(n.value) and n.value.attr in ('lumps', 'game_lumps') \
                    and id(n) not in consumed:
                raise TranslateError(f'{where}:{n.lineno}: lump object escapes: {ast.unparse(n)}')
            if _is_self_attr(n):
                if id(n) in consumed:
                    continue
                consumed.add(id(n.value))
                a = n.attr
                if a in self.views:
                    if not isinstance(n.ctx, ast.Load):
                        raise TranslateError(f'{where}:{n.lineno}: lump function assigns view self.{a}')
                    out['views'].setdefault(a, n.lineno)
                    k = _classify_use(n, par)
                    if k not in ('alias', 'param'):
                        out.setdefault('uses', []).append((a, k, n.lineno))
                elif a in self.methods:
                    visit_func(a, ctx)
                elif a in ('lumps', 'game_lumps', '_parsed_lumps', '_save_funcs', '__dict__', '__class__'):
                    raise TranslateError(f'{where}:{n.lineno}: self.{a} used outside the recognised patterns')
                elif a in self.init_attrs:
                    pass
                else:
                    raise TranslateError(f'{where}:{n.lineno}: unknown attribute self.{a}')
        for n in ast.walk(node):
            if isinstance(n, ast.Name) and n.id == 'self' and id(n) not in consumed:
                raise TranslateError(f'{where}:{n.lineno}: `self` escapes (passed on or aliased)')
            if isinstance(n, ast.Name) and n.id in ('getattr', 'setattr', 'vars', 'delattr', 'eval', 'exec'):
                raise TranslateError(f'{where}:{n.lineno}: dynamic attribute access ({n.id})')
            if isinstance(n, ast.Lambda):
                pass   # bodies are walked by ast.walk above


APPENDERS = {'find_or_insert', 'find_or_extend'}            # binformat helpers: only ever append to the list they wrap
APPEND_METHODS = {'append', 'extend'}
MUTATE_METHODS = {'insert', 'pop', 'remove', 'clear', 'sort', 'reverse', 'update', 'add', 'discard', 'setdefault',
                  'popitem', '__setitem__', '__delitem__', 'writestr', 'write'}
PURE_FUNCS = {'len', 'enumerate', 'iter', 'list', 'tuple', 'sorted', 'reversed', 'zip', 'set', 'frozenset', 'dict', 'bool',
              'min', 'max', 'sum', 'any', 'all', 'map', 'filter', 'range', 'isinstance', 'id', 'repr', 'str', 'next'}


def _parents(root: ast.AST) -> dict[int, ast.AST]:
    par: dict[int, ast.AST] = {}
    for p in ast.walk(root):
        for c in ast.iter_child_nodes(p):
            par[id(c)] = p
    return par


def _classify_use(n: ast.Attribute, par: dict[int, ast.AST]) -> str:
    """How an occurrence `self.<view>` is used: 'read', 'append', 'mutate' or 'escape' (handed to unknown code)."""
    p = par.get(id(n))
    if isinstance(p, ast.Call) and n in p.args and _is_self_attr(p.func):
        return 'param'              # handed to another BSP method: followed through the parameter (effects.visit_func)
    if isinstance(p, (ast.Assign, ast.AnnAssign)) and p.value is n:
        tg = p.targets if isinstance(p, ast.Assign) else [p.target]
        if len(tg) == 1 and isinstance(tg[0], ast.Name):
            return 'alias'          # `name = self.view`: the uses of `name` are classified instead
    if isinstance(p, ast.Call) and n in p.args:
        f = p.func
        fname = f.id if isinstance(f, ast.Name) else (f.attr if isinstance(f, ast.Attribute) else None)
        if fname in APPENDERS:
            return 'append'
        if fname in PURE_FUNCS:
            return 'read'
        return 'escape'
    if isinstance(p, ast.Call) and any(k.value is n for k in p.keywords):
        return 'escape'
    if isinstance(p, ast.Attribute) and p.value is n:
        pp = par.get(id(p))
        if isinstance(pp, ast.Call) and pp.func is p:
            if p.attr in APPEND_METHODS:
                return 'append'
            if p.attr in MUTATE_METHODS:
                return 'mutate'
            return 'read'           # .index(), .items(), .get(), .namelist() ...
        if isinstance(p.ctx, (ast.Store, ast.Del)):
            return 'mutate'
        return 'read'
    if isinstance(p, ast.Subscript) and p.value is n:
        return 'mutate' if isinstance(p.ctx, (ast.Store, ast.Del)) else 'read'
    if isinstance(p, (ast.Assign, ast.AnnAssign, ast.NamedExpr, ast.Return, ast.Yield, ast.YieldFrom, ast.Starred,
                      ast.List, ast.Tuple, ast.Dict, ast.Set)):
        return 'escape'             # aliased: later uses are not tracked
    if isinstance(p, ast.AugAssign) and p.target is n:
        return 'mutate'
    return 'read'                   # for-iteration, comparison, boolean test, comprehension source, f-string ...


def _element_mutations(fn: ast.FunctionDef, alias: dict[str, str], views: set[str],
                       param_taint: dict[str, set[str]] | None = None,
                       calls_out: dict[str, dict[int, set[str]]] | None = None) -> list[tuple[str, int]]:
    """Objects REACHED THROUGH a view that the function changes in place (the view container itself is classified by
    _classify_use): `vmf = self.ents; for ent in vmf.entities: ent.pop('model')`, `of = orig_faces[i]; of.texinfo = t`.
    A local name is tainted by view V when it is bound (assignment, for target, comprehension target, with-as, walrus)
    from an expression that mentions `self.V`, an alias of V or a name tainted by V.  A change is an attribute / item
    store or delete, an augmented assignment to an attribute / item, or a call of an appending / mutating method, whose
    receiver chain (attributes, subscripts, method calls) is rooted at a tainted name — or at the view itself and at
    least two links long.  May-analysis: over-approximate (a number computed from a view taints its name, but numbers
    have no attribute stores); the result is a census of (view) pairs, compared with the list that was reviewed."""
    taint: dict[str, set[str]] = {k: set(v) for k, v in (param_taint or {}).items()}
    me = fn.args.args[0].arg if fn.args.args else ''
    holder: dict[str, set[str]] = {}     # local containers that were handed such objects: `d[ent] = x`, `l.append(ent)`

    def mentions(e: ast.AST) -> set[str]:
        """Views through which the object denoted by `e` may be reached.  `a[i]` and `a.f` are reached through `a` (the
        index only selects); any other expression may hand on whatever its sub-expressions denote."""
        if isinstance(e, ast.Name):
            return ({alias[e.id]} if e.id in alias else set()) | taint.get(e.id, set()) | holder.get(e.id, set())
        if _is_self_attr(e) and e.attr in views:
            return {e.attr}
        if isinstance(e, (ast.Subscript, ast.Attribute, ast.Starred)):
            return mentions(e.value)
        out: set[str] = set()
        if isinstance(e, ast.Call):
            # a method of such an object (or of a container of them) hands out its parts: `vmf.by_class[c]`, `d.items()`;
            # a function of a module (`itertools.zip_longest(a, b)`) and the re-packing builtins hand on their arguments;
            # any other call (a constructor: `BModel(..., self.nodes[i])`, `int(x)`) makes a new object of the caller's own
            args = list(e.args) + [k.value for k in e.keywords]
            if isinstance(e.func, ast.Attribute):
                out = mentions(e.func.value)
                if not out and isinstance(e.func.value, ast.Name):
                    for a in args:
                        out |= mentions(a)
            elif isinstance(e.func, ast.Name) and e.func.id in _REPACKING:
                for a in args:
                    out |= mentions(a)
            return out
        for ch in ast.iter_child_nodes(e):
            out |= mentions(ch)
        return out

    def bind(target: ast.AST, vs: set[str]) -> bool:
        ch = False
        for x in ast.walk(target):
            if isinstance(x, ast.Name) and isinstance(x.ctx, ast.Store) and x.id not in alias:
                if not vs <= taint.get(x.id, set()):
                    taint.setdefault(x.id, set()).update(vs)
                    ch = True
        return ch

    for _ in range(12):
        changed = False
        for n in ast.walk(fn):
            if isinstance(n, ast.Assign):
                vs = mentions(n.value)
                for t in n.targets:
                    if vs:
                        changed |= bind(t, vs)
                    # a local container that receives such an object (as key or value) hands it on: `d[ent] = x`
                    if isinstance(t, ast.Subscript):
                        r = t.value
                        while isinstance(r, (ast.Subscript, ast.Attribute)):
                            r = r.value
                        ws = vs | mentions(t.slice)
                        if isinstance(r, ast.Name) and r.id not in alias and r.id != me and ws and not ws <= holder.get(r.id, set()):
                            holder.setdefault(r.id, set()).update(ws)
                            changed = True
            elif isinstance(n, ast.Call) and isinstance(n.func, ast.Attribute) and isinstance(n.func.value, ast.Name) \
                    and n.func.attr in (APPEND_METHODS | {'add', 'insert', 'setdefault', 'update'}) and n.func.value.id not in alias \
                    and n.func.value.id != me:
                ws = set()
                for a in n.args:
                    ws |= mentions(a)
                if ws and not ws <= holder.get(n.func.value.id, set()):
                    holder.setdefault(n.func.value.id, set()).update(ws)
                    changed = True
            elif isinstance(n, (ast.AnnAssign, ast.NamedExpr)) and getattr(n, 'value', None) is not None:
                vs = mentions(n.value)
                if vs:
                    changed |= bind(n.target, vs)
            elif isinstance(n, (ast.For, ast.comprehension)):
                vs = mentions(n.iter)
                if vs:
                    changed |= bind(n.target, vs)
            elif isinstance(n, ast.withitem) and n.optional_vars is not None:
                vs = mentions(n.context_expr)
                if vs:
                    changed |= bind(n.optional_vars, vs)
        if not changed:
            break
    else:
        raise TranslateError(f'bsp.py BSP.{fn.name}: element taint does not stabilise')

    def root(e: ast.AST) -> tuple[set[str], int]:
        """Views at the root of a receiver chain and the number of links below the root."""
        depth = 0
        while True:
            if isinstance(e, (ast.Attribute, ast.Subscript)):
                if _is_self_attr(e) and e.attr in views:
                    return {e.attr}, depth
                e, depth = e.value, depth + 1
            elif isinstance(e, ast.Call) and isinstance(e.func, ast.Attribute):
                e, depth = e.func.value, depth + 1
            else:
                break
        if isinstance(e, ast.Name):
            if e.id in alias:
                return {alias[e.id]}, depth
            if e.id in taint:
                return set(taint[e.id]), depth + 1      # an element: one link below the view already
            return set(holder.get(e.id, set())), depth   # a local container of elements: like the view itself
        return set(), depth

    if calls_out is not None:       # objects handed to other BSP methods: their parameters are tainted there
        for n in ast.walk(fn):
            if isinstance(n, ast.Call) and _is_self_attr(n.func):
                for k, a in enumerate(n.args):
                    vs = mentions(a) if not (_is_self_attr(a) and a.attr in views) and not (isinstance(a, ast.Name) and a.id in alias) else set()
                    if vs:
                        calls_out.setdefault(n.func.attr, {}).setdefault(k, set()).update(vs)
                for kw in n.keywords:
                    if mentions(kw.value):
                        raise TranslateError(f'bsp.py BSP.{fn.name}:{n.lineno}: object of a view handed to self.{n.func.attr} by keyword')
    found: list[tuple[str, int, ast.AST]] = []
    for n in ast.walk(fn):
        recv = None
        if isinstance(n, (ast.Attribute, ast.Subscript)) and isinstance(n.ctx, (ast.Store, ast.Del)):
            recv = n.value
            extra = 1
        elif isinstance(n, ast.Call) and isinstance(n.func, ast.Attribute) and n.func.attr in (APPEND_METHODS | MUTATE_METHODS):
            recv = n.func.value
            extra = 1
        if recv is None:
            continue
        vs, depth = root(recv)
        if vs and depth + extra >= 2:
            found += [(v, n.lineno, n) for v in sorted(vs)]
    return found


_REPACKING = {'list', 'tuple', 'sorted', 'reversed', 'zip', 'enumerate', 'iter', 'next', 'set', 'frozenset', 'dict', 'filter',
              'min', 'max', 'cast', 'copy', 'deepcopy'}
_PURE_STR_TESTS = {'startswith', 'endswith', 'isdigit', 'lower', 'upper', 'casefold', 'strip'}


def _mutations_come_last(fn: ast.FunctionDef, sites: list[ast.AST]) -> bool:
    """True when, from the first top-level statement of `fn` that contains one of the mutation `sites` on, the function
    consists only of: the mutation statements themselves (a mutating call as a statement, an assignment / deletion whose
    target is a site, with a plain name or constant as value), `for` loops over an attribute chain and `if` tests made of
    comparisons, boolean operators, subscripts, attribute chains and pure string tests around such statements, plain locals
    bound from such expressions, `pass` and a final `return <name>`.  Then nothing that could raise for lack of data follows the first change (the tests were
    all evaluated before, by whatever decided that the lump parses)."""
    ids = {id(x) for x in sites}
    first = None
    for k, st in enumerate(fn.body):
        if any(id(x) in ids for x in ast.walk(st)):
            first = k
            break
    if first is None:
        return False        # the sites are not in this function's own body

    def plain(e: ast.AST | None) -> bool:
        return e is None or isinstance(e, (ast.Name, ast.Constant))

    def chain(e: ast.AST) -> bool:
        while isinstance(e, (ast.Attribute, ast.Subscript)):
            if isinstance(e, ast.Subscript) and not isinstance(e.slice, (ast.Constant, ast.Name)):
                return False
            e = e.value
        return isinstance(e, ast.Name)

    def test(e: ast.AST) -> bool:
        if isinstance(e, ast.BoolOp):
            return all(test(v) for v in e.values)
        if isinstance(e, ast.UnaryOp) and isinstance(e.op, ast.Not):
            return test(e.operand)
        if isinstance(e, ast.Compare):
            return all(test(x) for x in [e.left, *e.comparators])
        if isinstance(e, ast.Call):
            return isinstance(e.func, ast.Attribute) and e.func.attr in _PURE_STR_TESTS and chain(e.func.value) \
                and all(isinstance(a, ast.Constant) for a in e.args) and not e.keywords
        return isinstance(e, ast.Constant) or chain(e)

    def clean(st: ast.stmt) -> bool:
        if isinstance(st, (ast.Pass, ast.Continue)):
            return True
        if isinstance(st, ast.Return):
            return plain(st.value)
        if isinstance(st, ast.Expr):
            c = st.value
            return isinstance(c, ast.Call) and id(c) in ids and all(plain(a) for a in c.args) and not c.keywords
        if isinstance(st, ast.Assign):
            if all(id(t) in ids for t in st.targets) and plain(st.value):
                return True
            # a local bound from a pure read of the same kind as the tests (`key = ent['model']` before `if key.startswith(...)`)
            return len(st.targets) == 1 and isinstance(st.targets[0], ast.Name) and id(st.targets[0]) not in ids and test(st.value)
        if isinstance(st, ast.Delete):
            return all(id(t) in ids for t in st.targets)
        if isinstance(st, ast.For):
            return chain(st.iter) and isinstance(st.target, ast.Name) and not st.orelse and all(clean(b) for b in st.body)
        if isinstance(st, ast.If):
            return test(st.test) and all(clean(b) for b in st.body) and all(clean(b) for b in st.orelse)
        return False

    return all(clean(st) for st in fn.body[first:])



# ---------------------------------------------------------------------------------- __get__ / save shape
def _paths(stmts: list[ast.stmt], ev_of, where: str) -> list[tuple[list, bool]]:
    """Every path through a statement list as (events, terminated)."""
    paths: list[tuple[list, bool]] = [([], False)]

    def seq(cur, more):
        out = []
        for ev, done in cur:
            if done:
                out.append((ev, True))
            else:
                for ev2, done2 in more:
                    out.append((ev + ev2, done2))
        if len(out) > 4096:
            raise TranslateError(f'{where}: too many paths')
        return out

    for st in stmts:
        if isinstance(st, ast.If):
            alt = seq([(ev_of(st.test), False)], _paths(st.body, ev_of, where) + _paths(st.orelse, ev_of, where))
        elif isinstance(st, (ast.For, ast.While)):
            head = ev_of(st.iter) if isinstance(st, ast.For) else ev_of(st.test)
            loopvar = [('bind', ast.unparse(st.target), ast.unparse(st.iter))] if isinstance(st, ast.For) else []
            body = seq([(head + loopvar, False)], _paths(st.body, ev_of, where))
            body = [(ev + [('unbind',)], d) for ev, d in body]
            alt = seq(body, _paths(st.orelse, ev_of, where))
            if not (isinstance(st, ast.For) and getattr(ev_of, 'nonempty', lambda it: False)(st.iter)):
                alt += seq([(head, False)], _paths(st.orelse, ev_of, where))    # zero iterations
        elif isinstance(st, ast.Try):
            ok = seq(_paths(st.body, ev_of, where), _paths(st.orelse, ev_of, where))
            alt = list(ok)
            for h in st.handlers:       # the handler runs after any prefix of the body: approximate by "instead of it"
                alt += _paths(h.body, ev_of, where)
            alt = seq([(e, False) for e, d in alt if not d], _paths(st.finalbody, ev_of, where)) + [(e, d) for e, d in alt if d]
        elif isinstance(st, ast.With):
            head = [e for it in st.items for e in ev_of(it.context_expr)]
            alt = seq([(head, False)], _paths(st.body, ev_of, where))
        elif isinstance(st, (ast.Return, ast.Raise)):
            alt = [(ev_of(st), True)]
        elif isinstance(st, (ast.FunctionDef, ast.ClassDef, ast.AsyncFunctionDef, ast.Match)):
            raise TranslateError(f'{where}:{st.lineno}: nested def/class/match')
        else:
            alt = [(ev_of(st), False)]
        paths = seq(paths, alt)
    return paths


def _get_shape(tree: ast.Module) -> dict:
    """Statement order of ParsedLump.__get__: on every path, is a lump's raw data stored (cleared) before the reader
    has run, its generator result has been materialised and the value has been put into the cache?"""
    cls = next((n for n in tree.body if isinstance(n, ast.ClassDef) and n.name == 'ParsedLump'), None)
    fn = None
    for f in (cls.body if cls else []):
        if isinstance(f, ast.FunctionDef) and f.name == '__get__':
            fn = f                      # the last definition (after the @overload stubs) wins
    if fn is None:
        raise TranslateError('ParsedLump.__get__ not found')
    where = f'bsp.py ParsedLump.__get__'
    inst = fn.args.args[1].arg
    me = fn.args.args[0].arg
    # helpers of the descriptor (methods of ParsedLump, module-level functions) called as statements are inlined; any other
    # code that is handed the BSP object (or one of its lump tables) could clear / cache anything: fail closed
    methods = {f.name: f for f in cls.body if isinstance(f, ast.FunctionDef) and not f.name.startswith('__')}
    funcs = {f.name: f for f in tree.body if isinstance(f, ast.FunctionDef)}
    fn = copy.deepcopy(fn)
    fn.body = _inline_helper_calls(fn.body, methods, funcs, me, where)
    for n in ast.walk(fn):
        if isinstance(n, ast.Call):
            is_reader = isinstance(n.func, ast.Attribute) and isinstance(n.func.value, ast.Name) and n.func.value.id == me \
                and n.func.attr == '_read'
            handed = [x for x in list(n.args) + [k.value for k in n.keywords]
                      if any(isinstance(y, ast.Name) and y.id == inst for y in ast.walk(x))]
            pure = isinstance(n.func, ast.Name) and n.func.id in ('len', 'isinstance', 'type', 'id', 'repr', 'str', 'bool')
            if handed and not is_reader and not pure:
                raise TranslateError(f'{where}:{n.lineno}: the BSP object is handed to code that is not followed: {ast.unparse(n)[:80]}')
        if isinstance(n, (ast.Assign, ast.AnnAssign, ast.NamedExpr)) and getattr(n, 'value', None) is not None:
            v = n.value
            if (isinstance(v, ast.Name) and v.id == inst) or (isinstance(v, ast.Attribute) and isinstance(v.value, ast.Name)
                                                              and v.value.id == inst and v.attr in STABLE_ATTRS):
                raise TranslateError(f'{where}:{n.lineno}: the BSP object or one of its tables is aliased: {ast.unparse(n)[:80]}')
    alias: dict[str, str] = {}          # local name -> 'main' (an alias of the main Lump / GameLump object)

    def lump_kind(idx: ast.AST, bound: dict[str, str]) -> str:
        if _is_self_attr(idx, 'lump'):
            return 'main'
        if isinstance(idx, ast.Name) and bound.get(idx.id) in ('self.to_clear',):
            return 'all'
        if isinstance(idx, ast.Name) and bound.get(idx.id) in ('self.to_clear[1:]',):
            return 'extra'
        if isinstance(idx, ast.Name) and bound.get(idx.id) in ('self.to_clear[:1]', 'self.to_clear[0:1]', '(self.lump,)', '[self.lump]'):
            return 'main'
        if isinstance(idx, ast.Subscript) and ast.unparse(idx) == 'self.to_clear[0]':
            return 'main'
        raise TranslateError(f'{where}:{idx.lineno}: lump index {ast.unparse(idx)} is neither self.lump nor an element of self.to_clear')

    def is_lump_obj(x: ast.AST) -> bool:
        return (isinstance(x, ast.Subscript) and isinstance(x.value, ast.Attribute) and isinstance(x.value.value, ast.Name)
                and x.value.value.id == inst and x.value.attr in ('lumps', 'game_lumps'))

    for n in ast.walk(fn):              # aliases of lump objects
        if isinstance(n, ast.Assign) and len(n.targets) == 1 and isinstance(n.targets[0], ast.Name) and is_lump_obj(n.value):
            if not _is_self_attr(n.value.slice, 'lump'):
                raise TranslateError(f'{where}:{n.lineno}: alias of a lump other than self.lump')
            alias[n.targets[0].id] = 'main'

    def ev_of(node: ast.AST) -> list:
        loads, stores = [], []
        for n in ast.walk(node):
            if isinstance(n, ast.Call):
                f = n.func
                if _is_self_attr(f, '_read'):
                    loads.append(('parse', n.lineno))
                elif isinstance(f, ast.Name) and f.id in ('list', 'tuple') and len(n.args) == 1 and isinstance(n.args[0], ast.Name):
                    loads.append(('materialise', n.lineno))
            if isinstance(n, ast.Attribute) and n.attr == 'data' and isinstance(n.ctx, (ast.Store, ast.Del)):
                if is_lump_obj(n.value):
                    stores.append(('clear', n.lineno, n.value.slice))
                elif isinstance(n.value, ast.Name) and n.value.id in alias:
                    stores.append(('clear', n.lineno, 'main'))
                else:
                    raise TranslateError(f'{where}:{n.lineno}: store to .data of an unrecognised object: {ast.unparse(n)}')
            if isinstance(n, ast.Subscript) and isinstance(n.ctx, ast.Store) and isinstance(n.value, ast.Attribute) \
                    and n.value.attr == '_parsed_lumps':
                stores.append(('cache', n.lineno))
            if isinstance(n, ast.Attribute) and n.attr == '_parsed_lumps' and isinstance(n.ctx, (ast.Store, ast.Del)):
                raise TranslateError(f'{where}:{n.lineno}: _parsed_lumps replaced')
            if isinstance(n, ast.Call) and isinstance(n.func, ast.Attribute) and isinstance(n.func.value, ast.Attribute) \
                    and n.func.value.attr == '_parsed_lumps' and n.func.attr not in ('get', '__getitem__', '__contains__'):
                raise TranslateError(f'{where}:{n.lineno}: _parsed_lumps.{n.func.attr}() in __get__')
        return loads + stores           # the right-hand side is evaluated before the targets are stored

    ev_of.nonempty = lambda it: (_is_self_attr(it, 'to_clear')       # (lump, *extra): never empty
                                 or ast.unparse(it) in ('self.to_clear[:1]', 'self.to_clear[0:1]', '(self.lump,)', '[self.lump]'))
    paths = _paths(fn.body, ev_of, where)
    early_main = early_extra = False
    uncached = False
    listing = []
    for evs, _ in paths:
        bound: dict[str, str] = {}
        stack: list[str] = []
        kinds = []
        for e in evs:
            if e[0] == 'bind':
                stack.append(e[1])
                bound[e[1]] = e[2]
            elif e[0] == 'unbind':
                bound.pop(stack.pop(), None)
            elif e[0] == 'clear':
                kinds.append('clear-' + (e[2] if isinstance(e[2], str) else lump_kind(e[2], bound)))
            else:
                kinds.append(e[0])
        if 'parse' not in kinds and not any(k.startswith('clear') for k in kinds) and 'cache' not in kinds:
            continue                    # class access / cached value / TypeError paths
        if kinds not in listing:
            listing.append(kinds)
        # only the reader call and the materialisation of a generator result can raise; the position of the cache store
        # relative to the clears cannot be observed (nothing in between raises), so it is not constrained
        last_needed = max([i for i, k in enumerate(kinds) if k in ('parse', 'materialise')], default=-1)
        if 'parse' in kinds and ('cache' not in kinds or kinds.index('cache') < max(i for i, k in enumerate(kinds) if k in ('parse', 'materialise'))):
            uncached = True
        if 'cache' not in kinds or 'parse' not in kinds:
            last_needed = len(kinds)    # a clear on a path that never caches a parsed value loses the data
        for i, k in enumerate(kinds):
            if k.startswith('clear') and i < last_needed:
                if k in ('clear-main', 'clear-all'):
                    early_main = True
                if k in ('clear-extra', 'clear-all'):
                    early_extra = True
    if not listing:
        raise TranslateError(f'{where}: no path with a reader call found')
    clears_all = all(any(k in ('clear-all',) for k in ks) or ({'clear-main', 'clear-extra'} <= set(ks)) for ks in listing if 'cache' in ks)
    # what a look leaves behind when it raises: the model caches nothing and clears nothing on a raising path ([getf]: `None => (false, snd r)`);
    # a store into the cache or into a lump's data inside an `except` / `finally` of __get__ happens while an exception propagates
    on_raise = False
    for n in ast.walk(fn):
        blocks = []
        if isinstance(n, ast.Try):
            blocks = [h.body for h in n.handlers] + [n.finalbody]
        for blk in blocks:
            for st in blk:
                for x in ast.walk(st):
                    if isinstance(x, ast.Subscript) and isinstance(x.ctx, (ast.Store, ast.Del)) and isinstance(x.value, ast.Attribute) \
                            and x.value.attr == '_parsed_lumps':
                        on_raise = True
                    if isinstance(x, ast.Attribute) and x.attr == 'data' and isinstance(x.ctx, (ast.Store, ast.Del)):
                        on_raise = True
    return {'early_main': early_main, 'early_extra': early_extra, 'parse_uncached': uncached, 'paths': listing,
            'clears_to_clear_after_caching': clears_all, 'stores_on_raising_path': on_raise}


def _save_shape(m: '_Module') -> dict:
    """Loop shape of BSP.save: the rebuild loop must walk LUMP_REBUILD_ORDER and consult the cache inside the loop."""
    fn = m.methods.get('save')
    if fn is None:
        raise TranslateError('BSP.save not found')
    where = 'bsp.py BSP.save'
    loops = [st for st in fn.body if isinstance(st, ast.For)
             and any(isinstance(n, ast.Attribute) and n.attr == '_save_funcs' for n in ast.walk(st))]
    others = [n for n in ast.walk(fn) if isinstance(n, ast.Attribute) and n.attr == '_save_funcs']
    if len(loops) != 1 or any(not any(o is n for n in ast.walk(loops[0])) for o in others):
        raise TranslateError(f'{where}: expected exactly one top-level for-loop that calls self._save_funcs[...]')
    loop = loops[0]
    if not isinstance(loop.target, ast.Name) or loop.orelse:
        raise TranslateError(f'{where}:{loop.lineno}: loop target is not a plain name')
    var = loop.target.id

    def mentions(node: ast.AST, name: str) -> bool:
        return any((isinstance(n, ast.Name) and n.id == name) or (isinstance(n, ast.Attribute) and n.attr == name)
                   for n in ast.walk(node))

    it = loop.iter
    if isinstance(it, ast.Call) and isinstance(it.func, ast.Name) and it.func.id in ('list', 'tuple') and len(it.args) == 1:
        it = it.args[0]
    if isinstance(it, ast.Name) and it.id == 'LUMP_REBUILD_ORDER':
        snapshot = False
    else:
        # resolve a local name to the expression(s) assigned to it before the loop
        exprs = [it]
        if isinstance(it, ast.Name):
            exprs = [st.value for st in fn.body if isinstance(st, (ast.Assign, ast.AnnAssign)) and st.lineno < loop.lineno
                     and st.value is not None
                     and any(isinstance(t, ast.Name) and t.id == it.id for t in (st.targets if isinstance(st, ast.Assign) else [st.target]))]
        if not exprs or not all(mentions(e, 'LUMP_REBUILD_ORDER') for e in exprs):
            raise TranslateError(f'{where}:{loop.lineno}: the rebuild loop does not iterate over LUMP_REBUILD_ORDER: {ast.unparse(loop.iter)}')
        if not any(mentions(e, '_parsed_lumps') for e in exprs):
            raise TranslateError(f'{where}:{loop.lineno}: rebuild loop over an unrecognised derivative of LUMP_REBUILD_ORDER')
        snapshot = True                 # a list of the cached views computed before the loop
    # inside the loop: the cache is popped for the loop variable before the writer runs, the result is stored
    pops, calls, stores = [], [], []
    for n in ast.walk(loop):
        if isinstance(n, ast.Call) and isinstance(n.func, ast.Attribute) and n.func.attr == 'pop' \
                and isinstance(n.func.value, ast.Attribute) and n.func.value.attr == '_parsed_lumps':
            if not (n.args and isinstance(n.args[0], ast.Name) and n.args[0].id == var):
                raise TranslateError(f'{where}:{n.lineno}: pop of something other than the loop variable')
            pops.append(n.lineno)
        if isinstance(n, ast.Delete) and any(mentions(t, '_parsed_lumps') for t in n.targets):
            pops.append(n.lineno)
        if isinstance(n, ast.Call) and isinstance(n.func, ast.Subscript) and mentions(n.func.value, '_save_funcs'):
            calls.append(n.lineno)
        if isinstance(n, ast.Attribute) and n.attr == 'data' and isinstance(n.ctx, ast.Store):
            ok = isinstance(n.value, ast.Subscript) and _is_self_attr(n.value.value) and n.value.value.attr in ('lumps', 'game_lumps') \
                and isinstance(n.value.slice, ast.Name) and n.value.slice.id == var
            if not ok:
                raise TranslateError(f'{where}:{n.lineno}: the rebuild loop stores into {ast.unparse(n)}')
            stores.append(n.value.value.attr)
    if len(calls) != 1 or not pops:
        raise TranslateError(f'{where}:{loop.lineno}: rebuild loop without exactly one writer call and a pop of the cache')
    pops_late = False
    if min(pops) > calls[0]:
        # `data = self._parsed_lumps[var]` ... writer ... stores ... `del self._parsed_lumps[var]`: the value never leaves the cache
        # while its writer runs and is forgotten only once the lumps are rebuilt.  Same as pop-before + put-back-on-raise
        # PROVIDED no writer looks at its own view (it would find the cached value instead of re-parsing the cleared lump):
        # flag `pops_late`, obliged separately.  Recognised only in this plain form: the cache is read for the loop variable
        # before the call, every pop / del follows the last store and none of them sits in a handler or finally block.
        reads = [n.lineno for n in ast.walk(loop)
                 if (isinstance(n, ast.Subscript) and isinstance(n.ctx, ast.Load) and isinstance(n.value, ast.Attribute) and n.value.attr == '_parsed_lumps'
                     and isinstance(n.slice, ast.Name) and n.slice.id == var)
                 or (isinstance(n, ast.Call) and isinstance(n.func, ast.Attribute) and n.func.attr == 'get' and isinstance(n.func.value, ast.Attribute)
                     and n.func.value.attr == '_parsed_lumps' and n.args and isinstance(n.args[0], ast.Name) and n.args[0].id == var)]
        store_lines = [n.lineno for n in ast.walk(loop) if isinstance(n, ast.Attribute) and n.attr == 'data' and isinstance(n.ctx, ast.Store)]
        in_handlers = {id(x) for t in ast.walk(loop) if isinstance(t, ast.Try) for blk in [h.body for h in t.handlers] + [t.finalbody]
                       for st in blk for x in ast.walk(st)}
        pop_nodes = [n for n in ast.walk(loop) if (isinstance(n, ast.Delete) and any(mentions(t, '_parsed_lumps') for t in n.targets))
                     or (isinstance(n, ast.Call) and isinstance(n.func, ast.Attribute) and n.func.attr == 'pop' and mentions(n.func.value, '_parsed_lumps'))]
        for n in pop_nodes:
            if isinstance(n, ast.Delete) and not all(isinstance(t, ast.Subscript) and isinstance(t.slice, ast.Name) and t.slice.id == var for t in n.targets):
                raise TranslateError(f'{where}:{n.lineno}: del of something other than the loop variable\'s cache entry')
        res_names = {st.targets[0].id for st in ast.walk(loop) if isinstance(st, ast.Assign) and len(st.targets) == 1 and isinstance(st.targets[0], ast.Name)
                     and isinstance(st.value, ast.Call) and isinstance(st.value.func, ast.Subscript) and mentions(st.value.func.value, '_save_funcs')}
        res_uses = [x.lineno for x in ast.walk(loop) if isinstance(x, ast.Name) and x.id in res_names and isinstance(x.ctx, ast.Load)]
        # everything that can raise because of the writer (the call, the consumption of a generator result) precedes the del
        if not reads or min(reads) > calls[0] or not store_lines or not res_names or min(pops) < max(res_uses + [calls[0]]) \
                or any(id(n) in in_handlers for n in pop_nodes) \
                or any(isinstance(t, ast.Try) and any(id(x) in {id(y) for b in t.body for y in ast.walk(b)} for x in pop_nodes) for t in ast.walk(loop)):
            raise TranslateError(f'{where}:{loop.lineno}: the view is popped after its writer ran (not the modelled order)')
        pops_late = True
    if set(stores) != {'lumps', 'game_lumps'}:
        raise TranslateError(f'{where}:{loop.lineno}: writer result is not stored into both self.lumps[..] and self.game_lumps[..]: {stores}')
    # nothing else in save touches the cache
    for n in ast.walk(fn):
        if isinstance(n, ast.Attribute) and n.attr == '_parsed_lumps' and not any(n is x for x in ast.walk(loop)) \
                and not snapshot:
            raise TranslateError(f'{where}:{n.lineno}: _parsed_lumps used outside the rebuild loop')
    # What is left behind when the writer raises (a look inside it fails on a malformed lump): the value was popped and the
    # lumps of the view were cleared when it was looked at, so the popped value is the only copy.  `restores`: the writer call
    # sits in a `try` whose handlers (bare / Exception / BaseException) each do nothing but put the popped value back under the
    # loop variable and re-raise.  Any other store into the cache inside save fails closed.
    popped_names = set()
    for n in ast.walk(loop):
        if isinstance(n, ast.Assign) and len(n.targets) == 1 and isinstance(n.targets[0], ast.Name) and isinstance(n.value, ast.Call) \
                and isinstance(n.value.func, ast.Attribute) and n.value.func.attr == 'pop' and mentions(n.value.func.value, '_parsed_lumps'):
            popped_names.add(n.targets[0].id)

    def is_restore(st: ast.stmt) -> bool:
        return isinstance(st, ast.Assign) and len(st.targets) == 1 and isinstance(st.targets[0], ast.Subscript) \
            and isinstance(st.targets[0].value, ast.Attribute) and st.targets[0].value.attr == '_parsed_lumps' \
            and _is_self_attr(st.targets[0].value) and isinstance(st.targets[0].slice, ast.Name) and st.targets[0].slice.id == var \
            and isinstance(st.value, ast.Name) and st.value.id in popped_names
    restores = False
    accounted: set[int] = set()
    for n in ast.walk(loop):
        if isinstance(n, ast.Try) and any(isinstance(x, ast.Call) and isinstance(x.func, ast.Subscript) and mentions(x.func.value, '_save_funcs')
                                          for b in n.body for x in ast.walk(b)):
            if n.finalbody or n.orelse or not n.handlers:
                raise TranslateError(f'{where}:{n.lineno}: try around the writer call with else / finally (not modelled)')
            for h in n.handlers:
                tname = None if h.type is None else (h.type.id if isinstance(h.type, ast.Name) else '?')
                if tname not in (None, 'Exception', 'BaseException'):
                    raise TranslateError(f'{where}:{h.lineno}: handler around the writer call catches {ast.unparse(h.type)} (not modelled)')
                if len(h.body) == 2 and is_restore(h.body[0]) and isinstance(h.body[1], ast.Raise) and h.body[1].exc is None:
                    accounted.add(id(h.body[0]))
                elif len(h.body) == 1 and isinstance(h.body[0], ast.Raise) and h.body[0].exc is None:
                    pass        # re-raises only: the plain loop
                else:
                    raise TranslateError(f'{where}:{h.lineno}: handler around the writer call does something other than putting the '
                                         f'popped value back and re-raising')
            if pops_late:
                raise TranslateError(f'{where}:{n.lineno}: try around the writer call together with a late pop (not modelled)')
            restores = all(len(h.body) == 2 for h in n.handlers) and min(pops) < n.lineno
            # writers may be generators: their body (and the looks in it) runs while the result is consumed.  Every use of
            # the name bound from the writer call must be inside the same try, otherwise the raise is not covered by it.
            inside = {id(x) for b in n.body for x in ast.walk(b)}
            res_names = {st.targets[0].id for b in n.body for st in ast.walk(b)
                         if isinstance(st, ast.Assign) and len(st.targets) == 1 and isinstance(st.targets[0], ast.Name)
                         and isinstance(st.value, ast.Call) and isinstance(st.value.func, ast.Subscript) and mentions(st.value.func.value, '_save_funcs')}
            if not res_names:
                raise TranslateError(f'{where}:{n.lineno}: the writer result is not bound to a local name inside the try')
            for x in ast.walk(loop):
                if isinstance(x, ast.Name) and x.id in res_names and isinstance(x.ctx, ast.Load) and id(x) not in inside:
                    restores = False        # consumed outside the try: a generator writer raises there
    for n in ast.walk(fn):
        if isinstance(n, (ast.Assign, ast.AugAssign, ast.AnnAssign)):
            for t in (n.targets if isinstance(n, ast.Assign) else [n.target]):
                if isinstance(t, ast.Subscript) and mentions(t.value, '_parsed_lumps') and id(n) not in accounted:
                    raise TranslateError(f'{where}:{n.lineno}: save stores into the cache of parsed views')
    return {'snapshot': snapshot, 'restores': restores or pops_late, 'pops_late': pops_late, 'loop_line': loop.lineno, 'iter': ast.unparse(loop.iter)}


def _container_layout(m: '_Module') -> dict:
    """Constants of the file container: LUMP_COUNT, GAME_LUMP, PAKFILE, LUMP_WRITE_ORDER (interpreted statement by
    statement), the two version numbers BSP.read / BSP.save branch on, and the struct formats of header and directory."""
    order: list[str] | None = None
    fmts: dict[str, str] = {}
    versions: dict[str, int] = {}
    st_fmt = None
    for n in m.tree.body:
        if isinstance(n, (ast.Assign, ast.AnnAssign)):
            tg = n.targets[0] if isinstance(n, ast.Assign) and len(n.targets) == 1 else getattr(n, 'target', None)
            if isinstance(tg, ast.Name) and tg.id == 'LUMP_WRITE_ORDER':
                v = n.value
                if not (isinstance(v, ast.Call) and isinstance(v.func, ast.Name) and v.func.id == 'list' and len(v.args) == 1
                        and isinstance(v.args[0], ast.Name) and v.args[0].id == 'BSP_LUMPS'):
                    raise TranslateError(f'bsp.py:{n.lineno}: LUMP_WRITE_ORDER is not list(BSP_LUMPS)')
                order, seen_vals = [], set()        # Enum iteration: definition order, aliases (repeated values) skipped
                for k, val in m.lump_vals.items():
                    if val not in seen_vals:
                        seen_vals.add(val)
                        order.append(k)
            if isinstance(tg, ast.Name) and tg.id in ('HEADER_1', 'HEADER_LUMP', 'HEADER_2'):
                if not (isinstance(n.value, ast.Constant) and isinstance(n.value.value, str)):
                    raise TranslateError(f'bsp.py:{n.lineno}: {tg.id} is not a string literal')
                fmts[tg.id] = n.value.value
        elif isinstance(n, ast.Expr) and isinstance(n.value, ast.Call) and isinstance(n.value.func, ast.Attribute) \
                and isinstance(n.value.func.value, ast.Name) and n.value.func.value.id == 'LUMP_WRITE_ORDER':
            if order is None or len(n.value.args) != 1:
                raise TranslateError(f'bsp.py:{n.lineno}: LUMP_WRITE_ORDER used before its definition')
            key = m.lump_key(n.value.args[0], f'bsp.py:{n.lineno}')[2:]
            key = next(k for k in order + [key] if m.lump_vals[k] == m.lump_vals[key])     # canonical member of an alias group
            if n.value.func.attr == 'remove':
                order.remove(key)
            elif n.value.func.attr == 'append':
                order.append(key)
            else:
                raise TranslateError(f'bsp.py:{n.lineno}: LUMP_WRITE_ORDER.{n.value.func.attr}() not recognised')
        elif isinstance(n, ast.ClassDef) and n.name == 'VERSIONS':
            for st in n.body:
                if isinstance(st, ast.Assign) and len(st.targets) == 1 and isinstance(st.targets[0], ast.Name) \
                        and isinstance(st.value, ast.Constant) and isinstance(st.value.value, int):
                    versions[st.targets[0].id] = st.value.value
        elif isinstance(n, ast.ClassDef) and n.name == 'GameLump':
            for st in n.body:
                tg = st.target if isinstance(st, ast.AnnAssign) else (st.targets[0] if isinstance(st, ast.Assign) else None)
                if isinstance(tg, ast.Name) and tg.id == 'ST':
                    v = st.value
                    if not (isinstance(v, ast.Call) and len(v.args) == 1 and isinstance(v.args[0], ast.Constant)):
                        raise TranslateError(f'bsp.py:{st.lineno}: GameLump.ST not recognised')
                    st_fmt = v.args[0].value
    for node in ast.walk(m.tree):       # no other mutation of the write order
        if isinstance(node, ast.Subscript) and isinstance(node.value, ast.Name) and node.value.id == 'LUMP_WRITE_ORDER' \
                and isinstance(node.ctx, (ast.Store, ast.Del)):
            raise TranslateError(f'bsp.py:{node.lineno}: LUMP_WRITE_ORDER is mutated')
    if order is None or set(fmts) != {'HEADER_1', 'HEADER_LUMP', 'HEADER_2'} or st_fmt is None \
            or 'L4D2' not in versions or 'VITAMINSOURCE' not in versions:
        raise TranslateError('container constants (LUMP_WRITE_ORDER, HEADER_*, GameLump.ST, VERSIONS) not all found')
    return {'nlumps': max(m.lump_vals.values()) + 1, 'gidx': m.lump_vals['GAME_LUMP'], 'pak': m.lump_vals['PAKFILE'],
            'worder': [m.lump_vals[k] for k in order], 'l4d2': versions['L4D2'], 'vitamin': versions['VITAMINSOURCE'],
            'formats': [fmts['HEADER_1'], fmts['HEADER_LUMP'], fmts['HEADER_2'], st_fmt]}


def _has_return(body: list[ast.stmt]) -> bool:
    return any(isinstance(s, ast.Return) for s in body)


def _only_vitamin(ctx: tuple[str, ...]) -> bool:
    """True when the only guards are early returns / else-branches of the VitaminSource layout test."""
    return all(g in ('after-return-if (self.is_vitamin)', 'not (self.is_vitamin)') for g in ctx)


def translate() -> tuple[str, dict]:
    m = _Module()
    order = m.order
    main_of = {v: mk for v, (mk, _) in m.views.items()}
    pos_of_key = {}
    dup_order = len(set(order)) != len(order)
    for i, k in enumerate(order):
        pos_of_key.setdefault(k, i)
    # views by position
    by_pos: dict[int, list[str]] = {}
    not_in_order = []
    for v, (mk, _) in m.views.items():
        if mk in pos_of_key:
            by_pos.setdefault(pos_of_key[mk], []).append(v)
        else:
            not_in_order.append(v)
    order_without_view = [k for i, k in enumerate(order) if i not in by_pos]
    same_main = sorted(v for vs in by_pos.values() if len(vs) > 1 for v in vs)
    view_at: list[str | None] = [by_pos[i][0] if i in by_pos else None for i in range(len(order))]
    pos_of_view = {v: i for i, v in enumerate(view_at) if v is not None}

    def vnum(view: str, where: str) -> int:
        if view not in pos_of_view:
            # a dependency on a view that save() never rebuilds: encode as an out-of-range position
            return len(order) + 100
        return pos_of_view[view]

    decls = []
    raw_reads: list[tuple[int, int]] = []
    all_stores: list[tuple[int, int]] = []
    cond_stores: list[tuple[int, int, str]] = []
    side_views = {}
    view_uses: list[tuple[str, int, int, str, int]] = []
    reader_stores: list[tuple[int, int, int]] = []
    version_stores: list[tuple[int, int, bool, int]] = []
    elem_muts: list[tuple[str, int, int, int, bool]] = []
    for i, v in enumerate(view_at):
        if v is None:
            decls.append(([], [], [], []))
            continue
        suffix = v.lstrip('_')
        rd = m.effects('_lmp_read_' + suffix, f'view {v}')
        wr = m.effects('_lmp_write_' + suffix, f'view {v}')
        if rd['stores'] and any(k not in (m.views[v][0], *m.views[v][1]) for k, _, _ in rd['stores']):
            raise TranslateError(f'reader of {v} stores a lump it does not own: {rd["stores"]}')
        own = [m.lump_num(m.views[v][0])] + [m.lump_num(k) for k in m.views[v][1]]
        rdeps = sorted({vnum(x, v) for x in rd['views']})
        wdeps = sorted({vnum(x, v) for x in wr['views']})
        wstore = [own[0]]   # the returned bytes are stored into the main lump by BSP.save
        vit_only = []
        must = m.must_store('_lmp_write_' + suffix)
        for key, ctx, line in wr['stores']:
            num = m.lump_num(key)
            if not ctx or _only_vitamin(ctx) or key in must:
                if num not in wstore:
                    wstore.append(num)
                if ctx:
                    vit_only.append(key)
                all_stores.append((i, num))
            else:
                cond_stores.append((i, num, ' & '.join(ctx)))
        for key, _, line in rd['stores']:
            reader_stores.append((i, m.lump_num(key), line))
        if rd.get('version_stores'):
            raise TranslateError(f'reader of {v} sets the header version of a lump: line {rd["version_stores"][0][2]}')
        for key, val, line, ctx, wh in wr.get('version_stores', []):
            version_stores.append((i, m.lump_num(key), m.recorded_version_expr(val, line, wh), line))
        for key in list(rd['raw_reads']) + list(wr['raw_reads']):
            raw_reads.append((i, m.lump_num(key)))
        for who, eff in (('reader', rd), ('writer', wr)):
            for used, kind, line in eff.get('uses', []):
                view_uses.append((who, i, vnum(used, v), kind, line))
            for used, line, late in eff.get('elem_mut', []):
                if used != v:       # a reader builds, a writer may normalise, the objects of its OWN view
                    elem_muts.append((who, i, vnum(used, v), line, late))
        decls.append((own, rdeps, wdeps, wstore))
        side_views[v] = {
            'position': i, 'main': m.views[v][0], 'extra': m.views[v][1],
            'reader_views': sorted(rd['views']), 'writer_views': sorted(wr['views']),
            'reader_raw': sorted(rd['raw_reads']), 'writer_stores': sorted({k for k, _, _ in wr['stores']}),
            'stores_skipped_only_for_vitamin': sorted(set(vit_only)),
            'conditional_stores': [(k, ' & '.join(c)) for k, c, _ in wr['stores'] if c and not _only_vitamin(c) and k not in must],
            'stored_on_every_path': sorted(must),
            'helpers': sorted(set(rd['helpers'] + wr['helpers'])),
        }

    def nl(xs) -> str:
        return '[' + '; '.join(str(x) for x in xs) + ']'

    lay = _container_layout(m)
    gshape = _get_shape(m.tree)
    sshape = _save_shape(m)
    KIND = {'read': 0, 'append': 1, 'mutate': 2, 'escape': 3}

    def uses(who: str) -> str:
        trip = sorted({(a, b, KIND[k]) for w, a, b, k, _ in view_uses if w == who})
        return '[' + '; '.join(f'({a}, {b}, {k})' for a, b, k in trip) + ']'

    def emuts(who: str) -> str:
        return '[' + '; '.join(f'({a}, {b})' for a, b in sorted({(a, b) for w, a, b, _, _ in elem_muts if w == who})) + ']'

    def emuts_early() -> str:
        return '[' + '; '.join(f'({a}, {b})' for a, b in sorted({(a, b) for w, a, b, _, late in elem_muts if w == 'reader' and not late})) + ']'

    def cb(b: bool) -> str:
        return 'true' if b else 'false'

    names = {m.lump_num('L:' + k): k for k in sorted(m.lump_vals, key=lambda k: (m.lump_vals[k], k))[::-1]}
    for c in m.consts:
        names[m.lump_num('G:' + c)] = 'game:' + m.consts[c].decode('ascii', 'replace')
    lines = [
        '(* GENERATED by translate/c10_bspgraph.py from src/srctools/bsp.py. Do not edit. *)',
        'From Coq Require Import NArith List String.', 'From SV Require Import SM.LazyLumps Fmt.BspContainer.', 'Import ListNotations.',
        'Open Scope string_scope.',
        '(* views in LUMP_REBUILD_ORDER; view number = position *)',
        'Definition bsp_view_names : list string := [' + '; '.join(f'"{v or "-"}"' for v in view_at) + '].',
        'Definition bsp_lump_names : list (nat * string) := [' + '; '.join(f'({n}, "{names[n]}")' for n in sorted(names)) + '].',
        'Definition bsp_graph : graph := [',
        ';\n'.join(f'  mkV {nl(o)} {nl(r)} {nl(w)} {nl(s)}  (* {i}: {view_at[i]} *)' for i, (o, r, w, s) in enumerate(decls)),
        '].',
        '(* declared views whose main lump is missing from LUMP_REBUILD_ORDER (save() would never write them back) *)',
        'Definition bsp_views_not_in_order : list string := [' + '; '.join(f'"{v}"' for v in sorted(not_in_order)) + '].',
        '(* views sharing one main lump (they would share one cache slot) *)',
        'Definition bsp_views_same_main : list string := [' + '; '.join(f'"{v}"' for v in same_main) + '].',
        f'Definition bsp_order_has_duplicates : bool := {"true" if dup_order else "false"}.',
        'Definition bsp_order_without_view : list nat := ' + nl(m.lump_num(k) for k in order_without_view) + '.',
        '(* raw lump data read directly by a reader or writer: (view, lump) *)',
        'Definition bsp_raw_reads : list (nat * nat) := [' + '; '.join(f'({a}, {b})' for a, b in sorted(set(raw_reads))) + '].',
        '(* explicit unconditional stores of lump data inside writers: (view, lump) *)',
        'Definition bsp_stores : list (nat * nat) := [' + '; '.join(f'({a}, {b})' for a, b in sorted(set(all_stores))) + '].',
        '(* stores executed only under a data-dependent condition: (view, lump) *)',
        'Definition bsp_cond_stores : list (nat * nat) := [' + '; '.join(f'({a}, {b})' for a, b in sorted({(a, b) for a, b, _ in cond_stores})) + '].',
        '(* statement order of ParsedLump.__get__ (paths: ' + '; '.join(' '.join(ks) for ks in gshape['paths']) + ')',
        f'   and loop shape of BSP.save (line {sshape["loop_line"]}: for ... in {sshape["iter"]}) *)',
        f'Definition bsp_shape : shape := mkShape {cb(gshape["early_main"])} {cb(gshape["early_extra"])} {cb(sshape["snapshot"])}.',
        '(* when the writer of a view raises inside BSP.save, the value popped for it is put back into the cache before the exception propagates *)',
        f'Definition bsp_save_restores_on_abort : bool := {cb(sshape["restores"])}.',
        '(* the rebuild loop reads the cached value, runs the writer, stores, and only then deletes the cache entry *)',
        f'Definition bsp_save_pops_late : bool := {cb(sshape["pops_late"])}.',
        f'Definition bsp_get_parse_uncached : bool := {cb(gshape["parse_uncached"])}.',
        '(* __get__ stores into the cache or into lump data inside an except / finally block (while an exception propagates) *)',
        f'Definition bsp_get_stores_on_raising_path : bool := {cb(gshape["stores_on_raising_path"])}.',
        f'Definition bsp_get_clears_to_clear_after_caching : bool := {cb(gshape["clears_to_clear_after_caching"])}.',
        '(* constants of the file container *)',
        f'Definition bsp_layout : layout := mkLay {lay["nlumps"]} {lay["gidx"]} {lay["pak"]} {nl(lay["worder"])} {lay["l4d2"]}%N {lay["vitamin"]}%N.',
        'Definition bsp_container_formats : list string := [' + '; '.join(f'"{x}"' for x in lay['formats']) + '].',
        '(* lump data stored by a READER (a reader that empties a lump itself does so before __get__ has cached the value) *)',
        'Definition bsp_reader_stores : list (nat * nat) := [' + '; '.join(f'({a}, {b})' for a, b, _ in sorted(set(reader_stores))) + '].',
        '(* header versions of lumps set by writers: (view, lump, is the value the number the reader recorded: self.static_prop_version.version) *)',
        'Definition bsp_version_stores : list (nat * nat * bool) := [' + '; '.join(f'({a}, {b}, {cb(r)})' for a, b, r, _ in sorted(set(version_stores))) + '].',
        f'Definition bsp_version_table_keyed_by_header_number : bool := {cb(m.version_table_keyed_by_header_number())}.',
        '(* how readers / writers use the views they look at: (view, used view, 0 read | 1 append | 2 mutate | 3 escape) *)',
        'Definition bsp_reader_uses : list (nat * nat * nat) := ' + uses('reader') + '.',
        'Definition bsp_writer_uses : list (nat * nat * nat) := ' + uses('writer') + '.',
        '(* objects reached through ANOTHER view that a reader / writer changes in place: (view, view whose objects change) *)',
        'Definition bsp_reader_elem_mutations : list (nat * nat) := ' + emuts('reader') + '.',
        'Definition bsp_writer_elem_mutations : list (nat * nat) := ' + emuts('writer') + '.',
        '(* ... of these, the pairs where some change is followed by code of the reader that can still raise *)',
        'Definition bsp_reader_elem_mutations_early : list (nat * nat) := ' + emuts_early() + '.',
        '',
    ]
    side = {
        'get_shape': gshape, 'save_shape': sshape, 'container_layout': lay,
        'reader_stores': [[view_at[a], names[b], ln] for a, b, ln in sorted(set(reader_stores))],
        'version_stores': [[view_at[a], names[b], r, ln] for a, b, r, ln in sorted(set(version_stores))],
        'view_uses': [[w, view_at[a], (view_at[b] if b < len(view_at) else '?'), k, ln] for w, a, b, k, ln in sorted(set(view_uses))],
        'elem_mutations': [[w, view_at[a], (view_at[b] if b < len(view_at) else '?'), ln, 'last' if late else 'early']
                           for w, a, b, ln, late in sorted(set(elem_muts))],
        'order': order, 'views': side_views, 'not_in_order': not_in_order, 'order_without_view': order_without_view,
        'cond_stores': [[view_at[a], names[b], c] for a, b, c in cond_stores],
        'graph': [list(map(list, d)) for d in decls], 'view_at': view_at,
        'lump_num': {k: m.lump_num('L:' + k) for k in m.lump_vals} | {m.consts[c].decode(): m.lump_num('G:' + c) for c in m.consts},
        'digests': {},
    }
    # hand-modelled control flow: digests only escalate budgets (DESIGN 5.4)
    for n in m.tree.body:
        if isinstance(n, ast.ClassDef) and n.name == 'ParsedLump':
            for f in n.body:
                if isinstance(f, ast.FunctionDef) and f.name in ('__get__', '__set_name__', '__init__'):
                    side['digests']['ParsedLump.' + f.name] = ast_digest(f)
    for name in ('save', 'read'):
        if name in m.methods:
            side['digests']['BSP.' + name] = ast_digest(m.methods[name])
    if 'ParsedLump.__get__' not in side['digests'] or 'BSP.save' not in side['digests']:
        raise TranslateError('ParsedLump.__get__ or BSP.save not found')
    return '\n'.join(lines), side


GEN = {'BspGraph_gen': translate}
