"""C10 translator: the lazy-lump dependency graph of srctools/bsp.py -> Gen/BspGraph_gen.v.

Extracted (all from the Python ast, fail-closed):
  * BSP_LUMPS member values, the game-lump id constants;
  * every `ParsedLump(main, *extra)` declaration in class BSP (view name, main lump, lumps cleared);
  * LUMP_REBUILD_ORDER;
  * for every view the functions `_lmp_read_<view>` / `_lmp_write_<view>` and, transitively, every BSP method or
    property they reference through `self.`: which views they look at (`self.<view>`, including a writer looking at
    its OWN view), which raw lumps they read (`self.lumps[BSP_LUMPS.X].data`) and which lumps they store
    (`self.lumps[BSP_LUMPS.X].data = ...`), with the condition under which the store is executed.

The graph uses positions in the rebuild order as view numbers (that is how SM/LazyLumps.v identifies views) and
BSP_LUMPS values as lump numbers (game lumps: 64 + k).  Anything unrecognised (aliasing `self.lumps`, passing
`self` to another function, getattr, a non-constant lump index, an unknown attribute of self) raises
TranslateError.  Branches guarded by `self.is_vitamin` belong to the VitaminSource layout; a store that is skipped
only by an early `if self.is_vitamin: return` is counted as unconditional and reported in the side info.
"""
from __future__ import annotations

import ast

from harness.common import TranslateError, ast_digest, src_text

GAME_LUMP_BASE = 64


def _is_self_attr(node: ast.AST, attr: str | None = None) -> bool:
    return (isinstance(node, ast.Attribute) and isinstance(node.value, ast.Name) and node.value.id == 'self'
            and (attr is None or node.attr == attr))


class _Module:
    def __init__(self) -> None:
        self.tree = ast.parse(src_text('bsp.py'))
        self.lump_vals: dict[str, int] = {}
        self.consts: dict[str, bytes] = {}
        self.order: list[str] = []          # lump keys: 'L:NAME' or 'G:<const name>'
        self.views: dict[str, tuple[str, list[str]]] = {}   # view -> (main key, [extra keys])
        self.methods: dict[str, ast.FunctionDef] = {}
        self.init_attrs: set[str] = set()
        self.bsp: ast.ClassDef | None = None
        self._scan()

    # ------------------------------------------------------------------ declarations
    def lump_key(self, node: ast.AST, where: str) -> str:
        if isinstance(node, ast.Attribute) and isinstance(node.value, ast.Name) and node.value.id == 'BSP_LUMPS':
            if node.attr not in self.lump_vals:
                raise TranslateError(f'{where}: unknown BSP_LUMPS member {node.attr}')
            return 'L:' + node.attr
        if isinstance(node, ast.Name) and node.id in self.consts:
            return 'G:' + node.id
        if isinstance(node, ast.Constant) and isinstance(node.value, bytes):
            for k, v in self.consts.items():
                if v == node.value:
                    return 'G:' + k
        raise TranslateError(f'{where}: lump index is not a BSP_LUMPS member or game-lump constant: {ast.unparse(node)}')

    def _scan(self) -> None:
        for n in self.tree.body:
            if isinstance(n, ast.ClassDef) and n.name == 'BSP_LUMPS':
                for st in n.body:
                    if isinstance(st, ast.Assign) and len(st.targets) == 1 and isinstance(st.targets[0], ast.Name):
                        if not (isinstance(st.value, ast.Constant) and isinstance(st.value.value, int)):
                            raise TranslateError(f'bsp.py:{st.lineno}: BSP_LUMPS member is not an int literal')
                        self.lump_vals[st.targets[0].id] = st.value.value
            elif isinstance(n, ast.Assign) and len(n.targets) == 1 and isinstance(n.targets[0], ast.Name) \
                    and isinstance(n.value, ast.Constant) and isinstance(n.value.value, bytes) \
                    and n.targets[0].id.startswith('LMP_ID_'):
                self.consts[n.targets[0].id] = n.value.value
        if len(self.lump_vals) < 60:
            raise TranslateError('class BSP_LUMPS not recognised')
        for n in self.tree.body:
            tgt = None
            if isinstance(n, ast.AnnAssign) and isinstance(n.target, ast.Name):
                tgt, val = n.target.id, n.value
            elif isinstance(n, ast.Assign) and len(n.targets) == 1 and isinstance(n.targets[0], ast.Name):
                tgt, val = n.targets[0].id, n.value
            if tgt == 'LUMP_REBUILD_ORDER':
                if not isinstance(val, ast.List):
                    raise TranslateError(f'bsp.py:{n.lineno}: LUMP_REBUILD_ORDER is not a list literal')
                self.order = [self.lump_key(e, f'bsp.py:{e.lineno} LUMP_REBUILD_ORDER') for e in val.elts]
            if isinstance(n, ast.ClassDef) and n.name == 'BSP':
                self.bsp = n
        # LUMP_REBUILD_ORDER must not be mutated after its definition
        for node in ast.walk(self.tree):
            if isinstance(node, ast.Attribute) and isinstance(node.value, ast.Name) and node.value.id == 'LUMP_REBUILD_ORDER' \
                    and node.attr in ('append', 'insert', 'remove', 'pop', 'sort', 'reverse', 'extend', 'clear'):
                raise TranslateError(f'bsp.py:{node.lineno}: LUMP_REBUILD_ORDER is mutated')
            if isinstance(node, (ast.Assign, ast.AugAssign, ast.Delete)):
                tg = node.targets if isinstance(node, (ast.Assign, ast.Delete)) else [node.target]
                for t in tg:
                    if isinstance(t, ast.Subscript) and isinstance(t.value, ast.Name) and t.value.id == 'LUMP_REBUILD_ORDER':
                        raise TranslateError(f'bsp.py:{node.lineno}: LUMP_REBUILD_ORDER is mutated')
        if not self.order or self.bsp is None:
            raise TranslateError('LUMP_REBUILD_ORDER or class BSP not found')
        for st in self.bsp.body:
            if isinstance(st, (ast.FunctionDef, ast.AsyncFunctionDef)):
                if isinstance(st, ast.AsyncFunctionDef):
                    raise TranslateError(f'bsp.py:{st.lineno}: async method')
                # overloads: the last definition wins, like at run time
                self.methods[st.name] = st
            val = None
            if isinstance(st, ast.AnnAssign) and isinstance(st.target, ast.Name):
                name, val = st.target.id, st.value
            elif isinstance(st, ast.Assign) and len(st.targets) == 1 and isinstance(st.targets[0], ast.Name):
                name, val = st.targets[0].id, st.value
            if val is not None and isinstance(val, ast.Call) and isinstance(val.func, ast.Name) and val.func.id == 'ParsedLump':
                if val.keywords or any(isinstance(a, ast.Starred) for a in val.args) or not val.args:
                    raise TranslateError(f'bsp.py:{st.lineno}: ParsedLump declaration not recognised')
                keys = [self.lump_key(a, f'bsp.py:{st.lineno} ParsedLump') for a in val.args]
                self.views[name] = (keys[0], keys[1:])
        init = self.methods.get('__init__')
        if init is None:
            raise TranslateError('BSP.__init__ not found')
        for node in ast.walk(init):
            if isinstance(node, (ast.Assign, ast.AnnAssign)):
                tg = node.targets if isinstance(node, ast.Assign) else [node.target]
                for t in tg:
                    if _is_self_attr(t):
                        self.init_attrs.add(t.attr)
        # class-level annotations of plain attributes (version, game_ver, lump_layout, map_revision)
        for st in self.bsp.body:
            if isinstance(st, ast.AnnAssign) and isinstance(st.target, ast.Name) and st.value is None:
                self.init_attrs.add(st.target.id)
        for node in ast.walk(self.methods['read']) if 'read' in self.methods else ():
            if isinstance(node, ast.Assign):
                for t in node.targets:
                    if _is_self_attr(t):
                        self.init_attrs.add(t.attr)

    def lump_num(self, key: str) -> int:
        if key.startswith('L:'):
            return self.lump_vals[key[2:]]
        return GAME_LUMP_BASE + sorted(self.consts).index(key[2:])

    # ------------------------------------------------------------------ effects of a function
    def effects(self, fname: str, where: str) -> dict:
        """Views looked at, raw lumps read and lumps stored by BSP.<fname>, transitively through self.<method>."""
        out = {'views': {}, 'raw_reads': {}, 'stores': [], 'helpers': []}
        seen: set[str] = set()

        def visit_func(name: str, ctx: tuple[str, ...]) -> None:
            if name in seen:
                return
            seen.add(name)
            fn = self.methods[name]
            if name != fname:
                out['helpers'].append(name)
            self._walk_body(fn.body, ctx, out, visit_func, f'bsp.py BSP.{name}')

        if fname not in self.methods:
            raise TranslateError(f'{where}: BSP.{fname} not found')
        visit_func(fname, ())
        return out

    def _walk_body(self, body: list[ast.stmt], ctx: tuple[str, ...], out: dict, visit_func, where: str) -> None:
        """Statements in order; `ctx` is the tuple of guards under which they run."""
        early: tuple[str, ...] = ()
        for st in body:
            c = ctx + early
            if isinstance(st, ast.If):
                test = ast.unparse(st.test)
                self._expr(st.test, c, out, visit_func, where)
                self._walk_body(st.body, c + (test,), out, visit_func, where)
                self._walk_body(st.orelse, c + (f'not ({test})',), out, visit_func, where)
                if _has_return(st.body) and not _has_return(st.orelse):
                    early += (f'after-return-if ({test})',)
                elif _has_return(st.orelse) and not _has_return(st.body):
                    early += (f'after-return-if (not ({test}))',)
            elif isinstance(st, (ast.For, ast.While)):
                if isinstance(st, ast.For):
                    self._expr(st.iter, c, out, visit_func, where)
                    self._expr(st.target, c, out, visit_func, where)
                    g = f'for {ast.unparse(st.target)}'
                else:
                    self._expr(st.test, c, out, visit_func, where)
                    g = f'while {ast.unparse(st.test)}'
                self._walk_body(st.body, c + (g,), out, visit_func, where)
                self._walk_body(st.orelse, c + (g + ' else',), out, visit_func, where)
            elif isinstance(st, ast.Try):
                self._walk_body(st.body, c + ('try',), out, visit_func, where)
                for h in st.handlers:
                    self._walk_body(h.body, c + ('except',), out, visit_func, where)
                self._walk_body(st.orelse, c + ('try-else',), out, visit_func, where)
                self._walk_body(st.finalbody, c, out, visit_func, where)
            elif isinstance(st, ast.With):
                for it in st.items:
                    self._expr(it.context_expr, c, out, visit_func, where)
                self._walk_body(st.body, c, out, visit_func, where)
            elif isinstance(st, (ast.FunctionDef, ast.ClassDef, ast.AsyncFunctionDef, ast.Match)):
                raise TranslateError(f'{where}:{st.lineno}: nested def/class/match inside a lump function')
            else:
                self._expr(st, c, out, visit_func, where)

    def _expr(self, node: ast.AST, ctx: tuple[str, ...], out: dict, visit_func, where: str) -> None:
        """Classify every use of `self` inside an expression or simple statement."""
        consumed: set[int] = set()
        for n in ast.walk(node):
            # self.lumps[K].data / self.game_lumps[K].data
            if isinstance(n, ast.Attribute) and isinstance(n.value, ast.Subscript) and _is_self_attr(n.value.value) \
                    and n.value.value.attr in ('lumps', 'game_lumps'):
                key = self.lump_key(n.value.slice, f'{where}:{n.lineno}')
                consumed.update((id(n.value), id(n.value.value), id(n.value.value.value)))
                if n.attr == 'data':
                    if isinstance(n.ctx, ast.Store):
                        out['stores'].append((key, ctx, n.lineno))
                    elif isinstance(n.ctx, ast.Load):
                        out['raw_reads'].setdefault(key, n.lineno)
                    else:
                        raise TranslateError(f'{where}:{n.lineno}: del of lump data')
                elif n.attr in ('version', 'flags', 'is_compressed', 'type', 'id') and isinstance(n.ctx, ast.Load):
                    pass
                else:
                    raise TranslateError(f'{where}:{n.lineno}: unrecognised use of a lump object: {ast.unparse(n)}')
        for n in ast.walk(node):
            if isinstance(n, ast.Subscript) and _is_self_attr(n.value) and n.value.attr in ('lumps', 'game_lumps') \
                    and id(n) not in consumed:
                raise TranslateError(f'{where}:{n.lineno}: lump object escapes: {ast.unparse(n)}')
            if _is_self_attr(n):
                if id(n) in consumed:
                    continue
                consumed.add(id(n.value))
                a = n.attr
                if a in self.views:
                    if not isinstance(n.ctx, ast.Load):
                        raise TranslateError(f'{where}:{n.lineno}: lump function assigns view self.{a}')
                    out['views'].setdefault(a, n.lineno)
                elif a in self.methods:
                    visit_func(a, ctx)
                elif a in ('lumps', 'game_lumps', '_parsed_lumps', '_save_funcs', '__dict__', '__class__'):
                    raise TranslateError(f'{where}:{n.lineno}: self.{a} used outside the recognised patterns')
                elif a in self.init_attrs:
                    pass
                else:
                    raise TranslateError(f'{where}:{n.lineno}: unknown attribute self.{a}')
        for n in ast.walk(node):
            if isinstance(n, ast.Name) and n.id == 'self' and id(n) not in consumed:
                raise TranslateError(f'{where}:{n.lineno}: `self` escapes (passed on or aliased)')
            if isinstance(n, ast.Name) and n.id in ('getattr', 'setattr', 'vars', 'delattr', 'eval', 'exec'):
                raise TranslateError(f'{where}:{n.lineno}: dynamic attribute access ({n.id})')
            if isinstance(n, ast.Lambda):
                pass   # bodies are walked by ast.walk above


def _has_return(body: list[ast.stmt]) -> bool:
    return any(isinstance(s, ast.Return) for s in body)


def _only_vitamin(ctx: tuple[str, ...]) -> bool:
    """True when the only guards are early returns / else-branches of the VitaminSource layout test."""
    return all(g in ('after-return-if (self.is_vitamin)', 'not (self.is_vitamin)') for g in ctx)


def translate() -> tuple[str, dict]:
    m = _Module()
    order = m.order
    main_of = {v: mk for v, (mk, _) in m.views.items()}
    pos_of_key = {}
    dup_order = len(set(order)) != len(order)
    for i, k in enumerate(order):
        pos_of_key.setdefault(k, i)
    # views by position
    by_pos: dict[int, list[str]] = {}
    not_in_order = []
    for v, (mk, _) in m.views.items():
        if mk in pos_of_key:
            by_pos.setdefault(pos_of_key[mk], []).append(v)
        else:
            not_in_order.append(v)
    order_without_view = [k for i, k in enumerate(order) if i not in by_pos]
    same_main = sorted(v for vs in by_pos.values() if len(vs) > 1 for v in vs)
    view_at: list[str | None] = [by_pos[i][0] if i in by_pos else None for i in range(len(order))]
    pos_of_view = {v: i for i, v in enumerate(view_at) if v is not None}

    def vnum(view: str, where: str) -> int:
        if view not in pos_of_view:
            # a dependency on a view that save() never rebuilds: encode as an out-of-range position
            return len(order) + 100
        return pos_of_view[view]

    decls = []
    raw_reads: list[tuple[int, int]] = []
    all_stores: list[tuple[int, int]] = []
    cond_stores: list[tuple[int, int, str]] = []
    side_views = {}
    for i, v in enumerate(view_at):
        if v is None:
            decls.append(([], [], [], []))
            continue
        suffix = v.lstrip('_')
        rd = m.effects('_lmp_read_' + suffix, f'view {v}')
        wr = m.effects('_lmp_write_' + suffix, f'view {v}')
        if rd['stores'] and any(k not in (m.views[v][0], *m.views[v][1]) for k, _, _ in rd['stores']):
            raise TranslateError(f'reader of {v} stores a lump it does not own: {rd["stores"]}')
        own = [m.lump_num(m.views[v][0])] + [m.lump_num(k) for k in m.views[v][1]]
        rdeps = sorted({vnum(x, v) for x in rd['views']})
        wdeps = sorted({vnum(x, v) for x in wr['views']})
        wstore = [own[0]]   # the returned bytes are stored into the main lump by BSP.save
        vit_only = []
        for key, ctx, line in wr['stores']:
            num = m.lump_num(key)
            if not ctx or _only_vitamin(ctx):
                if num not in wstore:
                    wstore.append(num)
                if ctx:
                    vit_only.append(key)
                all_stores.append((i, num))
            else:
                cond_stores.append((i, num, ' & '.join(ctx)))
        for key in list(rd['raw_reads']) + list(wr['raw_reads']):
            raw_reads.append((i, m.lump_num(key)))
        decls.append((own, rdeps, wdeps, wstore))
        side_views[v] = {
            'position': i, 'main': m.views[v][0], 'extra': m.views[v][1],
            'reader_views': sorted(rd['views']), 'writer_views': sorted(wr['views']),
            'reader_raw': sorted(rd['raw_reads']), 'writer_stores': sorted({k for k, _, _ in wr['stores']}),
            'stores_skipped_only_for_vitamin': sorted(set(vit_only)),
            'conditional_stores': [(k, ' & '.join(c)) for k, c, _ in wr['stores'] if c and not _only_vitamin(c)],
            'helpers': sorted(set(rd['helpers'] + wr['helpers'])),
        }

    def nl(xs) -> str:
        return '[' + '; '.join(str(x) for x in xs) + ']'

    names = {m.lump_num('L:' + k): k for k in sorted(m.lump_vals, key=lambda k: (m.lump_vals[k], k))[::-1]}
    for c in m.consts:
        names[m.lump_num('G:' + c)] = 'game:' + m.consts[c].decode('ascii', 'replace')
    lines = [
        '(* GENERATED by translate/c10_bspgraph.py from src/srctools/bsp.py. Do not edit. *)',
        'From Coq Require Import List String.', 'From SV Require Import SM.LazyLumps.', 'Import ListNotations.',
        'Open Scope string_scope.',
        '(* views in LUMP_REBUILD_ORDER; view number = position *)',
        'Definition bsp_view_names : list string := [' + '; '.join(f'"{v or "-"}"' for v in view_at) + '].',
        'Definition bsp_lump_names : list (nat * string) := [' + '; '.join(f'({n}, "{names[n]}")' for n in sorted(names)) + '].',
        'Definition bsp_graph : graph := [',
        ';\n'.join(f'  mkV {nl(o)} {nl(r)} {nl(w)} {nl(s)}  (* {i}: {view_at[i]} *)' for i, (o, r, w, s) in enumerate(decls)),
        '].',
        '(* declared views whose main lump is missing from LUMP_REBUILD_ORDER (save() would never write them back) *)',
        'Definition bsp_views_not_in_order : list string := [' + '; '.join(f'"{v}"' for v in sorted(not_in_order)) + '].',
        '(* views sharing one main lump (they would share one cache slot) *)',
        'Definition bsp_views_same_main : list string := [' + '; '.join(f'"{v}"' for v in same_main) + '].',
        f'Definition bsp_order_has_duplicates : bool := {"true" if dup_order else "false"}.',
        'Definition bsp_order_without_view : list nat := ' + nl(m.lump_num(k) for k in order_without_view) + '.',
        '(* raw lump data read directly by a reader or writer: (view, lump) *)',
        'Definition bsp_raw_reads : list (nat * nat) := [' + '; '.join(f'({a}, {b})' for a, b in sorted(set(raw_reads))) + '].',
        '(* explicit unconditional stores of lump data inside writers: (view, lump) *)',
        'Definition bsp_stores : list (nat * nat) := [' + '; '.join(f'({a}, {b})' for a, b in sorted(set(all_stores))) + '].',
        '(* stores executed only under a data-dependent condition: (view, lump) *)',
        'Definition bsp_cond_stores : list (nat * nat) := [' + '; '.join(f'({a}, {b})' for a, b in sorted({(a, b) for a, b, _ in cond_stores})) + '].',
        '',
    ]
    side = {
        'order': order, 'views': side_views, 'not_in_order': not_in_order, 'order_without_view': order_without_view,
        'cond_stores': [[view_at[a], names[b], c] for a, b, c in cond_stores],
        'graph': [list(map(list, d)) for d in decls], 'view_at': view_at,
        'lump_num': {k: m.lump_num('L:' + k) for k in m.lump_vals} | {m.consts[c].decode(): m.lump_num('G:' + c) for c in m.consts},
        'digests': {},
    }
    # hand-modelled control flow: digests only escalate budgets (DESIGN 5.4)
    for n in m.tree.body:
        if isinstance(n, ast.ClassDef) and n.name == 'ParsedLump':
            for f in n.body:
                if isinstance(f, ast.FunctionDef) and f.name in ('__get__', '__set_name__', '__init__'):
                    side['digests']['ParsedLump.' + f.name] = ast_digest(f)
    for name in ('save', 'read'):
        if name in m.methods:
            side['digests']['BSP.' + name] = ast_digest(m.methods[name])
    if 'ParsedLump.__get__' not in side['digests'] or 'BSP.save' not in side['digests']:
        raise TranslateError('ParsedLump.__get__ or BSP.save not found')
    return '\n'.join(lines), side


GEN = {'BspGraph_gen': translate}
