"""C04 translator (round 5), census of PROCESS STATE of srctools/math.py -> Gen/RotState_gen.v.

The property speaks about every call that builds a rotation ("every matrix built from an Euler angle ..."), not about the first
call of a process.  What a call returns can depend on earlier calls only through objects that outlive a call.  This census reads,
from the whole of math.py (every function, method, lambda, and every method produced by the `exec(TEMPLATE.format(..))` loops of
the class bodies, expanded as translate/c04_inplace.py does):

* long-lived objects: module-level and class-level names bound to a value that is not recognisably immutable (dict / list / set
  displays, comprehensions, results of calls other than typing helpers and constructors of the frozen classes);
* for each of them the sites inside FUNCTION BODIES (code that runs at import time runs once and is not history) that read it,
  and the sites that update it (store / delete / augmented assignment through a subscript or attribute, a mutating method), rebind
  it, or let it escape (handed to something this census cannot follow: an argument, a return value, an alias, an element read of
  a table whose elements are not constants) -> `sc_reads`, `sc_writes`, `sc_write_sites`;
* stores into class objects / function objects from inside a function (`cls.x = ..`, `type(self).x = ..`, `Matrix.x = ..`,
  `setattr(cls, ..)`, `f.attr = ..`) -> `sc_class_writes`;
* decorators other than the stateless ones (`classmethod`, `staticmethod`, `property` + accessors, `overload`, `final`,
  `contextlib.contextmanager`, `deprecated(..)`, ...), and module-level / class-level `name = wrapper(function)` rebinding a
  function through a call -> `sc_decorators` (an `lru_cache` / `cache` / hand-written memo decorator keeps a table);
* parameter defaults that are not recognisably immutable -> `sc_defaults`;
* `global` / `nonlocal` declarations -> `sc_globals`;
* reflective access inside a function: `globals()`, `vars()`, `locals()`, `exec`, `eval`, `compile`, `__import__`, `delattr`,
  `.__dict__`, `.__globals__`, `sys.modules`, `object.__setattr__`-style calls on something other than a fresh local -> `sc_reflective`;
* imports from outside the standard library (other than `typing_extensions` and the optional Cython twin `from . import _math`,
  which cannot be built here and is not verified) -> `sc_imports`.

Rot/RotState.v accepts the census when no function reads an object a function can update and all the other lists are empty
(`state_ok`); `state_ok_history_independent` is what follows for every history of calls.  Fail closed: a module-level statement
form that is not understood raises TranslateError.  Line numbers appear only in the site descriptions of a REJECTED census.
"""
from __future__ import annotations

import ast
import sys
from typing import Any, Iterator

from harness.common import TranslateError, src_text
from translate import c04_inplace as trp

FROZEN_CLASSES = {'FrozenVec', 'FrozenAngle', 'FrozenMatrix', 'Py_FrozenVec', 'Py_FrozenAngle', 'Py_FrozenMatrix',
                  'Cy_FrozenVec', 'Cy_FrozenAngle', 'Cy_FrozenMatrix'}
IMMUTABLE_CALLS = {'TypeVar', 'NewType', 'ParamSpec', 'TypeVarTuple', 'frozenset', 'str', 'int', 'float', 'bytes', 'bool', 'object',
                   'tuple', 'namedtuple', 'Struct', 'struct.Struct', 're.compile', 'typing.TypeVar'} | FROZEN_CLASSES
STATELESS_DECORATORS = {'classmethod', 'staticmethod', 'property', 'overload', 'final', 'typing.final', 'typing.overload',
                        'contextlib.contextmanager', 'contextmanager', 'abstractmethod', 'abc.abstractmethod', 'no_type_check',
                        'runtime_checkable', 'total_ordering', 'functools.total_ordering', 'dataclass', 'deprecated'}
STATELESS_DECORATOR_CALLS = {'deprecated', 'typing_extensions.deprecated', 'warnings.deprecated', 'wraps', 'functools.wraps'}
MUTATING_METHODS = {'append', 'extend', 'insert', 'pop', 'popitem', 'remove', 'clear', 'update', 'setdefault', 'add', 'discard',
                    'sort', 'reverse', '__setitem__', '__delitem__', 'move_to_end', 'appendleft', 'popleft', 'extendleft',
                    'difference_update', 'intersection_update', 'symmetric_difference_update', '__ior__', '__iadd__'}
READ_ONLY_METHODS = {'get', 'items', 'keys', 'values', 'index', 'count', 'copy', '__contains__', '__getitem__', '__len__',
                     'isdisjoint', 'issubset', 'issuperset'}
READ_ONLY_BUILTINS = {'len', 'enumerate', 'sorted', 'list', 'tuple', 'dict', 'set', 'frozenset', 'reversed', 'zip', 'iter', 'min',
                      'max', 'sum', 'any', 'all', 'bool', 'str', 'repr', 'isinstance'}
ARG_READ_METHODS = {'join', 'isdisjoint', 'issubset', 'issuperset', 'union', 'intersection', 'difference', 'index', 'count', 'get',
                    'startswith', 'endswith'}
REFLECTIVE_CALLS = {'globals', 'vars', 'locals', 'exec', 'eval', 'compile', '__import__', 'delattr'}
REFLECTIVE_ATTRS = {'__dict__', '__globals__', '__closure__', '__defaults__', '__kwdefaults__', '__code__', '__builtins__'}
FUNC_NODES = (ast.FunctionDef, ast.AsyncFunctionDef, ast.Lambda)


def _unparse(n: ast.AST, width: int = 70) -> str:
    return ' '.join(ast.unparse(n).split())[:width]


def _immutable(e: ast.expr | None, long_names: Any = None, tables: dict | None = None) -> bool:
    """The value is recognisably immutable (or an alias of something that is not data: a class, a function, an import)."""
    if e is None or isinstance(e, (ast.Constant, ast.JoinedStr)):
        return True
    if isinstance(e, ast.Tuple):
        return all(_immutable(x, long_names) for x in e.elts)
    if isinstance(e, ast.UnaryOp):
        return _immutable(e.operand, long_names)
    if isinstance(e, ast.BinOp):
        return _immutable(e.left, long_names) and _immutable(e.right, long_names)
    if isinstance(e, ast.Name):
        return long_names is None or e.id not in long_names
    if isinstance(e, (ast.Attribute, ast.Subscript)):      # math.inf, Union[int, float], Literal['x']
        return all(isinstance(n, (ast.Name, ast.Attribute, ast.Subscript, ast.Tuple, ast.List, ast.Constant, ast.BinOp, ast.BitOr,
                                  ast.Load, ast.expr_context)) for n in ast.walk(e))
    if isinstance(e, ast.Call):
        f = ast.unparse(e.func)
        if f in ('cast', 'typing.cast') and len(e.args) == 2 and not e.keywords:
            return _immutable(e.args[1], long_names)
        if f in ('frozenset', 'tuple') and len(e.args) == 1 and not e.keywords and isinstance(e.args[0], ast.Name) and tables is not None \
                and e.args[0].id in tables and tables[e.args[0].id]['elements'] and not tables[e.args[0].id]['opaque']:
            return True
        if f in IMMUTABLE_CALLS or f.split('.')[-1] in FROZEN_CLASSES:
            return all(_immutable(a, long_names) for a in e.args) and all(_immutable(k.value, long_names) for k in e.keywords)
    return False


def _elements_immutable(e: ast.expr | None, tables: dict | None = None) -> bool:
    """A table display all of whose keys / elements are constants: reading an element hands out nothing that can change."""
    if isinstance(e, ast.Call) and ast.unparse(e.func) in ('cast', 'typing.cast') and len(e.args) == 2:
        return _elements_immutable(e.args[1], tables)
    if isinstance(e, ast.Dict):
        return all(k is not None and _immutable(k) for k in e.keys) and all(_immutable(v) for v in e.values)
    if isinstance(e, (ast.List, ast.Set)):
        return all(_immutable(x) for x in e.elts)
    if isinstance(e, ast.Call) and isinstance(e.func, ast.Name) and e.func.id in TABLE_CALLS and not e.keywords and len(e.args) <= 1:
        # set(TABLE) / list(TABLE) / dict(TABLE) / sorted(TABLE): a new table with (some of) the constants of the old one
        a = e.args[0] if e.args else None
        return a is None or _elements_immutable(a, tables) or isinstance(a, ast.Name) and tables is not None and \
            tables.get(a.id, {}).get('elements') is True and not tables[a.id]['opaque'] or \
            isinstance(a, (ast.Constant, ast.Tuple)) and _immutable(a)
    return False


TABLE_CALLS = {'set', 'dict', 'list', 'sorted'}


def _is_table(e: ast.expr | None) -> bool:
    return isinstance(e, (ast.Dict, ast.List, ast.Set, ast.ListComp, ast.DictComp, ast.SetComp)) or \
        isinstance(e, ast.Call) and isinstance(e.func, ast.Name) and e.func.id in TABLE_CALLS and not e.keywords and len(e.args) <= 1


def _is_type_checking(t: ast.expr) -> bool | None:
    """True for `TYPE_CHECKING`, False for `not TYPE_CHECKING`, None otherwise."""
    if isinstance(t, ast.Name) and t.id == 'TYPE_CHECKING' or isinstance(t, ast.Attribute) and t.attr == 'TYPE_CHECKING':
        return True
    if isinstance(t, ast.UnaryOp) and isinstance(t.op, ast.Not) and _is_type_checking(t.operand) is True:
        return False
    return None


def _runtime_statements(body: list[ast.stmt]) -> Iterator[ast.stmt]:
    """The statements of a module / class body that run, compound statements opened up (not defs / classes); the arm of an
    `if TYPE_CHECKING:` that never runs is skipped."""
    for s in body:
        if isinstance(s, ast.If):
            tc = _is_type_checking(s.test)
            if tc is True:
                yield from _runtime_statements(s.orelse)
            elif tc is False:
                yield from _runtime_statements(s.body)
            else:
                yield from _runtime_statements(s.body)
                yield from _runtime_statements(s.orelse)
        elif isinstance(s, ast.Try):
            for b in [s.body, s.orelse, s.finalbody] + [h.body for h in s.handlers]:
                yield from _runtime_statements(b)
        elif isinstance(s, (ast.For, ast.While)):
            yield s
            yield from _runtime_statements(s.body)
            yield from _runtime_statements(s.orelse)
        elif isinstance(s, ast.With):
            yield s
            yield from _runtime_statements(s.body)
        else:
            yield s


def _bindings(body: list[ast.stmt], where: str) -> list[tuple[ast.expr, ast.expr | None, ast.stmt]]:
    """(target, value, statement) of every binding a module / class body makes at run time."""
    out: list[tuple[ast.expr, ast.expr | None, ast.stmt]] = []
    for s in _runtime_statements(body):
        if isinstance(s, ast.Assign):
            out += [(t, s.value, s) for t in s.targets]
        elif isinstance(s, ast.AnnAssign):
            if s.value is not None and 'TypeAlias' not in ast.unparse(s.annotation):
                out.append((s.target, s.value, s))
        elif isinstance(s, ast.AugAssign):
            out.append((s.target, None if isinstance(s.value, ast.Constant) else s.value, s))
        elif isinstance(s, ast.For):
            lit = isinstance(s.iter, (ast.List, ast.Tuple)) and all(_immutable(x) for x in s.iter.elts)
            out.append((s.target, ast.Constant(value=0) if lit else s.iter, s))
        elif isinstance(s, ast.With):
            out += [(i.optional_vars, i.context_expr, s) for i in s.items if i.optional_vars is not None]
        elif isinstance(s, (ast.FunctionDef, ast.AsyncFunctionDef, ast.ClassDef, ast.Import, ast.ImportFrom, ast.Expr, ast.Pass,
                            ast.Delete, ast.Assert, ast.Raise, ast.While)):
            pass
        else:
            raise TranslateError(f'{where}: line {s.lineno}: statement {type(s).__name__} in a module / class body is not understood')
    return out


class Census:
    def __init__(self, tree: ast.Module) -> None:
        self.tree = tree
        self.defs = {n.name for n in ast.walk(tree) if isinstance(n, (ast.FunctionDef, ast.AsyncFunctionDef, ast.ClassDef))}
        self.module_funcs = {s.name for s in _runtime_statements(tree.body) if isinstance(s, (ast.FunctionDef, ast.AsyncFunctionDef))}
        self.classes = {s.name: s for s in _runtime_statements(tree.body) if isinstance(s, ast.ClassDef)}
        self.class_aliases = set(self.classes)
        self.long: dict[str, dict] = {}          # module-level name -> {'elements': bool, 'opaque': bool}
        self.class_long: dict[str, dict] = {}    # attribute name -> {..., 'cls': name}
        self.reads: dict[str, list[str]] = {}
        self.write_sites: dict[str, list[str]] = {}
        self.class_writes: list[str] = []
        self.decorators: list[str] = []
        self.defaults: list[str] = []
        self.globals: list[str] = []
        self.reflective: list[str] = []
        self.imports: list[str] = []
        self.n_functions = 0
        self.n_template_functions = 0
        self.n_refs = 0

    # ------------------------------------------------------------------ long-lived objects
    def collect_long_lived(self) -> None:
        for tg, val, st in _bindings(self.tree.body, 'module'):
            self._bind(tg, val, st, None)
        for cname, cdef in self.classes.items():
            is_enum = any(ast.unparse(b).split('.')[-1] in ('Enum', 'IntEnum', 'Flag', 'IntFlag') for b in cdef.bases)
            for tg, val, st in _bindings(cdef.body, f'class {cname}'):
                if not is_enum:
                    self._bind(tg, val, st, cname)
        # aliases of classes (Py_Matrix = Matrix): stores through them are stores into the class
        for tg, val, _st in _bindings(self.tree.body, 'module'):
            if isinstance(tg, ast.Name) and isinstance(val, ast.Name) and val.id in self.class_aliases:
                self.class_aliases.add(tg.id)

    def _bind(self, tg: ast.expr, val: ast.expr | None, st: ast.stmt, cls: str | None) -> None:
        where = f'class {cls}' if cls else 'module'
        if isinstance(tg, (ast.Tuple, ast.List)):
            for t in tg.elts:
                self._bind(t, val if isinstance(val, ast.Constant) else (None if _immutable(val) else val), st, cls)
            return
        if isinstance(tg, ast.Starred):
            self._bind(tg.value, val, st, cls)
            return
        while isinstance(val, ast.Call) and ast.unparse(val.func) in ('cast', 'typing.cast') and len(val.args) == 2 and not val.keywords:
            val = val.args[1]                           # cast(T, v) is v
        if isinstance(tg, ast.Name):
            name = tg.id
            if name.startswith('__') and name.endswith('__'):
                return                                  # __all__, __slots__, __match_args__, __hash__: read by the interpreter
            # a function / class rebound through a call at import time: a wrapper object stands where the function stood
            if isinstance(val, ast.Call) and not _immutable(val) and any(
                    isinstance(a, ast.Name) and a.id in self.defs or isinstance(a, ast.Lambda)
                    for a in list(val.args) + [k.value for k in val.keywords]):
                self.decorators.append(f'{where}: line {st.lineno}: {_unparse(st)}')
            if _immutable(val, set(self.long), self.long):
                return
            entry = {'elements': _elements_immutable(val, self.long), 'opaque': not _is_table(val), 'cls': cls, 'line': st.lineno}
            if cls is None:
                prev = self.long.get(name)
                if prev:
                    entry['elements'] = entry['elements'] and prev['elements']
                    entry['opaque'] = entry['opaque'] or prev['opaque']
                self.long[name] = entry
            else:
                self.class_long[name] = entry
            return
        if isinstance(tg, ast.Attribute) and isinstance(tg.value, ast.Name) and tg.value.id in self.classes and cls is None:
            # VecBase.N = FrozenVec(..) at import time: class-level data filled in after the class statement
            if not _immutable(val, set(self.long)):
                self.class_long[tg.attr] = {'elements': _elements_immutable(val), 'opaque': True, 'cls': tg.value.id, 'line': st.lineno}
            return
        if isinstance(tg, ast.Subscript):
            return         # _glob[name] = ... at import time: runs once (the object itself is census'd where it is bound)
        raise TranslateError(f'{where}: line {st.lineno}: binding target `{_unparse(tg, 40)}` is not understood')

    # ------------------------------------------------------------------ functions
    def all_functions(self) -> list[tuple[str, Any]]:
        """(qualified name, node) of every outermost function: module-level defs, methods, lambdas in module / class bodies, and
        the methods the exec() templates define."""
        out: list[tuple[str, Any]] = []
        strings = trp._module_strings(self.tree)

        def outer(body: list[ast.stmt], prefix: str) -> None:
            for s in body:
                if isinstance(s, (ast.FunctionDef, ast.AsyncFunctionDef)):
                    out.append((prefix + s.name, s))
                elif isinstance(s, ast.ClassDef):
                    outer(s.body, prefix + s.name + '.')
                    if prefix == '':
                        for fn, origin in trp.class_defs(s, strings):
                            if origin != 'def':
                                out.append((f'{s.name}.{fn.name} ({origin})', fn))
                                self.n_template_functions += 1
                else:
                    # compound statements and expressions at module / class level: nested defs and lambdas
                    for sub in ast.iter_child_nodes(s):
                        if isinstance(sub, ast.stmt):
                            outer([sub], prefix)
                    for sub in _walk_no_funcs(s, into_stmts=False):
                        if isinstance(sub, ast.Lambda):
                            out.append((prefix + f'<lambda line {sub.lineno}>', sub))
        outer(self.tree.body, '')
        return out

    def scan_function(self, qual: str, fn: Any, enclosing: frozenset[str]) -> None:
        self.n_functions += 1
        a = fn.args
        params = {x.arg for x in a.args + a.kwonlyargs + a.posonlyargs} | ({a.vararg.arg} if a.vararg else set()) | \
            ({a.kwarg.arg} if a.kwarg else set())
        body: list[ast.AST] = list(fn.body) if isinstance(fn.body, list) else [fn.body]
        declared: set[str] = set()
        stores: set[str] = set()
        nodes: list[tuple[ast.AST, list[ast.AST]]] = []
        for b in body:
            for n, chain in _walk_with_parents(b):
                nodes.append((n, chain))
                if isinstance(n, (ast.Global, ast.Nonlocal)):
                    declared |= set(n.names)
                    kind = 'global' if isinstance(n, ast.Global) else 'nonlocal'
                    self.globals += [f'{qual}: line {n.lineno}: {kind} {nm}' for nm in n.names]
                elif isinstance(n, ast.Name) and isinstance(n.ctx, (ast.Store, ast.Del)):
                    stores.add(n.id)
                elif isinstance(n, (ast.FunctionDef, ast.AsyncFunctionDef, ast.ClassDef)):
                    stores.add(n.name)
                elif isinstance(n, (ast.Import, ast.ImportFrom)):
                    stores |= {(al.asname or al.name).split('.')[0] for al in n.names}
                elif isinstance(n, ast.ExceptHandler) and n.name:
                    stores.add(n.name)
        local = frozenset((enclosing | params | stores) - declared)
        self.check_defaults(qual, fn)
        for n, chain in nodes:
            par = chain[-1] if chain else None
            if isinstance(n, FUNC_NODES):
                self.scan_function(f'{qual}.<{getattr(n, "name", "lambda")}>', n, local)
                continue
            if isinstance(n, ast.Name) and n.id in self.long and n.id not in local:
                self.classify(n.id, self.long[n.id], n, chain, qual)
            elif isinstance(n, ast.Attribute) and n.attr in self.class_long:
                e = self.class_long[n.attr]
                self.classify(f'{e["cls"]}.{n.attr}', e, n, chain, qual)
            # stores into class / function objects
            if isinstance(n, ast.Attribute) and isinstance(n.ctx, (ast.Store, ast.Del)) or \
                    isinstance(par, ast.AugAssign) and par.target is n and isinstance(n, ast.Attribute):
                if self.is_class_or_function(n.value, local):
                    self.class_writes.append(f'{qual}: line {n.lineno}: {_unparse(par or n)}')
            if isinstance(n, ast.Call):
                f = ast.unparse(n.func)
                if f in ('setattr', 'delattr') and n.args and self.is_class_or_function(n.args[0], local):
                    self.class_writes.append(f'{qual}: line {n.lineno}: {_unparse(n)}')
                if f in REFLECTIVE_CALLS and f not in local:
                    self.reflective.append(f'{qual}: line {n.lineno}: {_unparse(n)}')
                if isinstance(n.func, ast.Attribute) and n.func.attr in ('__setattr__', '__delattr__') and n.args and \
                        self.is_class_or_function(n.args[0], local):
                    self.class_writes.append(f'{qual}: line {n.lineno}: {_unparse(n)}')
            if isinstance(n, ast.Attribute) and (n.attr in REFLECTIVE_ATTRS or ast.unparse(n) == 'sys.modules'):
                self.reflective.append(f'{qual}: line {n.lineno}: {_unparse(par or n)}')

    def is_class_or_function(self, e: ast.expr, local: frozenset[str]) -> bool:
        """The object stored into is a class or a function (not an instance held in a local / parameter)."""
        if isinstance(e, ast.Name):
            if e.id == 'cls':
                return True
            return e.id not in local and (e.id in self.class_aliases or e.id in self.module_funcs or e.id in self.defs)
        if isinstance(e, ast.Call) and ast.unparse(e.func) == 'type':
            return True
        if isinstance(e, ast.Attribute) and e.attr == '__class__':
            return True
        return False

    def classify(self, name: str, entry: dict, x: ast.AST, chain: list[ast.AST], qual: str) -> None:
        self.n_refs += 1
        par = chain[-1] if chain else None
        gp = chain[-2] if len(chain) > 1 else None
        site = f'{qual}: line {getattr(x, "lineno", 0)}: {_unparse(par if par is not None else x)}'

        def read() -> None:
            self.reads.setdefault(name, []).append(site)

        def write(kind: str) -> None:
            self.write_sites.setdefault(name, []).append(f'{site}   [{kind}]')
        if entry['opaque']:
            # an object whose class this census does not know: every use from a function may change it
            read()
            write('use of a long-lived object of unknown class')
            return
        if isinstance(getattr(x, 'ctx', None), (ast.Store, ast.Del)):
            write('rebinds / deletes')
            return
        if isinstance(par, ast.AugAssign) and par.target is x:
            read()
            write('augmented assignment')
            return
        if isinstance(par, ast.Subscript) and par.value is x:
            if isinstance(par.ctx, (ast.Store, ast.Del)):
                write('stores / deletes an element')
            elif isinstance(gp, ast.AugAssign) and gp.target is par:
                read()
                write('updates an element')
            elif isinstance(gp, (ast.Subscript, ast.Attribute)) and gp.value is par and (
                    isinstance(gp.ctx, (ast.Store, ast.Del)) or isinstance(gp, ast.Attribute) and gp.attr in MUTATING_METHODS):
                read()
                write('updates inside an element')
            elif entry['elements']:
                read()
            else:
                read()
                write('hands out an element that is not a constant')
            return
        if isinstance(par, ast.Attribute) and par.value is x:
            if isinstance(par.ctx, (ast.Store, ast.Del)) or par.attr in MUTATING_METHODS:
                read()
                write('mutating method / attribute store')
            elif par.attr in READ_ONLY_METHODS and isinstance(gp, ast.Call) and gp.func is par and (
                    entry['elements'] or par.attr in ('keys', 'index', 'count', '__contains__', '__len__', 'isdisjoint', 'issubset', 'issuperset')):
                read()
            else:
                read()
                write('escapes through an attribute / method this census does not know')
            return
        if isinstance(par, ast.Compare) and x in par.comparators and all(isinstance(o, (ast.In, ast.NotIn)) for o in par.ops):
            read()
            return
        if isinstance(par, (ast.For, ast.comprehension)) and par.iter is x and entry['elements']:
            read()
            return
        if isinstance(par, ast.Call) and x in par.args and isinstance(par.func, ast.Name) and par.func.id in READ_ONLY_BUILTINS \
                and entry['elements']:
            read()
            return
        if isinstance(par, ast.Starred) or isinstance(par, ast.keyword) and par.arg is None:
            read()
            return
        if isinstance(par, ast.Call) and x in par.args and isinstance(par.func, ast.Attribute) and par.func.attr in ARG_READ_METHODS \
                and entry['elements']:
            read()            # ', '.join(TABLE), other.isdisjoint(TABLE): a method of ANOTHER object that only reads its argument
            return
        read()
        write('escapes (argument, return value, alias, comparison ...)')

    def check_defaults(self, qual: str, fn: Any) -> None:
        a = fn.args
        for d in list(a.defaults) + [k for k in a.kw_defaults if k is not None]:
            if not _immutable(d, set(self.long)):
                self.defaults.append(f'{qual}: line {d.lineno}: default {_unparse(d, 50)}')

    # ------------------------------------------------------------------ decorators, imports
    def check_decorators(self, funcs: list[tuple[str, Any]]) -> None:
        shadowed = (STATELESS_DECORATORS | STATELESS_DECORATOR_CALLS) & self.defs
        seen: set[int] = set()

        def one(qual: str, n: Any) -> None:
            for d in n.decorator_list:
                if id(d) in seen:
                    continue
                seen.add(id(d))
                head = ast.unparse(d.func) if isinstance(d, ast.Call) else ast.unparse(d)
                ok = (head in STATELESS_DECORATOR_CALLS) if isinstance(d, ast.Call) else (
                    head in STATELESS_DECORATORS or head.split('.')[-1] in ('setter', 'getter', 'deleter') and '.' in head)
                if not ok or head in shadowed:
                    self.decorators.append(f'{qual}: line {d.lineno}: @{_unparse(d, 60)}')
        for n in ast.walk(self.tree):
            if isinstance(n, (ast.FunctionDef, ast.AsyncFunctionDef, ast.ClassDef)):
                one(n.name, n)
        for qual, fn in funcs:
            for n in ast.walk(fn):
                if isinstance(n, (ast.FunctionDef, ast.AsyncFunctionDef, ast.ClassDef)):
                    one(qual, n)

    def check_imports(self, funcs: list[tuple[str, Any]]) -> None:
        std = set(getattr(sys, 'stdlib_module_names', ())) | {'typing_extensions', '__future__'}
        if len(std) < 50:
            raise TranslateError('sys.stdlib_module_names is not available')
        roots = [self.tree] + [fn for _q, fn in funcs if '(exec template' in _q]
        for r in roots:
            for n in ast.walk(r):
                if isinstance(n, ast.Import):
                    for al in n.names:
                        if al.name.split('.')[0] not in std:
                            self.imports.append(f'line {n.lineno}: import {al.name}')
                elif isinstance(n, ast.ImportFrom):
                    if n.level:
                        if not (n.level == 1 and n.module is None and [al.name for al in n.names] == ['_math']):
                            self.imports.append(f'line {n.lineno}: {_unparse(n)}')
                    elif (n.module or '').split('.')[0] not in std:
                        self.imports.append(f'line {n.lineno}: {_unparse(n)}')


def _walk_with_parents(root: ast.AST) -> Iterator[tuple[ast.AST, list[ast.AST]]]:
    """Every node below (and including) root with the chain of its ancestors; does not descend into nested functions / lambdas
    (they are yielded, and scanned on their own with the enclosing locals visible) - except into their defaults and decorators,
    which are evaluated in the enclosing scope."""
    stack: list[tuple[ast.AST, list[ast.AST]]] = [(root, [])]
    while stack:
        n, chain = stack.pop()
        yield n, chain
        if isinstance(n, FUNC_NODES) and n is not root:
            kids: list[ast.AST] = list(n.args.defaults) + [k for k in n.args.kw_defaults if k is not None] + \
                list(getattr(n, 'decorator_list', []))
        else:
            kids = list(ast.iter_child_nodes(n))
        for k in reversed(kids):
            stack.append((k, chain + [n]))


def _walk_no_funcs(root: ast.AST, into_stmts: bool = True) -> Iterator[ast.AST]:
    stack = [root]
    while stack:
        n = stack.pop()
        if n is not root and isinstance(n, ast.Lambda):
            yield n
            continue
        if n is not root and isinstance(n, (ast.FunctionDef, ast.AsyncFunctionDef, ast.ClassDef)):
            continue
        if n is not root and isinstance(n, ast.stmt) and not into_stmts:
            continue
        yield n
        stack.extend(ast.iter_child_nodes(n))


def analyse() -> dict[str, Any]:
    tree = ast.parse(src_text('math.py'))
    c = Census(tree)
    c.collect_long_lived()
    funcs = c.all_functions()
    for qual, fn in funcs:
        c.scan_function(qual, fn, frozenset())
    c.check_decorators(funcs)
    c.check_imports(funcs)
    if c.n_functions < 50:
        raise TranslateError(f'only {c.n_functions} functions found in math.py')
    reads = sorted(c.reads)
    writes = sorted(c.write_sites)
    return {
        'reads': reads, 'writes': writes, 'write_sites': [f'{k}: {s}' for k in writes for s in c.write_sites[k]],
        'class_writes': c.class_writes, 'decorators': c.decorators, 'defaults': c.defaults, 'globals': c.globals,
        'reflective': c.reflective, 'imports': c.imports,
        'long_lived_module': {k: ('opaque' if v['opaque'] else 'table of constants' if v['elements'] else 'table') for k, v in c.long.items()},
        'long_lived_class': {f'{v["cls"]}.{k}': ('opaque' if v['opaque'] else 'table of constants' if v['elements'] else 'table')
                             for k, v in c.class_long.items()},
        'read_sites': {k: len(v) for k, v in c.reads.items()},
        'functions': c.n_functions, 'template_functions': c.n_template_functions, 'references': c.n_refs,
    }


def coq_string(s: str) -> str:
    s = ''.join(ch if 32 <= ord(ch) < 127 else '?' for ch in ' '.join(s.split()))
    return '"' + s.replace('"', '""') + '"'


def coq_list(xs: list[str]) -> str:
    return '[' + '; '.join(coq_string(x) for x in xs) + ']'


def translate_state() -> tuple[str, dict]:
    A = analyse()
    out = ['(* GENERATED by translate/c04_state.py from src/srctools/math.py (census of process state). Do not edit. *)',
           'From Coq Require Import List String.', 'From SV Require Import Rot.RotState.', 'Import ListNotations.',
           'Open Scope string_scope.', '',
           f'(* long-lived objects: module level {sorted(A["long_lived_module"])}, class level {sorted(A["long_lived_class"])};',
           f'   {A["functions"]} functions scanned ({A["template_functions"]} from exec templates), {A["references"]} references *)',
           'Definition state_census_today : state_census := StateCensus',
           '  ' + coq_list(A['reads']), '  ' + coq_list(A['writes']), '  ' + coq_list(A['write_sites']),
           '  ' + coq_list(A['class_writes']), '  ' + coq_list(A['decorators']), '  ' + coq_list(A['defaults']),
           '  ' + coq_list(A['globals']), '  ' + coq_list(A['reflective']), '  ' + coq_list(A['imports']) + '.', '']
    return '\n'.join(out), A


GEN = {'RotState_gen': translate_state}
