"""C08 translator helpers, round 3: semantic normalisation used by the site recognisers of translate/c08_sites.py.

The recognisers must not depend on the spelling of local names, on the order of commutative tests, on `a > 0` versus
`0 < a` versus `a >= 1`, on `if c: A else: B` versus `if not c: B else: A` versus `if not c: B; continue` + A, or on a
one-line test versus nested `if`s.  Everything here is fail-closed: a shape that cannot be normalised raises
TranslateError.
"""
from __future__ import annotations

import ast
import copy

from harness.common import TranslateError


class _Rename(ast.NodeTransformer):
    def __init__(self, env: dict[str, str]):
        self.env = env

    def visit_Name(self, node: ast.Name):
        if node.id in self.env:
            return ast.copy_location(ast.Name(id=self.env[node.id], ctx=node.ctx), node)
        return node


def canon(expr: ast.AST, env: dict[str, str]) -> str:
    """Source text of an expression with local names replaced by role names."""
    return ast.unparse(_Rename(env).visit(copy.deepcopy(expr)))


def _is_int(e: ast.AST, v: int) -> bool:
    return isinstance(e, ast.Constant) and type(e.value) is int and e.value == v


def _atom(left: ast.AST, op: ast.cmpop, right: ast.AST, env, neg: bool) -> tuple:
    """One comparison as a canonical atom; `neg` asks for the atom of its negation."""
    if neg:
        flip = {ast.Lt: ast.GtE, ast.LtE: ast.Gt, ast.Gt: ast.LtE, ast.GtE: ast.Lt, ast.In: ast.NotIn, ast.NotIn: ast.In,
                ast.Eq: ast.NotEq, ast.NotEq: ast.Eq, ast.Is: ast.IsNot, ast.IsNot: ast.Is}
        if type(op) not in flip:
            raise TranslateError(f'cannot negate comparison operator {type(op).__name__}')
        op = flip[type(op)]()
    if isinstance(op, (ast.Gt, ast.GtE)):      # a > b  ==  b < a
        left, right = right, left
        op = ast.Lt() if isinstance(op, ast.Gt) else ast.LtE()
    if isinstance(op, ast.Lt):
        if _is_int(left, 0):
            return ('pos', canon(right, env))
        return ('lt', canon(left, env), canon(right, env))
    if isinstance(op, ast.LtE):
        if _is_int(left, 1):
            return ('pos', canon(right, env))
        return ('le', canon(left, env), canon(right, env))
    names = {ast.In: 'in', ast.NotIn: 'notin', ast.Eq: 'eq', ast.NotEq: 'ne', ast.Is: 'is', ast.IsNot: 'isnot'}
    if type(op) in names:
        return (names[type(op)], canon(left, env), canon(right, env))
    raise TranslateError(f'unsupported comparison operator {type(op).__name__}')


def conj_atoms(test: ast.AST, env: dict[str, str], neg: bool = False) -> frozenset:
    """The test (or, with `neg`, its negation) as a set of atoms that must all hold.  Raises if it is not a
    conjunction of comparisons (after De Morgan)."""
    if isinstance(test, ast.UnaryOp) and isinstance(test.op, ast.Not):
        return conj_atoms(test.operand, env, not neg)
    if isinstance(test, ast.BoolOp):
        is_and = isinstance(test.op, ast.And)
        if is_and == (not neg):        # And (positive) or Or (negated): a conjunction
            out: frozenset = frozenset()
            for v in test.values:
                out |= conj_atoms(v, env, neg)
            return out
        raise TranslateError(f'line {test.lineno}: test is a disjunction, not a conjunction of comparisons')
    if isinstance(test, ast.Compare):
        if neg and len(test.ops) > 1:
            raise TranslateError(f'line {test.lineno}: negated comparison chain is a disjunction')
        out = set()
        left = test.left
        for op, right in zip(test.ops, test.comparators):
            out.add(_atom(left, op, right, env, neg))
            left = right
        return frozenset(out)
    raise TranslateError(f'line {getattr(test, "lineno", "?")}: unsupported test `{ast.unparse(test)}`')


def conj_or_negated(test: ast.AST, env: dict[str, str]) -> tuple[frozenset, bool]:
    """(atoms, swapped): atoms of the test if it is a conjunction, else atoms of its negation with swapped=True
    (the caller then exchanges the two branches)."""
    try:
        return conj_atoms(test, env), False
    except TranslateError:
        return conj_atoms(test, env, neg=True), True


def split_branches(body: list[ast.stmt], where: str) -> tuple[ast.AST, list[ast.stmt], list[ast.stmt]]:
    """A loop body consisting of one decision, as (test, statements when true, statements when false).

    Accepts `if t: A else: B`, and `if t: A; continue` followed by B (guard clause)."""
    stmts = [s for s in body if not (isinstance(s, ast.Expr) and isinstance(s.value, ast.Constant))]   # drop docstrings
    if not stmts or not isinstance(stmts[0], ast.If):
        raise TranslateError(f'{where}: loop body does not start with a decision')
    first = stmts[0]
    rest = stmts[1:]
    if first.orelse and not rest:
        return first.test, first.body, first.orelse
    if not first.orelse and rest and isinstance(first.body[-1], ast.Continue):
        return first.test, first.body[:-1], rest
    raise TranslateError(f'{where}: unrecognised decision structure in loop body (line {first.lineno})')


def path_condition(target: ast.AST, fn: ast.FunctionDef, parents: dict[int, ast.AST], env) -> frozenset:
    """Atoms of all `if` tests on the way from the function body to `target` (taken in their true branch)."""
    atoms: frozenset = frozenset()
    node = target
    while node is not fn:
        p = parents[id(node)]
        if isinstance(p, ast.If):
            if any(node is s for s in p.body):
                atoms |= conj_atoms(p.test, env)
            elif any(node is s for s in p.orelse):
                atoms |= conj_atoms(p.test, env, neg=True)
        elif isinstance(p, (ast.For, ast.While, ast.Try, ast.With)) or p is fn:
            pass
        elif isinstance(p, ast.stmt) and not isinstance(p, (ast.FunctionDef,)):
            raise TranslateError(f'line {p.lineno}: unexpected enclosing statement {type(p).__name__}')
        node = p
    return atoms


def search_loop(fn: ast.FunctionDef, where: str) -> tuple[str, int, ast.AST, ast.AST]:
    """The 'lowest unused index' search of a function: (counter name, start value, container expression, loop node).

    Recognised forms:  `i = K` ... `while i in C: i += 1`;  `while True: if i not in C: break; i += 1`;
    `for i in count(K): if i not in C: break`."""
    found = []
    for node in ast.walk(fn):
        if isinstance(node, ast.While):
            if isinstance(node.test, ast.Constant) and node.test.value is True:
                # while True: if i not in C: break \n i += 1
                body = [s for s in node.body]
                if len(body) == 2 and isinstance(body[0], ast.If) and len(body[0].body) == 1 and isinstance(body[0].body[0], ast.Break) \
                        and not body[0].orelse:
                    at = conj_atoms(body[0].test, {})
                    inc = body[1]
                else:
                    raise TranslateError(f'{where}: unrecognised search loop (line {node.lineno})')
                if len(at) != 1 or next(iter(at))[0] != 'notin':
                    raise TranslateError(f'{where}: unrecognised search loop exit test (line {node.lineno})')
                cmp_ = body[0].test
            else:
                at = conj_atoms(node.test, {})
                if len(at) != 1 or next(iter(at))[0] != 'in' or len(node.body) != 1:
                    raise TranslateError(f'{where}: unrecognised search loop (line {node.lineno})')
                inc = node.body[0]
                cmp_ = node.test
            while isinstance(cmp_, ast.UnaryOp):
                cmp_ = cmp_.operand
            if not (isinstance(cmp_, ast.Compare) and isinstance(cmp_.left, ast.Name) and len(cmp_.comparators) == 1):
                raise TranslateError(f'{where}: unrecognised search loop test (line {node.lineno})')
            var = cmp_.left.id
            ok_inc = (isinstance(inc, ast.AugAssign) and isinstance(inc.op, ast.Add) and isinstance(inc.target, ast.Name)
                      and inc.target.id == var and _is_int(inc.value, 1)) or \
                     (isinstance(inc, ast.Assign) and len(inc.targets) == 1 and isinstance(inc.targets[0], ast.Name)
                      and inc.targets[0].id == var and ast.unparse(inc.value) in (f'{var} + 1', f'1 + {var}'))
            if not ok_inc:
                raise TranslateError(f'{where}: the search loop does not step by one (line {node.lineno})')
            starts = [n.value for n in ast.walk(fn) if isinstance(n, ast.Assign) and len(n.targets) == 1
                      and isinstance(n.targets[0], ast.Name) and n.targets[0].id == var and n.lineno < node.lineno]
            starts += [n.value for n in ast.walk(fn) if isinstance(n, ast.AnnAssign) and isinstance(n.target, ast.Name)
                       and n.target.id == var and n.value is not None and n.lineno < node.lineno]
            if len(starts) != 1 or not (isinstance(starts[0], ast.Constant) and type(starts[0].value) is int):
                raise TranslateError(f'{where}: start value of the search counter `{var}` not recognised')
            found.append((var, starts[0].value, cmp_.comparators[0], node))
        elif isinstance(node, ast.For) and isinstance(node.iter, ast.Call) and \
                ast.unparse(node.iter.func) in ('count', 'itertools.count') and isinstance(node.target, ast.Name):
            c = node.iter
            start = c.args[0] if c.args else next((k.value for k in c.keywords if k.arg == 'start'), ast.Constant(0))
            if len(c.args) > 1 or any(k.arg == 'step' for k in c.keywords) or not (isinstance(start, ast.Constant) and type(start.value) is int):
                raise TranslateError(f'{where}: unrecognised count() search (line {node.lineno})')
            body = node.body
            if not (len(body) == 1 and isinstance(body[0], ast.If) and len(body[0].body) == 1 and isinstance(body[0].body[0], ast.Break)
                    and not body[0].orelse and not node.orelse):
                raise TranslateError(f'{where}: unrecognised count() search body (line {node.lineno})')
            at = conj_atoms(body[0].test, {})
            cmp_ = body[0].test
            while isinstance(cmp_, ast.UnaryOp):
                cmp_ = cmp_.operand
            if len(at) != 1 or next(iter(at))[0] != 'notin' or not (isinstance(cmp_, ast.Compare) and isinstance(cmp_.left, ast.Name)
                                                                   and cmp_.left.id == node.target.id):
                raise TranslateError(f'{where}: unrecognised count() search test (line {node.lineno})')
            found.append((node.target.id, start.value, cmp_.comparators[0], node))
    if len(found) != 1:
        raise TranslateError(f'{where}: expected exactly one index search loop, found {len(found)}')
    return found[0]


def single_assignment(fn: ast.FunctionDef, name: str) -> ast.AST | None:
    """The expression bound to a local that is assigned exactly once (plain or annotated assignment), else None."""
    vals = [n.value for n in ast.walk(fn) if isinstance(n, ast.Assign) and len(n.targets) == 1
            and isinstance(n.targets[0], ast.Name) and n.targets[0].id == name]
    vals += [n.value for n in ast.walk(fn) if isinstance(n, ast.AnnAssign) and isinstance(n.target, ast.Name)
             and n.target.id == name and n.value is not None]
    stores = sum(isinstance(n, ast.Name) and n.id == name and isinstance(n.ctx, ast.Store) for n in ast.walk(fn))
    return vals[0] if len(vals) == 1 and stores == 1 else None
