"""C19 translator, round 5: census of the state that walks and lookups leave behind -> Gen/FsState_gen.v.

For every function of src/srctools/filesys.py, and for the reading side of vpk.py that the VPK backend calls, the list of
*stores into something that outlives the call*:

* an assignment / augmented assignment / `del` / loop or `with` target that is an attribute or item of a shared object;
* a call of a mutating method (`append`, `add`, `update`, `setdefault`, `pop`, `clear`, ...) on a shared object, and
  `setattr` / `delattr` on one;
* assignment to a name declared `global` / `nonlocal`;
* a memoising decorator (`lru_cache`, `cache`, `cached_property`, anything with "cache" or "memo" in its name).

Shared objects are: `self` / `cls`, the classes and module-level names of the module, parameters with a mutable default,
and every local name bound to (a part of) one of them: `x = self.a[k]`, the chained `x = self.a[k] = []`,
`for a, b in self.systems`, `with self.lock as l`, `x = self.a.setdefault(k, [])`, `x = self.a.get(k)`.  Local
containers (`done = set()`) are not shared.

Each store is classified by where it stands: in a plain function (`StorePlain`); in a generator with a `yield` still to
come - later in the text, or in a loop that also contains the store - (`StoreBeforeYield`: the consumer may never resume
the generator, what was stored so far stays); or after the last `yield` (`StoreAfterLastYield`).

Allowed and not counted: in `__init__`, stores into the object under construction (`self.<attr> = ...`,
`self.<attr>[k] = ...`, `self.<attr>.append(...)`: the constructor-built tables); in `FileSystemChain.add_sys`,
mutating calls on `self.systems` (the one declared mutator of the chain).  Everything else ends up in the census, grouped
per class into walk methods and lookup methods (rocq/SM/FsState.v: `fs_census`); the check asks for every group to be
empty.  The census never fails on an unknown statement shape (it does not need to understand the control flow), so it is
still produced when translate/c19_walk.py fails closed on a function it cannot classify; it fails closed itself only on
`exec` / `eval` / `globals()` / `locals()` / `object.__setattr__`, which could hide a store (`self.__dict__` and
`vars(self)` are parts of `self`).
"""
from __future__ import annotations

import ast

from harness.common import TranslateError, src_text

MUTATORS = {'append', 'extend', 'insert', 'pop', 'remove', 'clear', 'add', 'discard', 'update', 'setdefault', 'popitem',
            'sort', 'reverse', 'appendleft', 'popleft', 'extendleft', 'rotate', 'move_to_end', '__setitem__', '__delitem__',
            '__setattr__', '__delattr__', 'intersection_update', 'difference_update', 'symmetric_difference_update',
            'cache_clear'}
# calls on a shared object whose result is (part of) that object
PART_OF = {'get', 'setdefault', 'pop', 'popitem', 'values', 'items', 'keys', '__getitem__'}
HIDING = {'exec', 'eval', 'globals', 'locals'}
WALK_METHODS = ('walk_folder', 'walk_folder_repeat', '__iter__')
CLASSES = {'FileSystemChain': 'chain', 'VirtualFileSystem': 'virtual', 'RawFileSystem': 'raw', 'ZipFileSystem': 'zip',
           'VPKFileSystem': 'vpk'}
BASE = 'FileSystem'
# vpk.py: what VPKFileSystem calls when it builds its table, lists and reads (the writing side is property C13's)
VPK_READ = {'FileInfo': ('filename', 'size', 'read', '__repr__'),
            'VPK': ('__iter__', '__getitem__', '__contains__', '__len__', 'fileinfos', 'filenames', 'folders', '_iter_folders')}
VPK_READ_FUNCS = ('_join_file_parts', '_get_file_parts', 'get_arch_filename')


def _own_nodes(fn):
    """All nodes of the function body, nested functions / lambdas / comprehensions included (their stores happen when the
    enclosing function runs them; counting them is the conservative choice)."""
    for st in fn.body:
        yield from ast.walk(st)


def _is_generator(fn) -> bool:
    todo = list(fn.body)
    while todo:
        n = todo.pop()
        if isinstance(n, (ast.Yield, ast.YieldFrom)):
            return True
        if isinstance(n, (ast.FunctionDef, ast.AsyncFunctionDef, ast.Lambda, ast.ClassDef)):
            continue
        todo.extend(ast.iter_child_nodes(n))
    return False


def _target_names(t):
    if isinstance(t, ast.Name):
        yield t.id
    elif isinstance(t, (ast.Tuple, ast.List)):
        for e in t.elts:
            yield from _target_names(e)
    elif isinstance(t, ast.Starred):
        yield from _target_names(t.value)


class _Fn:
    def __init__(self, fn, where: str, module_names: set, class_names: set, module_data: set = frozenset()) -> None:
        self.fn, self.where = fn, where
        self.module_data = set(module_data) | set(class_names)
        args = fn.args
        allargs = args.posonlyargs + args.args + args.kwonlyargs
        self.shared: set = set(module_names) | set(class_names)
        is_static = any(ast.unparse(d).endswith('staticmethod') for d in fn.decorator_list)
        self.selfname = allargs[0].arg if (allargs and not is_static and where.count('.') >= 1) else None
        if self.selfname:
            self.shared.add(self.selfname)
        # parameters with a mutable default are shared between the calls
        defaults = list(zip(reversed(args.posonlyargs + args.args), reversed(args.defaults))) + \
            [(a, d) for a, d in zip(args.kwonlyargs, args.kw_defaults) if d is not None]
        for a, d in defaults:
            if isinstance(d, (ast.Dict, ast.List, ast.Set, ast.ListComp, ast.DictComp, ast.SetComp, ast.Call)):
                self.shared.add(a.arg)
        # local names shadow module names unless declared global
        self.declared: set = set()
        for n in _own_nodes(fn):
            if isinstance(n, (ast.Global, ast.Nonlocal)):
                self.declared |= set(n.names)
        local_bound = set()
        for n in _own_nodes(fn):
            if isinstance(n, ast.Name) and isinstance(n.ctx, ast.Store):
                local_bound.add(n.id)
        for a in allargs + ([args.vararg] if args.vararg else []) + ([args.kwarg] if args.kwarg else []):
            local_bound.add(a.arg)
        mutable_defaults = {a.arg for a, _ in defaults if a.arg in self.shared}
        self.shared -= local_bound - self.declared - {self.selfname} - mutable_defaults
        self.aliases: set = set()
        self._find_aliases()

    def rooted(self, e) -> bool:
        """The value of `e` is a shared object or a part of one."""
        if isinstance(e, ast.Name):
            return e.id in self.shared or e.id in self.aliases
        if isinstance(e, (ast.Attribute, ast.Subscript, ast.Starred)):
            return self.rooted(e.value)
        if isinstance(e, ast.Call):
            f = e.func
            if isinstance(f, ast.Attribute) and f.attr in PART_OF and self.rooted(f.value):
                return True
            if isinstance(f, ast.Name) and f.id in ('iter', 'reversed', 'enumerate', 'zip', 'list', 'tuple', 'sorted', 'cast', 'next', 'getattr', 'vars'):
                # the elements are still the shared objects' parts
                return any(self.rooted(a) for a in e.args)
            return False
        if isinstance(e, ast.IfExp):
            return self.rooted(e.body) or self.rooted(e.orelse)
        if isinstance(e, ast.BoolOp):
            return any(self.rooted(v) for v in e.values)
        if isinstance(e, ast.NamedExpr):
            return self.rooted(e.value)
        if isinstance(e, (ast.Tuple, ast.List)):
            return any(self.rooted(x) for x in e.elts)
        return False

    def _find_aliases(self) -> None:
        changed = True
        while changed:
            changed = False
            before = len(self.aliases)
            for n in _own_nodes(self.fn):
                if isinstance(n, ast.Assign):
                    src = self.rooted(n.value) or any(isinstance(t, (ast.Attribute, ast.Subscript)) and self.rooted(t) for t in n.targets)
                    if src:
                        for t in n.targets:
                            self.aliases |= set(_target_names(t))
                elif isinstance(n, ast.AnnAssign) and n.value is not None and self.rooted(n.value):
                    self.aliases |= set(_target_names(n.target))
                elif isinstance(n, ast.NamedExpr) and self.rooted(n.value):
                    self.aliases |= set(_target_names(n.target))
                elif isinstance(n, (ast.For, ast.AsyncFor)) and self.rooted(n.iter):
                    self.aliases |= set(_target_names(n.target))
                elif isinstance(n, ast.comprehension) and self.rooted(n.iter):
                    self.aliases |= set(_target_names(n.target))
                elif isinstance(n, (ast.With, ast.AsyncWith)):
                    for it in n.items:
                        if it.optional_vars is not None and self.rooted(it.context_expr):
                            self.aliases |= set(_target_names(it.optional_vars))
            self.aliases -= {self.selfname}
            changed = len(self.aliases) != before

    def stores(self) -> list[tuple[ast.AST, str]]:
        """(node, description) of every store into a shared object."""
        out = []
        for d in self.fn.decorator_list:
            txt = ast.unparse(d.func if isinstance(d, ast.Call) else d)
            if ('cache' in txt.lower() or 'memo' in txt.lower()) and not self._pure_function():
                out.append((d, f'memoising decorator @{txt}'))
        for n in _own_nodes(self.fn):
            if isinstance(n, ast.Call):
                f = n.func
                fname = f.id if isinstance(f, ast.Name) else None
                if fname in HIDING or (isinstance(f, ast.Attribute) and f.attr == '__setattr__' and isinstance(f.value, ast.Name) and f.value.id == 'object'):
                    raise TranslateError(f'{self.where}: line {n.lineno}: {ast.unparse(n)[:60]} could hide a store')
                if isinstance(f, ast.Attribute) and f.attr in MUTATORS and self.rooted(f.value):
                    out.append((n, ast.unparse(n)[:70]))
                elif fname in ('setattr', 'delattr') and n.args and self.rooted(n.args[0]):
                    out.append((n, ast.unparse(n)[:70]))
            targets = []
            if isinstance(n, ast.Assign):
                targets = n.targets
            elif isinstance(n, (ast.AugAssign, ast.AnnAssign)):
                targets = [n.target] if (isinstance(n, ast.AugAssign) or n.value is not None) else []
            elif isinstance(n, ast.Delete):
                targets = n.targets
            elif isinstance(n, (ast.For, ast.AsyncFor, ast.comprehension)):
                targets = [n.target]
            elif isinstance(n, (ast.With, ast.AsyncWith)):
                targets = [it.optional_vars for it in n.items if it.optional_vars is not None]
            elif isinstance(n, ast.NamedExpr):
                targets = [n.target]
            for t in targets:
                for leaf in self._leaves(t):
                    if isinstance(leaf, (ast.Attribute, ast.Subscript)) and self.rooted(leaf.value):
                        out.append((leaf, f'{ast.unparse(leaf)[:60]} = ...' if not isinstance(n, ast.Delete) else f'del {ast.unparse(leaf)[:60]}'))
                    elif isinstance(leaf, ast.Name) and leaf.id in self.declared:
                        out.append((leaf, f'{leaf.id} = ... (declared global/nonlocal)'))
        return out

    def _pure_function(self) -> bool:
        """A module-level function that reads nothing but its parameters, its own locals and imported modules / other
        functions: memoising it cannot be observed (the arguments of the functions here are strings)."""
        if self.selfname is not None or self.declared:
            return False
        for n in _own_nodes(self.fn):
            if isinstance(n, ast.Name) and isinstance(n.ctx, ast.Load) and n.id in self.module_data and n.id in self.shared:
                return False
        return True

    @staticmethod
    def _leaves(t):
        if isinstance(t, (ast.Tuple, ast.List)):
            for e in t.elts:
                yield from _Fn._leaves(e)
        elif isinstance(t, ast.Starred):
            yield from _Fn._leaves(t.value)
        else:
            yield t

    def positions(self, allowed) -> list[tuple[str, int, str]]:
        """(store_pos constructor, line, description) of the stores that are not allowed here."""
        fn = self.fn
        gen = _is_generator(fn)
        yields = [n for n in _own_nodes(fn) if isinstance(n, (ast.Yield, ast.YieldFrom))]
        loops = [n for n in _own_nodes(fn) if isinstance(n, (ast.For, ast.AsyncFor, ast.While))]

        def inside(loop, node) -> bool:
            return any(x is node for st in loop.body + loop.orelse for x in ast.walk(st))
        res = []
        for node, what in self.stores():
            if allowed(node, what, self):
                continue
            line = getattr(node, 'lineno', fn.lineno)
            if not gen:
                pos = 'StorePlain'
            else:
                key = (line, getattr(node, 'col_offset', 0))
                later = any((y.lineno, y.col_offset) > key for y in yields)
                same_loop = any(inside(lp, node) and any(inside(lp, y) for y in yields) for lp in loops)
                pos = 'StoreBeforeYield' if (later or same_loop) else 'StoreAfterLastYield'
            res.append((pos, line, what))
        return sorted(set(res), key=lambda r: (r[1], r[2]))


def _module_data(tree: ast.Module) -> set:
    """Names bound by assignments at module level (constants, tables, instances) - not imports, functions, classes."""
    out = set()
    for st in tree.body:
        for sub in ([st] if not isinstance(st, (ast.If, ast.Try)) else list(ast.walk(st))):
            if isinstance(sub, ast.Assign):
                for t in sub.targets:
                    out |= set(_target_names(t))
            elif isinstance(sub, (ast.AnnAssign, ast.AugAssign)):
                out |= set(_target_names(sub.target))
    return out


def _module_level(tree: ast.Module):
    names, classes = set(), set()
    for st in tree.body:
        if isinstance(st, ast.ClassDef):
            classes.add(st.name)
        elif isinstance(st, (ast.Assign, ast.AnnAssign, ast.AugAssign)):
            for t in (st.targets if isinstance(st, ast.Assign) else [st.target]):
                names |= set(_target_names(t))
        elif isinstance(st, (ast.Import, ast.ImportFrom)):
            names |= {(a.asname or a.name).split('.')[0] for a in st.names}
        elif isinstance(st, (ast.If, ast.Try)):
            for sub in ast.walk(st):
                if isinstance(sub, ast.Assign):
                    for t in sub.targets:
                        names |= set(_target_names(t))
                elif isinstance(sub, (ast.Import, ast.ImportFrom)):
                    names |= {(a.asname or a.name).split('.')[0] for a in sub.names}
    return names, classes


def _no_allow(node, what, f) -> bool:
    return False


def _root_name(node):
    if isinstance(node, ast.Call):
        node = node.func.value if isinstance(node.func, ast.Attribute) else (node.args[0] if node.args else node)
    while isinstance(node, (ast.Attribute, ast.Subscript, ast.Starred)):
        node = node.value
    return node.id if isinstance(node, ast.Name) else None


def _allow_init(node, what, f) -> bool:
    # the constructor fills the object under construction: self.<attr> = ..., self.<attr>[k] = ..., self.<attr>.append(...),
    # also through a local name for one of its new attributes; stores into classes, module-level objects, globals and
    # mutable defaults are not the constructor's business
    root = _root_name(node)
    return root is not None and (root == f.selfname or (root in f.aliases and root not in f.shared))


def _allow_add_sys(node, what, f) -> bool:
    return (isinstance(node, ast.Call) and isinstance(node.func, ast.Attribute) and isinstance(node.func.value, ast.Attribute)
            and node.func.value.attr == 'systems' and isinstance(node.func.value.value, ast.Name) and node.func.value.value.id == f.selfname)


def _coq_list(items) -> str:
    return '[' + '; '.join(items) + ']'


def _translate() -> tuple[str, dict]:
    tree = ast.parse(src_text('filesys.py'))
    mnames, cnames = _module_level(tree)
    side: dict = {'stores': {}}
    groups: dict[str, dict[str, list]] = {short: {'walk': [], 'lookup': []} for short in CLASSES.values()}
    helpers: list = []
    classes = {st.name: st for st in tree.body if isinstance(st, ast.ClassDef)}
    for need in list(CLASSES) + [BASE, 'File']:
        if need not in classes:
            raise TranslateError(f'filesys.py: class {need} not found')

    def census_method(cname: str, m) -> list:
        if m.name == '__init__':
            allowed = _allow_init
        elif cname == 'FileSystemChain' and m.name == 'add_sys':
            allowed = _allow_add_sys
        else:
            allowed = _no_allow
        return _Fn(m, f'{cname}.{m.name}', mnames, cnames).positions(allowed)

    def record(where: str, found: list) -> None:
        if found:
            side['stores'][where] = [f'line {ln}: {what} [{pos}]' for pos, ln, what in found]

    n_functions = 0
    for cname, cls in classes.items():
        # class attributes that are mutable containers are shared by all objects: they are roots already (cls / the
        # class name / self), nothing to do here.  Nested classes are not expected.
        for m in cls.body:
            if isinstance(m, ast.ClassDef):
                raise TranslateError(f'filesys.py: class {m.name} nested in {cname}')
            if not isinstance(m, (ast.FunctionDef, ast.AsyncFunctionDef)):
                continue
            n_functions += 1
            found = census_method(cname, m)
            record(f'{cname}.{m.name}', found)
            kind = 'walk' if m.name in WALK_METHODS else 'lookup'
            if cname in CLASSES:
                groups[CLASSES[cname]][kind] += [p for p, _, _ in found]
            elif cname == BASE:
                # inherited by every backend and by the chain
                for short in groups:
                    groups[short][kind] += [p for p, _, _ in found]
            else:
                helpers += [p for p, _, _ in found]       # File, RootEscapeError, ...
    for st in tree.body:
        if isinstance(st, (ast.FunctionDef, ast.AsyncFunctionDef)):
            n_functions += 1
            found = _Fn(st, st.name, mnames, cnames, _module_data(tree)).positions(_no_allow)
            record(st.name, found)
            helpers += [p for p, _, _ in found]
    # every backend class must still be a subclass of FileSystem only (a mixin could bring its own state)
    for cname in CLASSES:
        bases = [ast.unparse(b).split('[')[0] for b in classes[cname].bases]
        if bases != [BASE]:
            raise TranslateError(f'filesys.py: {cname} derives from {bases}, expected [{BASE}]')

    # vpk.py, reading side
    vtree = ast.parse(src_text('vpk.py'))
    vnames, vcnames = _module_level(vtree)
    vclasses = {st.name: st for st in vtree.body if isinstance(st, ast.ClassDef)}
    reader: list = []
    for cname, wanted in VPK_READ.items():
        if cname not in vclasses:
            raise TranslateError(f'vpk.py: class {cname} not found')
        have = {m.name: m for m in vclasses[cname].body if isinstance(m, ast.FunctionDef)
                and not any(ast.unparse(d).endswith('.setter') for d in m.decorator_list)}
        for mname in wanted:
            if mname not in have:
                raise TranslateError(f'vpk.py: {cname}.{mname} not found')
            n_functions += 1
            found = _Fn(have[mname], f'{cname}.{mname}', vnames, vcnames).positions(_no_allow)
            record(f'vpk.py {cname}.{mname}', found)
            reader += [p for p, _, _ in found]
    vfuncs = {st.name: st for st in vtree.body if isinstance(st, ast.FunctionDef)}
    for fname in VPK_READ_FUNCS:
        if fname not in vfuncs:
            raise TranslateError(f'vpk.py: function {fname} not found')
        n_functions += 1
        found = _Fn(vfuncs[fname], fname, vnames, vcnames, _module_data(vtree)).positions(_no_allow)
        record(f'vpk.py {fname}', found)
        reader += [p for p, _, _ in found]

    lines = ['(* generated by translate/c19_state.py from src/srctools/filesys.py and vpk.py - do not edit *)',
             'From Coq Require Import List.', 'From SV Require Import SM.FsChain SM.FsState.', 'Import ListNotations.', '']
    for short, g in groups.items():
        lines.append(f'Definition {short}_census : fs_census := {{| cs_walk := {_coq_list(g["walk"])}; cs_lookup := {_coq_list(g["lookup"])} |}}.')
    lines.append(f'Definition helpers_census : fs_census := {{| cs_walk := []; cs_lookup := {_coq_list(helpers)} |}}.')
    lines.append(f'Definition vpk_reader_census : fs_census := {{| cs_walk := []; cs_lookup := {_coq_list(reader)} |}}.')
    lines.append('')
    side['functions_scanned'] = n_functions
    side['groups'] = {short: {k: list(v) for k, v in g.items()} for short, g in groups.items()}
    return '\n'.join(lines), side


def translate() -> tuple[str, dict]:
    try:
        return _translate()
    except (TranslateError, OSError, SyntaxError):
        raise
    except Exception as e:      # noqa: BLE001 - an AST shape the census does not expect: fail closed, never crash the check
        raise TranslateError(f'census of stores: unexpected {type(e).__name__}: {e}') from None


GEN = {'FsState_gen': translate}
