"""C14 translator: srctools/dmx.py -> Gen/DmxCodes_gen.v.

Extracts (fail-closed, Python ast):
  * VAL_TYPE_TO_IND (resolving ValueType aliases), ARRAY_OFFSET, the shape of IND_TO_VALTYPE,
  * the struct formats behind SIZES (_binconv_basic/_binconv_cls calls and _struct_X = Struct(fmt)),
  * parse_bin: the comparison operator of `if <type byte local> OP ARRAY_OFFSET`, the codec argument of every
    read_nullstr/read_nullstr_array call (classified by site), what is read after the stub index -2,
  * export_binary: the type-code computation, the codec argument of every `.encode(..) + b'\\0'` write (by site),
    what is written after pack('<i', -2),
  * _export_kv2: for every interpolated string field whether it goes through escape_text and which codec encodes it,
  * parse_kv2: how stub elements are created (keeps the UUID read from the file or not),
  * from_kv1 / to_kv1: the element type names, the reserved attribute names and the literal keys used on both sides.
"""
from __future__ import annotations

import ast
import re

from harness.common import TranslateError, ast_digest, src_text

VT = {'element': 'TElement', 'int': 'TInt', 'float': 'TFloat', 'bool': 'TBool', 'string': 'TString',
      'binary': 'TBinary', 'time': 'TTime', 'color': 'TColor', 'vector2': 'TVec2', 'vector3': 'TVec3',
      'vector4': 'TVec4', 'qangle': 'TAngle', 'quaternion': 'TQuat', 'vmatrix': 'TMatrix'}
CMP = {ast.GtE: 'CGe', ast.Gt: 'CGt', ast.LtE: 'CLe', ast.Lt: 'CLt', ast.Eq: 'CEq', ast.NotEq: 'CNe'}
FMT_SIZE = {'i': 4, 'I': 4, 'f': 4, '?': 1, 'B': 1, 'b': 1, 'h': 2, 'H': 2, 'd': 8}
SITES = ['SiteTable', 'SiteElType', 'SiteElName', 'SiteAttrName', 'SiteScalarStr', 'SiteArrayStr']


def _fail(msg: str, node: ast.AST | None = None):
    raise TranslateError(f'dmx.py{":" + str(node.lineno) if node is not None and hasattr(node, "lineno") else ""}: {msg}')


def _calcsize(fmt: str, node) -> int:
    m = re.fullmatch(r'<(\d*)([a-zA-Z?])', fmt)
    if not m or m.group(2) not in FMT_SIZE:
        _fail(f'unsupported struct format {fmt!r}', node)
    return int(m.group(1) or 1) * FMT_SIZE[m.group(2)]


def _value_types(tree: ast.Module) -> dict[str, str]:
    """ValueType member name (incl. aliases) -> Coq constructor."""
    for n in tree.body:
        if isinstance(n, ast.ClassDef) and n.name == 'ValueType':
            out = {}
            for st in n.body:
                if isinstance(st, ast.Assign):
                    if not (isinstance(st.value, ast.Constant) and isinstance(st.value.value, str)):
                        _fail('ValueType member is not a string constant', st)
                    if st.value.value not in VT:
                        _fail(f'unknown ValueType value {st.value.value!r}', st)
                    for t in st.targets:
                        if not isinstance(t, ast.Name):
                            _fail('unrecognised ValueType member', st)
                        out[t.id] = VT[st.value.value]
                elif isinstance(st, ast.Expr) and isinstance(st.value, ast.Constant):
                    continue      # docstrings
                else:
                    _fail('unrecognised statement in ValueType', st)
            if set(out.values()) != set(VT.values()):
                _fail('ValueType does not have exactly the 14 modelled members', n)
            return out
    _fail('class ValueType not found')


def _raw_func(tree: ast.Module, cls: str, name: str) -> ast.FunctionDef:
    for n in tree.body:
        if isinstance(n, ast.ClassDef) and n.name == cls:
            for f in n.body:
                if isinstance(f, ast.FunctionDef) and f.name == name:
                    return f
    _fail(f'{cls}.{name} not found')


def _func(tree: ast.Module, cls: str, name: str) -> ast.FunctionDef:
    """The method, normalised: calls of one-expression helper functions (nested in the method or at module level) are
    replaced by the helper's expression, so that extracting or inlining such a helper does not change what is read;
    locals the readers below refer to are given their canonical names by the role of their binding site."""
    return _canon_locals(_split_packed_writes(_loops_to_updates(_inline_struct_consts(_inline_helpers(_raw_func(tree, cls, name), tree), tree))),
                         _LOCAL_ROLES.get(name, ()))


# ------------------------------------------------------------------------------------------------ locals by role
# (canonical names, kind, pattern): a binding site of kind 'assign' (`X = VALUE`) or 'for' (`for X[, Y] in ITER`) whose
# VALUE / ITER, unparsed with the renamings found so far applied, matches the pattern binds the named locals.
_ENC_PAT = r""".*'(utf8|utf-8|ascii)'.*'(utf8|utf-8|ascii)'.*"""
_LOCAL_ROLES = {
    'export_binary': [
        (('elements',), 'assign', r'\[self\]'),
        (('string_list',), 'assign', r'sorted\(\w+\)'),
        (('encoding',), 'assign', _ENC_PAT),
        (('elem',), 'for', r'elements'),
        (('attr_key', 'attr'), 'for', r'elem\._members\.items\(\)'),
        (('attr',), 'for', r'elem(\._members)?\.values\(\)'),
        (('subelem',), 'for', r'attr\.iter_elem\(\)'),
        (('text',), 'for', r'string_list|attr\.iter_string\(\)'),
    ],
    'export_kv2': [
        (('elements',), 'assign', r'\[self\]'),
        (('use_count',), 'assign', r'\{self\.uuid: \d+\}'),
        (('encoding',), 'assign', _ENC_PAT),
        (('roots',), 'assign', r'set\(use_count(\.keys\(\))?\)'),
        (('elem',), 'for', r'elements'),
        (('attr',), 'for', r'elem(\._members)?\.values\(\)'),
        (('subelem',), 'for', r'attr\.iter_elem\(\)'),
    ],
    '_export_kv2': [
        (('attr',), 'for', r'self(\._members)?\.values\(\)'),
        ((None, 'child'), 'for', r'enumerate\(attr\._value\)'),
        (('child',), 'assign', r'attr\.val_elem'),
        (('str_value',), 'assign', r'.*TYPE_CONVERT\[.*'),
        (('indent_child',), 'assign', r"indent \+ b'\\t'"),
        (('indent_arr',), 'assign', r"indent \+ b'\\t\\t'"),
    ],
    'parse_kv2': [
        (('tok',), 'assign', r'Tokenizer\(.*'),
    ],
    'parse_bin': [
        (('encoding',), 'assign', _ENC_PAT),
        (('elements',), 'stmt', r'(\w+)\.append\(Element\(\w+, \w+, \w+\)\)'),
        (('elem',), 'for', r'elements'),
    ],
    '_parse_kv2_element': [
        (('elem',), 'assign', r'cls\(name, typ_name, _UNSET_UUID\)'),
        (('attr_name',), 'for', r'tok\.block\(name\)'),
    ],
}


def _canon_locals(fn: ast.FunctionDef, rules) -> ast.FunctionDef:
    """Alpha-rename locals to the names the readers use, found by the role of their binding site.  A renaming is applied
    only if it is consistent (every site matched for a canonical name binds the same local) and the canonical name
    is not used for anything else in the function: then it cannot change behaviour.  Otherwise the function is
    left as it is and the readers fail closed."""
    if not rules:
        return fn
    import copy
    fn = copy.deepcopy(fn)
    if any(isinstance(n, (ast.Global, ast.Nonlocal)) for n in ast.walk(fn)):
        return fn

    def used(name):
        return any((isinstance(n, ast.Name) and n.id == name) or (isinstance(n, ast.arg) and n.arg == name) for n in ast.walk(fn))

    def names_of(t):
        if isinstance(t, ast.Name):
            return [t.id]
        if isinstance(t, (ast.Tuple, ast.List)) and all(isinstance(e, ast.Name) for e in t.elts):
            return [e.id for e in t.elts]
        return None
    for _ in range(6):
        found: dict = {}
        stored = {n.id for n in ast.walk(fn) if isinstance(n, ast.Name) and not isinstance(n.ctx, ast.Load)}
        for canon, kind, pat in rules:
            for n in ast.walk(fn):
                if kind == 'assign' and isinstance(n, ast.Assign) and len(n.targets) == 1:
                    tg, src = names_of(n.targets[0]), n.value
                elif kind == 'for' and isinstance(n, (ast.For, ast.comprehension)):
                    tg, src = names_of(n.target), n.iter
                elif kind == 'stmt' and isinstance(n, (ast.Assign, ast.AugAssign, ast.Expr)):
                    # the locals are the identifiers the pattern captures in the statement; they must be locals that are assigned
                    m_ = re.fullmatch(pat, ast.unparse(n), re.S)
                    if m_ is None or len(m_.groups()) != len(canon) or not all(g_ in stored for g_ in m_.groups()):
                        continue
                    for c, a in zip(canon, m_.groups()):
                        found.setdefault(c, set()).add(a)
                    continue
                else:
                    continue
                if tg is None or len(tg) != len(canon) or not re.fullmatch(pat, ast.unparse(src), re.S):
                    continue
                for c, a in zip(canon, tg):
                    if c is not None:
                        found.setdefault(c, set()).add(a)
        ren = {}
        for c, actual in found.items():
            if len(actual) == 1:
                a = next(iter(actual))
                if a != c and not used(c) and a not in ren:
                    ren[a] = c
        if not ren:
            break
        for n in ast.walk(fn):
            if isinstance(n, ast.Name) and n.id in ren:
                n.id = ren[n.id]
    return fn


# ------------------------------------------------------------------------------------------------ normalisation
def _strip_doc(body: list[ast.stmt]) -> list[ast.stmt]:
    b = list(body)
    if b and isinstance(b[0], ast.Expr) and isinstance(b[0].value, ast.Constant) and isinstance(b[0].value.value, str):
        b = b[1:]
    return b


def _simple_helper(f: ast.FunctionDef):
    """(parameter names, expression) of `def f(a, b): [doc] return EXPR` / `def f(a, b): [doc] EXPR`, else None."""
    a = f.args
    if a.vararg or a.kwarg or a.kwonlyargs or a.posonlyargs or a.defaults or f.decorator_list:
        return None
    b = _strip_doc(f.body)
    if len(b) != 1:
        return None
    if isinstance(b[0], ast.Return) and b[0].value is not None:
        expr = b[0].value
    elif isinstance(b[0], ast.Expr):
        expr = b[0].value
    else:
        return None
    params = [x.arg for x in a.args]
    for n in ast.walk(expr):      # no rebinding of a parameter inside the expression (lambda, comprehension, walrus)
        if isinstance(n, ast.Name) and n.id in params and not isinstance(n.ctx, ast.Load):
            return None
        if isinstance(n, ast.arg) and n.arg in params:
            return None
        if isinstance(n, (ast.Yield, ast.YieldFrom, ast.Await)):
            return None
    return params, expr


def _pure_arg(n: ast.AST) -> bool:
    """Expressions that can be duplicated or dropped without changing behaviour: names, attribute / constant-subscript
    chains of them, constants."""
    if isinstance(n, (ast.Name, ast.Constant)):
        return True
    if isinstance(n, ast.Attribute):
        return _pure_arg(n.value)
    if isinstance(n, ast.Subscript):
        return _pure_arg(n.value) and _pure_arg(n.slice)
    return False


def _inline_helpers(fn: ast.FunctionDef, tree: ast.Module) -> ast.FunctionDef:
    import copy
    fn = copy.deepcopy(fn)
    helpers: dict = {}
    local_defs = [st for st in fn.body if isinstance(st, ast.FunctionDef)]
    for st in local_defs:
        h = _simple_helper(st)
        if h is not None:
            helpers[st.name] = h
    rebound = {n.id for n in ast.walk(fn) if isinstance(n, ast.Name) and not isinstance(n.ctx, ast.Load)} | \
              {a.arg for a in ast.walk(fn) if isinstance(a, ast.arg)}
    for n in tree.body:
        if isinstance(n, ast.FunctionDef) and n.name not in helpers and n.name not in rebound \
                and n.name not in {d.name for d in local_defs}:
            h = _simple_helper(n)
            if h is not None:
                helpers[n.name] = h
    helpers = {k: v for k, v in helpers.items() if k not in rebound}
    if not helpers:
        return fn

    class Inline(ast.NodeTransformer):
        def visit_FunctionDef(self, node):
            if node is not fn and node.name in helpers:
                return node                      # do not rewrite inside a helper itself
            self.generic_visit(node)
            return node

        def visit_Call(self, c):
            self.generic_visit(c)
            if not (isinstance(c.func, ast.Name) and c.func.id in helpers):
                return c
            params, expr = helpers[c.func.id]
            if any(isinstance(a, ast.Starred) for a in c.args) or any(k.arg is None for k in c.keywords):
                return c
            bind = dict(zip(params, c.args))
            for k in c.keywords:
                if k.arg in bind or k.arg not in params:
                    return c
                bind[k.arg] = k.value
            if len(c.args) > len(params) or set(bind) != set(params):
                return c
            uses = {p_: sum(1 for n in ast.walk(expr) if isinstance(n, ast.Name) and n.id == p_) for p_ in params}
            if not all(_pure_arg(bind[p_]) or uses[p_] == 1 for p_ in params):
                return c

            class Subst(ast.NodeTransformer):
                def visit_Name(self, n):
                    if n.id in bind and isinstance(n.ctx, ast.Load):
                        return copy.deepcopy(bind[n.id])
                    return n
            new = Subst().visit(copy.deepcopy(expr))
            return ast.copy_location(new, c)
    fn = Inline().visit(fn)
    # a nested helper nobody refers to any more disappears
    still = {n.id for st in fn.body if not (isinstance(st, ast.FunctionDef) and st.name in helpers)
             for n in ast.walk(st) if isinstance(n, ast.Name)}
    fn.body = [st for st in fn.body if not (isinstance(st, ast.FunctionDef) and st.name in helpers and st.name not in still)]
    ast.fix_missing_locations(fn)
    return fn


_FLIP = {ast.Lt: ast.Gt, ast.Gt: ast.Lt, ast.LtE: ast.GtE, ast.GtE: ast.LtE, ast.Eq: ast.Eq, ast.NotEq: ast.NotEq}


def _is_const_operand(n: ast.AST) -> bool:
    """A literal or a module constant by convention (UPPER_CASE name)."""
    return isinstance(n, ast.Constant) or (isinstance(n, ast.Name) and n.id.isupper())


def _normalise_module(tree: ast.Module) -> ast.Module:
    """Spelling differences that do not change behaviour, removed once for everything that is read later:
      * `(x,) = e` / `x, = e`  ->  `[x] = e`  (one-element unpacking target),
      * `x: T = e` inside a function  ->  `x = e`  (annotations of locals are not evaluated),
      * `CONST op x`  ->  `x op' CONST` for a single comparison with a literal / UPPER_CASE constant on the left and
        something else on the right (operands are names, attributes or literals: evaluation order is irrelevant)."""
    class Norm(ast.NodeTransformer):
        depth = 0

        def visit_FunctionDef(self, node):
            self.depth += 1
            self.generic_visit(node)
            self.depth -= 1
            return node

        def visit_AnnAssign(self, node):
            self.generic_visit(node)
            if self.depth and node.value is not None and node.simple and isinstance(node.target, ast.Name):
                return ast.copy_location(ast.Assign(targets=[node.target], value=node.value), node)
            return node

        def visit_Assign(self, node):
            self.generic_visit(node)
            node.targets = [ast.copy_location(ast.List(elts=t.elts, ctx=ast.Store()), t)
                            if isinstance(t, ast.Tuple) and len(t.elts) == 1 and not isinstance(t.elts[0], ast.Starred) else t
                            for t in node.targets]
            return node

        def visit_Compare(self, node):
            self.generic_visit(node)
            if len(node.ops) == 1 and type(node.ops[0]) in _FLIP and _is_const_operand(node.left) \
                    and not _is_const_operand(node.comparators[0]) and _pure_arg(node.comparators[0]):
                node.left, node.comparators = node.comparators[0], [node.left]
                node.ops = [_FLIP[type(node.ops[0])]()]
            return node
    tree = Norm().visit(tree)
    ast.fix_missing_locations(tree)
    return tree


def _module_structs(tree: ast.Module) -> dict:
    """Module-level `NAME = Struct('<fmt>')` / `struct.Struct('<fmt>')` constants assigned exactly once."""
    out: dict = {}
    seen: dict = {}
    for n in tree.body:
        tgt = val = None
        if isinstance(n, ast.Assign) and len(n.targets) == 1 and isinstance(n.targets[0], ast.Name):
            tgt, val = n.targets[0].id, n.value
        elif isinstance(n, ast.AnnAssign) and isinstance(n.target, ast.Name) and n.value is not None:
            tgt, val = n.target.id, n.value
        if tgt is None:
            continue
        seen[tgt] = seen.get(tgt, 0) + 1
        if isinstance(val, ast.Call) and ast.unparse(val.func) in ('Struct', 'struct.Struct') and len(val.args) == 1 and not val.keywords \
                and isinstance(val.args[0], ast.Constant) and isinstance(val.args[0].value, str):
            out[tgt] = val.args[0].value
    return {k: v for k, v in out.items() if seen[k] == 1}


def _inline_struct_consts(fn: ast.FunctionDef, tree: ast.Module) -> ast.FunctionDef:
    """Inside a method: `S.pack(a, ...)` with S a module-level `Struct(fmt)` constant and `struct.pack(fmt, a, ...)`
    are read as `pack(fmt, a, ...)` (precompiled struct constants vs inline format strings)."""
    structs = _module_structs(tree)
    rebound = {n.id for n in ast.walk(fn) if isinstance(n, ast.Name) and not isinstance(n.ctx, ast.Load)} | \
              {a.arg for a in ast.walk(fn) if isinstance(a, ast.arg)}

    class S(ast.NodeTransformer):
        def visit_Call(self, c):
            self.generic_visit(c)
            f = c.func
            if isinstance(f, ast.Attribute) and f.attr == 'pack' and isinstance(f.value, ast.Name):
                if f.value.id in structs and f.value.id not in rebound:
                    return ast.copy_location(ast.Call(func=ast.Name(id='pack', ctx=ast.Load()),
                                                      args=[ast.Constant(value=structs[f.value.id])] + c.args, keywords=c.keywords), c)
                if f.value.id == 'struct' and 'struct' not in rebound:
                    return ast.copy_location(ast.Call(func=ast.Name(id='pack', ctx=ast.Load()), args=c.args, keywords=c.keywords), c)
            return c
    fn = S().visit(fn)
    ast.fix_missing_locations(fn)
    return fn


_STRUCTS: dict = {}        # module-level Struct constants of the tree being translated (set by translate())


def _one_field_unpack(e: ast.AST) -> bool:
    import struct as _st
    if not (isinstance(e, ast.Call) and isinstance(e.func, ast.Attribute) and e.func.attr == 'unpack' and isinstance(e.func.value, ast.Name)
            and e.func.value.id in _STRUCTS and len(e.args) == 1 and not e.keywords):
        return False
    try:
        f = _STRUCTS[e.func.value.id]
        return len(_st.unpack(f, bytes(_st.calcsize(f)))) == 1
    except _st.error:
        return False


def _inline_single_use(stmts: list[ast.stmt], params: set) -> list[ast.stmt]:
    """Straight-line code: `v = E` immediately followed by a simple statement that reads v exactly once (and nothing else
    in the function reads or writes v) is read as that statement with E in place of v."""
    import copy
    stmts = list(stmts)
    changed = True
    while changed:
        changed = False
        for i in range(len(stmts) - 1):
            a, b = stmts[i], stmts[i + 1]
            if isinstance(a, ast.AnnAssign) and isinstance(a.target, ast.Name) and a.value is not None and a.simple:
                v, e = a.target.id, a.value
            elif isinstance(a, ast.Assign) and len(a.targets) == 1 and isinstance(a.targets[0], ast.List) and len(a.targets[0].elts) == 1 \
                    and isinstance(a.targets[0].elts[0], ast.Name) and _one_field_unpack(a.value):
                # `[v] = S.unpack(b)` with S a one-field module Struct: the same as `v = S.unpack(b)[0]`
                v = a.targets[0].elts[0].id
                e = ast.Subscript(value=a.value, slice=ast.Constant(value=0), ctx=ast.Load())
            elif isinstance(a, ast.Assign) and len(a.targets) == 1 and isinstance(a.targets[0], ast.Name):
                v, e = a.targets[0].id, a.value
            else:
                continue
            if v in params or not isinstance(b, (ast.Return, ast.Assign, ast.Expr, ast.AugAssign, ast.AnnAssign)):
                continue
            occ = [n for st in stmts for n in ast.walk(st) if (isinstance(n, ast.Name) and n.id == v) or (isinstance(n, ast.arg) and n.arg == v)]
            loads_b = [n for n in ast.walk(b) if isinstance(n, ast.Name) and n.id == v and isinstance(n.ctx, ast.Load)]
            if len(occ) != 2 or len(loads_b) != 1:                     # the store in a, one load in b
                continue
            if any(isinstance(n, (ast.Lambda, ast.GeneratorExp, ast.ListComp, ast.SetComp, ast.DictComp, ast.FunctionDef)) for n in ast.walk(b)):
                continue
            if any(isinstance(n, (ast.Yield, ast.YieldFrom, ast.Await, ast.NamedExpr)) for n in ast.walk(e)):
                continue

            class Sub(ast.NodeTransformer):
                def visit_Name(self, n):
                    return copy.deepcopy(e) if n.id == v and isinstance(n.ctx, ast.Load) else n
            nb = Sub().visit(copy.deepcopy(b))
            ast.fix_missing_locations(nb)
            stmts[i:i + 2] = [nb]
            changed = True
            break
    return stmts


def _terminates(stmts: list[ast.stmt]) -> bool:
    return bool(stmts) and isinstance(stmts[-1], (ast.Return, ast.Raise, ast.Continue, ast.Break))


def _flatten_returns(stmts: list[ast.stmt]) -> list[ast.stmt]:
    """`if c: ...; return A` + `else: B`  ->  `if c: ...; return A` followed by B (also through elif chains): the
    early-return form is the one that is read."""
    import copy
    out: list[ast.stmt] = []
    for st in stmts:
        if isinstance(st, ast.If):
            st = copy.copy(st)
            st.body = _flatten_returns(st.body)
            st.orelse = _flatten_returns(st.orelse)
            if st.orelse and _terminates(st.body):
                tail, st.orelse = st.orelse, []
                out.append(st)
                out.extend(tail)
                continue
        out.append(st)
    return out


def _loops_to_updates(fn: ast.FunctionDef) -> ast.FunctionDef:
    """`for x in IT: [if C:] S.add(E)`  ->  `S.update((E for x in IT [if C]))` (comprehension vs loop)."""
    class L(ast.NodeTransformer):
        def visit_For(self, node):
            self.generic_visit(node)
            if node.orelse or len(node.body) != 1 or not isinstance(node.target, ast.Name):
                return node
            st, conds = node.body[0], []
            while isinstance(st, ast.If) and not st.orelse and len(st.body) == 1:
                conds.append(st.test)
                st = st.body[0]
            if not (isinstance(st, ast.Expr) and isinstance(st.value, ast.Call) and isinstance(st.value.func, ast.Attribute)
                    and st.value.func.attr == 'add' and isinstance(st.value.func.value, ast.Name) and len(st.value.args) == 1
                    and not st.value.keywords and st.value.func.value.id != node.target.id):
                return node
            if any(isinstance(n, ast.Name) and n.id == st.value.func.value.id for c in conds + [node.iter, st.value.args[0]] for n in ast.walk(c)):
                return node                       # the set is read while it is filled: not the same as one update
            gen = ast.GeneratorExp(elt=st.value.args[0], generators=[ast.comprehension(target=node.target, iter=node.iter, ifs=conds, is_async=0)])
            call = ast.Call(func=ast.Attribute(value=st.value.func.value, attr='update', ctx=ast.Load()), args=[gen], keywords=[])
            return ast.copy_location(ast.Expr(value=call), node)
    fn = L().visit(fn)
    ast.fix_missing_locations(fn)
    return fn


def _split_packed_writes(fn: ast.FunctionDef) -> ast.FunctionDef:
    """`file.write(pack(...) + REST)`  ->  `file.write(pack(...))`; `file.write(REST)` (one write of a concatenation whose
    head is a packed number vs two writes; the operands are evaluated in the same order)."""
    def is_pack(n):
        return isinstance(n, ast.Call) and ast.unparse(n.func) == 'pack'

    def operands(n):
        return operands(n.left) + [n.right] if isinstance(n, ast.BinOp) and isinstance(n.op, ast.Add) else [n]

    def split(st):
        if not (isinstance(st, ast.Expr) and isinstance(st.value, ast.Call) and ast.unparse(st.value.func) == 'file.write'
                and len(st.value.args) == 1 and not st.value.keywords):
            return [st]
        ops = operands(st.value.args[0])
        if len(ops) < 2 or not is_pack(ops[0]):
            return [st]
        rest = ops[1]
        for o in ops[2:]:
            rest = ast.BinOp(left=rest, op=ast.Add(), right=o)
        mk = lambda arg: ast.copy_location(ast.Expr(value=ast.Call(func=st.value.func, args=[arg], keywords=[])), st)
        return [mk(ops[0])] + split(mk(rest))

    class W(ast.NodeTransformer):
        def generic_visit(self, node):
            super().generic_visit(node)
            for field in ('body', 'orelse', 'finalbody'):
                b = getattr(node, field, None)
                if isinstance(b, list) and b and isinstance(b[0], ast.stmt):
                    setattr(node, field, [x for st in b for x in split(st)])
            return node
    fn = W().visit(fn)
    ast.fix_missing_locations(fn)
    return fn


def _enc_arg(node: ast.AST | None, where) -> str:
    if node is None:
        return 'EncAscii'
    if isinstance(node, ast.Name) and node.id == 'encoding':
        return 'EncFile'
    if isinstance(node, ast.Constant) and node.value == 'ascii':
        return 'EncAscii'
    _fail(f'unrecognised codec argument `{ast.unparse(node)}`', where)


def _parents(root: ast.AST) -> dict:
    par = {}
    for n in ast.walk(root):
        for ch in ast.iter_child_nodes(n):
            par[ch] = n
    return par


def _encoding_assignment(fn: ast.FunctionDef, kind: str) -> None:
    """The single `encoding = <utf8 or ascii, by the unicode mode>` of a writer (kind 'modes': the three-valued parameter)
    or of parse_bin (kind 'bool').  Only its shape is required here (read semantically: any spelling of the test,
    either branch order); which codec each mode selects goes into gen_hdr (_header_cfg) and is an obligation there."""
    enc = [n for n in ast.walk(fn) if isinstance(n, ast.Assign) and ast.unparse(n.targets[0]) == 'encoding']
    if len(enc) != 1:
        _fail(f'{fn.name}: expected exactly one `encoding = ...` assignment, found {len(enc)}')
    if kind == 'modes':
        _ifexp_modes(enc[0].value, UTF8, ASCII, enc[0])
    else:
        _ifexp_bool(enc[0].value, UTF8, ASCII, enc[0])


# ------------------------------------------------------------------------------------------------ parse_bin
def _parse_bin(fn: ast.FunctionDef) -> dict:
    """Every local is found by its role (the expression that binds it or the place it is used at), not by its name."""
    out: dict = {'enc_read': {}}
    _encoding_assignment(fn, 'bool')
    par = _parents(fn)
    # the split test
    # the local that holds the type byte: `<attr type> = IND_TO_VALTYPE[D]`, `[D] = struct_read('<B', file)`
    dvars = [n.value.slice.id for n in ast.walk(fn) if isinstance(n, ast.Assign) and len(n.targets) == 1 and isinstance(n.targets[0], ast.Name)
             and isinstance(n.value, ast.Subscript) and ast.unparse(n.value.value) == 'IND_TO_VALTYPE' and isinstance(n.value.slice, ast.Name)]
    if len(dvars) != 1:
        _fail('parse_bin: `<local> = IND_TO_VALTYPE[<local>]` not found exactly once')
    dv = dvars[0]
    if not any(isinstance(n, ast.Assign) and ast.unparse(n) == f"[{dv}] = binformat.struct_read('<B', file)" for n in ast.walk(fn)):
        _fail(f"parse_bin: `[{dv}] = binformat.struct_read('<B', file)` not found")
    splits = [n for n in ast.walk(fn) if isinstance(n, ast.If) and isinstance(n.test, ast.Compare)
              and any(isinstance(x, ast.Name) and x.id == dv for x in ast.walk(n.test))]
    if len(splits) != 1:
        _fail(f'parse_bin: expected one test on {dv}, found {len(splits)}')
    sp = splits[0]
    t = sp.test
    if not (isinstance(t.left, ast.Name) and t.left.id == dv and len(t.ops) == 1
            and isinstance(t.comparators[0], ast.Name) and t.comparators[0].id == 'ARRAY_OFFSET' and type(t.ops[0]) in CMP):
        _fail(f'parse_bin: unrecognised split test `{ast.unparse(t)}`', sp)
    out['split_cmp'] = CMP[type(t.ops[0])]
    out['split_line'] = sp.lineno
    # the local that holds the array length (None for a scalar)
    if not (len(sp.body) == 2 and isinstance(sp.body[1], ast.Assign) and len(sp.body[1].targets) == 1 and isinstance(sp.body[1].targets[0], ast.List)
            and len(sp.body[1].targets[0].elts) == 1 and isinstance(sp.body[1].targets[0].elts[0], ast.Name)):
        _fail(f'parse_bin: unrecognised array branch {[ast.unparse(s) for s in sp.body]}', sp)
    av = sp.body[1].targets[0].elts[0].id
    body = [ast.unparse(s) for s in sp.body]
    if body != [f'{dv} -= ARRAY_OFFSET', f"[{av}] = binformat.struct_read('<i', file)"]:
        _fail(f'parse_bin: unrecognised array branch {body}', sp)
    if [ast.unparse(s) for s in sp.orelse] != [f'{av} = None']:
        _fail('parse_bin: unrecognised scalar branch', sp)
    bare = {id(n.target) for n in ast.walk(fn) if isinstance(n, ast.AnnAssign) and n.value is None}
    for var_ in (dv, av):           # each is written by its struct_read and once in the split, nowhere else
        st_ = [n for n in ast.walk(fn) if isinstance(n, ast.Name) and n.id == var_ and not isinstance(n.ctx, ast.Load) and id(n) not in bare]
        if len(st_) != 2 or dv == av:
            _fail(f'parse_bin: the local `{var_}` is written {len(st_)} times, 2 expected', sp)
    # the locals a string is read into, by what is done with them afterwards: the element constructor
    # `<list>.append(Element(NAME, TYPE, UUID))`, the attribute constructors `Attribute[.kind](NAME, ...)`, the scalar string
    # `Attribute.string(NAME, VALUE)`; the string table is the read_nullstr_array result that is indexed later
    mk = [n for n in ast.walk(fn) if isinstance(n, ast.Call) and ast.unparse(n.func) == 'Element']
    if not (len(mk) == 1 and len(mk[0].args) == 3 and not mk[0].keywords and all(isinstance(a, ast.Name) for a in mk[0].args)):
        _fail('parse_bin: `Element(<name>, <type>, <uuid>)` with three locals not found exactly once')
    el_name_var, el_type_var = mk[0].args[0].id, mk[0].args[1].id
    attr_calls = [n for n in ast.walk(fn) if isinstance(n, ast.Call) and ast.unparse(n.func).split('.')[0] == 'Attribute']
    attr_names = {ast.unparse(n.args[0]) if n.args else '?' for n in attr_calls}
    if len(attr_names) != 1 or not next(iter(attr_names)).isidentifier():
        _fail(f'parse_bin: the attributes are not all built with the same name local: {sorted(attr_names)}')
    attr_name_var = next(iter(attr_names))
    value_vars = {n.args[1].id for n in attr_calls if ast.unparse(n.func) == 'Attribute.string' and len(n.args) == 2 and isinstance(n.args[1], ast.Name)}
    if len(value_vars) != 1:
        _fail(f'parse_bin: `Attribute.string(<name>, <value local>)` not found exactly once: {sorted(value_vars)}')
    value_var = next(iter(value_vars))
    if len({el_type_var, el_name_var, value_var}) != 3 or el_type_var == attr_name_var or value_var == attr_name_var:
        _fail('parse_bin: one local serves two of element type / element name / attribute name / string value')
    subscripted = {n.value.id for n in ast.walk(fn) if isinstance(n, ast.Subscript) and isinstance(n.value, ast.Name) and isinstance(n.ctx, ast.Load)}
    first_loop_end = mk[0].lineno
    stub_read = None
    calls = [n for n in ast.walk(fn) if isinstance(n, ast.Call) and isinstance(n.func, ast.Attribute)
             and n.func.attr in ('read_nullstr', 'read_nullstr_array')]
    calls.sort(key=lambda n: (n.lineno, n.col_offset))
    for c in calls:
        kw = {k.arg: k.value for k in c.keywords}
        if set(kw) - {'encoding'}:
            _fail(f'parse_bin: unrecognised keyword in `{ast.unparse(c)}`', c)
        p = par.get(c)
        if c.func.attr == 'read_nullstr_array':
            if len(c.args) not in (2, 3) or ast.unparse(c.args[0]) != 'file':
                _fail(f'parse_bin: unrecognised `{ast.unparse(c)}`', c)
            enc = _enc_arg(c.args[2] if len(c.args) == 3 else kw.get('encoding'), c)
            cnt = ast.unparse(c.args[1])
            if cnt == av:
                site = 'SiteArrayStr'
            elif (isinstance(p, ast.Assign) and len(p.targets) == 1 and isinstance(p.targets[0], ast.Name) and p.targets[0].id in subscripted
                  and isinstance(c.args[1], ast.Name) and c.lineno < first_loop_end):
                site = 'SiteTable'
            else:
                _fail(f'parse_bin: unclassified string array read `{ast.unparse(c)}`', c)
        else:
            if len(c.args) != 1 or ast.unparse(c.args[0]) != 'file':
                _fail(f'parse_bin: unrecognised `{ast.unparse(c)}`', c)
            enc = _enc_arg(kw.get('encoding'), c)
            if isinstance(p, ast.Call) and ast.unparse(p.func) == 'UUID':
                stub_read = enc
                continue
            if not (isinstance(p, ast.Assign) and len(p.targets) == 1 and isinstance(p.targets[0], ast.Name)):
                _fail(f'parse_bin: unclassified string read `{ast.unparse(c)}`', c)
            tgt = p.targets[0].id
            before = c.lineno < first_loop_end         # read before the element is constructed: its type or name
            if tgt == el_type_var and before:
                site = 'SiteElType'
            elif tgt == el_name_var and before:
                site = 'SiteElName'
            elif tgt == attr_name_var and not before:
                site = 'SiteAttrName'
            elif tgt == value_var and not before:
                site = 'SiteScalarStr'
            else:
                _fail(f'parse_bin: unclassified string read into `{tgt}`', c)
        if site in out['enc_read']:
            _fail(f'parse_bin: two reads classified as {site}', c)
        out['enc_read'][site] = (enc, c.lineno)
    if set(out['enc_read']) != set(SITES):
        _fail(f'parse_bin: string read sites found {sorted(out["enc_read"])}')
    # are the strings kept as they were read?  every assignment to one of the four locals must be a read_nullstr call or an
    # entry of the string table, with nothing done to it (a reader that folds or strips a name loses its spelling)
    tables = {par[c].targets[0].id for c in calls if c.func.attr == 'read_nullstr_array' and isinstance(par.get(c), ast.Assign)
              and len(par[c].targets) == 1 and isinstance(par[c].targets[0], ast.Name)}
    out['strings_as_read'], out['strings_line'] = True, fn.lineno
    for n in ast.walk(fn):
        if isinstance(n, ast.Assign) and len(n.targets) == 1 and isinstance(n.targets[0], ast.Name) \
                and n.targets[0].id in (el_type_var, el_name_var, attr_name_var, value_var):
            v = n.value
            plain = (isinstance(v, ast.Subscript) and isinstance(v.value, ast.Name) and v.value.id in tables and isinstance(v.slice, ast.Name)) \
                or (isinstance(v, ast.Call) and isinstance(v.func, ast.Attribute) and v.func.attr == 'read_nullstr')
            if not plain:
                out['strings_as_read'], out['strings_line'] = False, n.lineno
    if stub_read != 'EncAscii':
        _fail('parse_bin: stub reference is not followed by `UUID(binformat.read_nullstr(file))`')
    # the stub branch: `[I] = struct_read('<i', file)` then `if I == -1: ... elif I == -2: U = UUID(read_nullstr(file)) ...`
    stub_if = []
    for n in ast.walk(fn):
        if not (isinstance(n, ast.If) and isinstance(n.test, ast.Compare) and isinstance(n.test.left, ast.Name)
                and re.fullmatch(r'\w+ == -2', ast.unparse(n.test))):
            continue
        iv = n.test.left.id
        top = n
        while isinstance(par.get(top), ast.If) and top in par[top].orelse:
            top = par[top]
        holder = par.get(top)
        sib = getattr(holder, 'body', [])
        k = next((q for q, x in enumerate(sib) if x is top), None)
        if k is None or k == 0 or ast.unparse(sib[k - 1]) != f"[{iv}] = binformat.struct_read('<i', file)":
            _fail(f'parse_bin: the test `{ast.unparse(n.test)}` is not on an index just read with struct_read', n)
        stub_if.append(n)
    if len(stub_if) != 1 or not re.fullmatch(r'\w+ = UUID\(binformat\.read_nullstr\(file\)\)', ast.unparse(stub_if[0].body[0])):
        _fail('parse_bin: stub branch `<index> == -2` not recognised')
    return out


def _export_binary(fn: ast.FunctionDef) -> dict:
    out: dict = {'enc_write': {}}
    _encoding_assignment(fn, 'modes')
    par = _parents(fn)
    src = [ast.unparse(n) for n in ast.walk(fn) if isinstance(n, ast.stmt)]
    # the local that holds the type code, whatever it is called: `T = VAL_TYPE_TO_IND[attr.type]`
    tvars = [n.targets[0].id for n in ast.walk(fn) if isinstance(n, ast.Assign) and len(n.targets) == 1 and isinstance(n.targets[0], ast.Name)
             and ast.unparse(n.value) == 'VAL_TYPE_TO_IND[attr.type]']
    if len(tvars) != 1:
        _fail('export_binary: `<local> = VAL_TYPE_TO_IND[attr.type]` not found exactly once')
    tv = tvars[0]
    stores = [n for n in ast.walk(fn) if isinstance(n, ast.Name) and n.id == tv and not isinstance(n.ctx, ast.Load)]
    if len(stores) != 2:                       # the assignment and the `+= ARRAY_OFFSET`
        _fail(f'export_binary: the type code local `{tv}` is written {len(stores)} times, 2 expected')
    if f"file.write(pack('B', {tv}))" not in src:
        _fail(f"export_binary: `file.write(pack('B', {tv}))` not found")
    if not any(isinstance(n, ast.If) and ast.unparse(n.test) == 'attr.is_array' and not n.orelse
               and [ast.unparse(s) for s in n.body] == [f'{tv} += ARRAY_OFFSET'] for n in ast.walk(fn)):
        _fail(f'export_binary: `if attr.is_array: {tv} += ARRAY_OFFSET` not found')

    def enclosing_for(n):
        while n in par:
            n = par[n]
            if isinstance(n, ast.For):
                return n
        return None
    stub_enc_seen = False
    for c in ast.walk(fn):
        if not (isinstance(c, ast.Call) and isinstance(c.func, ast.Attribute) and c.func.attr == 'encode'):
            continue
        recv = ast.unparse(c.func.value)
        if len(c.args) != 1 or c.keywords:
            _fail(f'export_binary: unrecognised `{ast.unparse(c)}`', c)
        if recv in ('fmt_name',):
            continue                      # header
        enc = _enc_arg(c.args[0], c)
        p = par.get(c)
        if not (isinstance(p, ast.BinOp) and isinstance(p.op, ast.Add) and ast.unparse(p.right) == "b'\\x00'"):
            _fail(f'export_binary: string write without NUL terminator `{ast.unparse(p)}`', c)
        if recv == 'str(subelem.uuid)':
            if enc != 'EncAscii':
                _fail('export_binary: stub uuid not ASCII', c)
            stub_enc_seen = True
            continue
        if recv == 'elem.type':
            sites = ['SiteElType']
        elif recv == 'elem.name':
            sites = ['SiteElName']
        elif recv == 'attr.name':
            sites = ['SiteAttrName']
        elif recv == 'text':
            f = enclosing_for(c)
            it = ast.unparse(f.iter) if f is not None else ''
            if it == 'string_list':
                sites = ['SiteTable']
            elif it == 'attr.iter_string()':
                sites = ['SiteScalarStr', 'SiteArrayStr']
            else:
                _fail(f'export_binary: unclassified string write in loop over `{it}`', c)
        else:
            _fail(f'export_binary: unclassified string write `{ast.unparse(c)}`', c)
        for s in sites:
            if s in out['enc_write']:
                _fail(f'export_binary: two writes classified as {s}', c)
            out['enc_write'][s] = (enc, c.lineno)
    if set(out['enc_write']) != set(SITES):
        _fail(f'export_binary: string write sites found {sorted(out["enc_write"])}')
    # stub branch
    stub = [n for n in ast.walk(fn) if isinstance(n, ast.If) and ast.unparse(n.test) == 'subelem.is_stub']
    if len(stub) != 1:
        _fail('export_binary: stub branch not found')
    body = [ast.unparse(s) for s in stub[0].body]
    if body == ["file.write(pack('<i', -2))"]:
        out['stub_written'] = 'StubNothing'
    elif body == ["file.write(pack('<i', -2))", "file.write(str(subelem.uuid).encode('ascii') + b'\\x00')"] and stub_enc_seen:
        out['stub_written'] = 'StubUuidStr'
    else:
        _fail(f'export_binary: unrecognised stub branch {body}', stub[0])
    out['stub_line'] = stub[0].lineno
    return out



# ------------------------------------------------------------------------------------------------ attribute count / member loops
class _Lin:
    """count = len * len(elem) + has * (KEY in elem._members) + const + kept * #(members not skipped by FILTER)."""
    def __init__(self, ln=0, has=0, const=0, kept=0, has_key=None, kept_filter=None):
        self.ln, self.has, self.const, self.kept, self.has_key, self.kept_filter = ln, has, const, kept, has_key, kept_filter

    def _merge_keys(self, o, where):
        hk = self.has_key if self.has_key is not None else o.has_key
        if self.has_key is not None and o.has_key is not None and self.has_key != o.has_key:
            _fail('attribute count: membership tests on two different keys', where)
        kf = self.kept_filter if self.kept_filter is not None else o.kept_filter
        if self.kept_filter is not None and o.kept_filter is not None and self.kept_filter != o.kept_filter:
            _fail('attribute count: two different counting comprehensions', where)
        return hk, kf

    def add(self, o, sign, where):
        hk, kf = self._merge_keys(o, where)
        return _Lin(self.ln + sign * o.ln, self.has + sign * o.has, self.const + sign * o.const, self.kept + sign * o.kept, hk, kf)

    def scale(self, k):
        return _Lin(self.ln * k, self.has * k, self.const * k, self.kept * k, self.has_key, self.kept_filter)

    def is_const(self):
        return self.ln == 0 and self.has == 0 and self.kept == 0


def _members_expr(node: ast.AST, elem: str) -> bool:
    """Expressions whose keys / length are those of `elem._members`: elem, elem._members, elem.keys(), elem._members.keys()."""
    src = ast.unparse(node)
    return src in (elem, f'{elem}._members', f'{elem}.keys()', f'{elem}._members.keys()')


def _has_test(node: ast.AST, elem: str, where):
    """`'k' in elem._members` (or `in elem`: Mapping.__contains__ looks the casefolded name up, the same for a lower-case
    literal) -> (key, negated) or None."""
    if isinstance(node, ast.UnaryOp) and isinstance(node.op, ast.Not):
        r = _has_test(node.operand, elem, where)
        return None if r is None else (r[0], not r[1])
    if isinstance(node, ast.Compare) and len(node.ops) == 1 and isinstance(node.ops[0], (ast.In, ast.NotIn)) \
            and isinstance(node.left, ast.Constant) and isinstance(node.left.value, str) and _members_expr(node.comparators[0], elem):
        key = node.left.value
        if ast.unparse(node.comparators[0]) in (elem, f'{elem}.keys()') and key.casefold() != key:
            _fail(f'attribute count: `{ast.unparse(node)}` looks a casefolded name up', where)
        return key, isinstance(node.ops[0], ast.NotIn)
    return None


def _key_filter(test: ast.AST, key_var, attr_var, where, want_equal: bool = True):
    """A skip test of a loop over the members: `K == 'c'` -> ('FKeyIs', c), `A.name == 'c'` -> ('FRealNameIs', c).
    want_equal=False reads the keep test `K != 'c'`."""
    if isinstance(test, ast.Compare) and len(test.ops) == 1 and isinstance(test.ops[0], (ast.Eq, ast.NotEq)):
        l, r = test.left, test.comparators[0]
        if isinstance(l, ast.Constant):
            l, r = r, l
        if isinstance(r, ast.Constant) and isinstance(r.value, str) and isinstance(test.ops[0], ast.Eq) == want_equal:
            ls = ast.unparse(l)
            if key_var is not None and ls == key_var:
                return ('FKeyIs', r.value)
            if attr_var is not None and ls == f'{attr_var}.name':
                return ('FRealNameIs', r.value)
    _fail(f'unrecognised test on a member `{ast.unparse(test)}`', where)


def _count_comprehension(node: ast.AST, elem: str, where):
    """sum(1 for k in elem._members if k != 'c') / len([k for k in elem._members if k != 'c']) /
    sum(k != 'c' for k in elem._members) -> the filter of the members that are *not* counted, else None."""
    if not (isinstance(node, ast.Call) and isinstance(node.func, ast.Name) and node.func.id in ('sum', 'len') and len(node.args) == 1
            and not node.keywords and isinstance(node.args[0], (ast.GeneratorExp, ast.ListComp))):
        return None
    comp = node.args[0]
    if len(comp.generators) != 1 or comp.generators[0].is_async:
        _fail(f'attribute count: unrecognised comprehension `{ast.unparse(node)}`', where)
    g = comp.generators[0]
    key_var = attr_var = None
    it = ast.unparse(g.iter)
    if _members_expr(g.iter, elem) and isinstance(g.target, ast.Name):
        key_var = g.target.id
    elif it in (f'{elem}._members.items()', f'{elem}.items()') and isinstance(g.target, ast.Tuple) and len(g.target.elts) == 2 \
            and all(isinstance(e, ast.Name) for e in g.target.elts):
        key_var, attr_var = g.target.elts[0].id, g.target.elts[1].id
    elif it in (f'{elem}._members.values()', f'{elem}.values()') and isinstance(g.target, ast.Name):
        attr_var = g.target.id
    else:
        _fail(f'attribute count: unrecognised comprehension `{ast.unparse(node)}`', where)
    if node.func.id == 'sum' and not g.ifs and isinstance(comp, ast.GeneratorExp):
        return _key_filter(comp.elt, key_var, attr_var, where, want_equal=False)      # sum(k != 'c' for ...)
    if node.func.id == 'sum' and not (isinstance(comp.elt, ast.Constant) and comp.elt.value == 1 and not isinstance(comp.elt.value, bool)):
        _fail(f'attribute count: unrecognised comprehension `{ast.unparse(node)}`', where)
    if not g.ifs:
        return ('FNothing', None)
    if len(g.ifs) != 1:
        _fail(f'attribute count: unrecognised comprehension `{ast.unparse(node)}`', where)
    return _key_filter(g.ifs[0], key_var, attr_var, where, want_equal=False)


def _lin(node: ast.AST, env: dict, elem: str, where) -> _Lin:
    if isinstance(node, ast.Constant) and isinstance(node.value, int) and not isinstance(node.value, bool):
        return _Lin(const=node.value)
    if isinstance(node, ast.Name) and node.id in env:
        return env[node.id]
    if isinstance(node, ast.Call) and isinstance(node.func, ast.Name) and node.func.id == 'len' and len(node.args) == 1 \
            and not node.keywords and _members_expr(node.args[0], elem):
        return _Lin(ln=1)
    if isinstance(node, ast.Call) and ast.unparse(node.func) in (f'{elem}.__len__', f'{elem}._members.__len__') and not node.args and not node.keywords:
        return _Lin(ln=1)
    if isinstance(node, ast.Call) and isinstance(node.func, ast.Name) and node.func.id in ('int', 'bool') and len(node.args) == 1 and not node.keywords:
        h = _has_test(node.args[0], elem, where)
        if h is not None:
            return _Lin(has=1, has_key=h[0]) if not h[1] else _Lin(has=-1, const=1, has_key=h[0])
    h = _has_test(node, elem, where)
    if h is not None:
        return _Lin(has=1, has_key=h[0]) if not h[1] else _Lin(has=-1, const=1, has_key=h[0])
    kf = _count_comprehension(node, elem, where)
    if kf is not None:
        return _Lin(ln=1) if kf[0] == 'FNothing' else _Lin(kept=1, kept_filter=kf)
    if isinstance(node, ast.BinOp) and isinstance(node.op, (ast.Add, ast.Sub)):
        return _lin(node.left, env, elem, where).add(_lin(node.right, env, elem, where), 1 if isinstance(node.op, ast.Add) else -1, where)
    if isinstance(node, ast.BinOp) and isinstance(node.op, ast.Mult):
        a, b = _lin(node.left, env, elem, where), _lin(node.right, env, elem, where)
        if a.is_const():
            return b.scale(a.const)
        if b.is_const():
            return a.scale(b.const)
    if isinstance(node, ast.UnaryOp) and isinstance(node.op, ast.USub):
        return _lin(node.operand, env, elem, where).scale(-1)
    if isinstance(node, ast.IfExp):
        h = _has_test(node.test, elem, where)
        if h is not None:
            return _lin_select(h, _lin(node.body, env, elem, where), _lin(node.orelse, env, elem, where), where)
    _fail(f'attribute count: unrecognised expression `{ast.unparse(node)}`', where)


def _lin_select(h, then: _Lin, other: _Lin, where) -> _Lin:
    """The value `then` when the key is present, `other` when it is not, as one linear form (the indicator is 0 / 1)."""
    key, neg = h
    if neg:
        then, other = other, then
    for f in (then, other):
        if f.has_key is not None and f.has_key != key:
            _fail('attribute count: membership tests on two different keys', where)
    if then.ln != other.ln or then.kept != other.kept:
        _fail('attribute count: the branches differ by more than a constant', where)
    _, kf = then._merge_keys(_Lin(kept_filter=other.kept_filter), where)
    # then at has = 1, other at has = 0
    return _Lin(other.ln, (then.const + then.has) - other.const, other.const, other.kept, key, kf)


def _member_loop(loop: ast.For, elem: str, where):
    """A `for` over the members of `elem`: (key variable, attribute variable, skip filter, statements of the kept part)."""
    it = ast.unparse(loop.iter)
    key_var = attr_var = None
    if it in (f'{elem}._members.items()', f'{elem}.items()') and isinstance(loop.target, ast.Tuple) and len(loop.target.elts) == 2 \
            and all(isinstance(e, ast.Name) for e in loop.target.elts):
        key_var, attr_var = loop.target.elts[0].id, loop.target.elts[1].id
    elif it in (f'{elem}._members.values()', f'{elem}.values()') and isinstance(loop.target, ast.Name):
        attr_var = loop.target.id
    elif _members_expr(loop.iter, elem) and isinstance(loop.target, ast.Name):
        key_var = loop.target.id            # for K in elem._members: [A = elem._members[K]] ...
    else:
        _fail(f'export_binary: unrecognised loop over the members `for {ast.unparse(loop.target)} in {it}`', loop)
    body = _strip_doc(loop.body)
    if attr_var is None and body and isinstance(body[0], ast.Assign) and len(body[0].targets) == 1 and isinstance(body[0].targets[0], ast.Name) \
            and ast.unparse(body[0].value) == f'{elem}._members[{key_var}]':
        attr_var, body = body[0].targets[0].id, body[1:]
    mentions = lambda n: any(isinstance(x, ast.Constant) and isinstance(x.value, str) for x in ast.walk(n))
    first = body[0] if body else None
    if isinstance(first, ast.If) and not first.orelse and len(first.body) >= 1 and isinstance(first.body[-1], ast.Continue) \
            and all(isinstance(x, (ast.Continue, ast.Pass)) or (isinstance(x, ast.Expr) and isinstance(x.value, ast.Constant)) for x in first.body) \
            and isinstance(first.test, ast.Compare) and mentions(first.test) \
            and ast.unparse(first.test.left if not isinstance(first.test.left, ast.Constant) else first.test.comparators[0]) in (key_var, f'{attr_var}.name'):
        _no_other_skip(body[1:], loop)
        return key_var, attr_var, _key_filter(first.test, key_var, attr_var, first), body[1:]
    if len(body) == 1 and isinstance(first, ast.If) and not first.orelse and isinstance(first.test, ast.Compare) and mentions(first.test) \
            and ast.unparse(first.test.left if not isinstance(first.test.left, ast.Constant) else first.test.comparators[0]) in (key_var, f'{attr_var}.name'):
        _no_other_skip(first.body, loop)
        return key_var, attr_var, _key_filter(first.test, key_var, attr_var, first, want_equal=False), first.body
    _no_other_skip(body, loop)
    return key_var, attr_var, ('FNothing', None), body


def _no_other_skip(stmts: list[ast.stmt], where) -> None:
    """No `continue` / `break` of this loop outside the recognised skip test (a skip the model does not have)."""
    def walk(n):
        if isinstance(n, (ast.Continue, ast.Break)):
            _fail('loop over the members: a `continue` / `break` that is not the recognised skip test', n)
        if isinstance(n, (ast.For, ast.While, ast.FunctionDef, ast.Lambda)):
            return
        for ch in ast.iter_child_nodes(n):
            walk(ch)
    for st in stmts:
        walk(st)


def _attr_count(fn: ast.FunctionDef) -> dict:
    """export_binary: the count written in front of an element's attribute records, and which members the collecting
    loop and the record-writing loop skip."""
    loops = [n for n in fn.body if isinstance(n, ast.For) and ast.unparse(n.iter) == 'elements' and isinstance(n.target, ast.Name)]
    collect = [l for l in loops if any(isinstance(x, ast.Call) and ast.unparse(x.func) == 'elements.append' for x in ast.walk(l))]
    def inner_loops(l):
        return [x for x in l.body if isinstance(x, ast.For) and '_members' in ast.unparse(x.iter) or
                (isinstance(x, ast.For) and ast.unparse(x.iter) in (f'{l.target.id}.values()', f'{l.target.id}.items()'))]
    write = [l for l in loops if l not in collect and inner_loops(l)]
    if len(collect) != 1 or len(write) != 1:
        _fail(f'export_binary: expected one collecting and one attribute-writing loop over `elements`, found {len(collect)} / {len(write)}')
    out: dict = {}
    c, w = collect[0], write[0]
    ci = inner_loops(c)
    if len(ci) != 1:
        _fail('export_binary: the collecting loop has no single loop over the members', c)
    out['collect_filter'] = _member_loop(ci[0], c.target.id, c)[2]
    wi = inner_loops(w)
    if len(wi) != 1:
        _fail('export_binary: the attribute-writing loop has no single loop over the members', w)
    out['write_filter'] = _member_loop(wi[0], w.target.id, w)[2]
    out['line'] = w.lineno
    # straight-line code in front of the member loop: the count
    elem = w.target.id
    env: dict = {}
    count = None
    for st in w.body:
        if st is wi[0]:
            break
        if isinstance(st, ast.Assign) and len(st.targets) == 1 and isinstance(st.targets[0], ast.Name):
            env[st.targets[0].id] = _lin(st.value, env, elem, st)
        elif isinstance(st, ast.AnnAssign) and isinstance(st.target, ast.Name) and st.value is not None:
            env[st.target.id] = _lin(st.value, env, elem, st)
        elif isinstance(st, ast.AugAssign) and isinstance(st.target, ast.Name) and st.target.id in env and isinstance(st.op, (ast.Add, ast.Sub)):
            env[st.target.id] = env[st.target.id].add(_lin(st.value, env, elem, st), 1 if isinstance(st.op, ast.Add) else -1, st)
        elif isinstance(st, ast.If) and _has_test(st.test, elem, st) is not None:
            h = _has_test(st.test, elem, st)
            envs = []
            for branch in (st.body, st.orelse):
                e2 = dict(env)
                for b in branch:
                    if isinstance(b, ast.AugAssign) and isinstance(b.target, ast.Name) and b.target.id in e2 and isinstance(b.op, (ast.Add, ast.Sub)):
                        e2[b.target.id] = e2[b.target.id].add(_lin(b.value, e2, elem, b), 1 if isinstance(b.op, ast.Add) else -1, b)
                    elif isinstance(b, ast.Assign) and len(b.targets) == 1 and isinstance(b.targets[0], ast.Name):
                        e2[b.targets[0].id] = _lin(b.value, e2, elem, b)
                    elif isinstance(b, ast.Pass):
                        pass
                    else:
                        _fail(f'export_binary: unrecognised statement in the attribute count `{ast.unparse(b)}`', b)
                envs.append(e2)
            for k in set(envs[0]) | set(envs[1]):
                if k not in envs[0] or k not in envs[1]:
                    _fail(f'export_binary: `{k}` is assigned in one branch only', st)
                env[k] = _lin_select(h, envs[0][k], envs[1][k], st)
        elif isinstance(st, ast.Expr) and isinstance(st.value, ast.Call) and ast.unparse(st.value.func) == 'file.write':
            a = st.value.args
            if not (len(a) == 1 and isinstance(a[0], ast.Call) and ast.unparse(a[0].func) in ('pack', 'struct.pack') and len(a[0].args) == 2
                    and isinstance(a[0].args[0], ast.Constant) and a[0].args[0].value == '<i' and count is None):
                _fail(f'export_binary: unrecognised write in front of the attribute records `{ast.unparse(st)}`', st)
            count = _lin(a[0].args[1], env, elem, st)
        elif isinstance(st, ast.Expr) and isinstance(st.value, ast.Constant):
            continue
        else:
            _fail(f'export_binary: unrecognised statement in front of the attribute records `{ast.unparse(st)}`', st)
    if count is None:
        _fail('export_binary: no attribute count is written in front of the attribute records', w)
    if any(isinstance(x, ast.Call) and ast.unparse(x.func) == 'file.write' for st in w.body[w.body.index(wi[0]) + 1:] for x in ast.walk(st)):
        _fail('export_binary: writes after the loop over the members', w)
    out['count'] = count
    return out


def _name_getter(tree: ast.Module) -> dict:
    """Element.name (the property getter): which member it reads and what it returns when the member is missing;
    Element.__len__."""
    getter = None
    for n in tree.body:
        if isinstance(n, ast.ClassDef) and n.name == 'Element':
            for f in n.body:
                if isinstance(f, ast.FunctionDef) and f.name == 'name' and any(ast.unparse(d) == 'property' for d in f.decorator_list):
                    getter = f
    if getter is None:
        _fail('Element.name property not found')
    keys = set()
    for n in ast.walk(getter):
        if isinstance(n, ast.Subscript) and ast.unparse(n.value) == 'self._members':
            if not (isinstance(n.slice, ast.Constant) and isinstance(n.slice.value, str)):
                _fail('Element.name: unrecognised member lookup', n)
            keys.add(n.slice.value)
        if isinstance(n, ast.Call) and ast.unparse(n.func) == 'self._members.get':
            if not (n.args and isinstance(n.args[0], ast.Constant) and isinstance(n.args[0].value, str)):
                _fail('Element.name: unrecognised member lookup', n)
            keys.add(n.args[0].value)
        if isinstance(n, ast.Compare) and any(ast.unparse(c_) == 'self._members' for c_ in n.comparators) and isinstance(n.left, ast.Constant):
            keys.add(n.left.value)
    rets = [n.value for n in ast.walk(getter) if isinstance(n, ast.Return)]
    consts = [r.value for r in rets if isinstance(r, ast.Constant) and isinstance(r.value, str)]
    others = [r for r in rets if not (isinstance(r, ast.Constant) and isinstance(r.value, str))]
    if len(keys) != 1 or len(consts) != 1 or len(others) != 1 or not (isinstance(others[0], ast.Attribute) and others[0].attr in ('val_string', 'val_str')):
        _fail(f'Element.name: unrecognised getter (member keys {sorted(keys)}, {len(rets)} returns)', getter)
    ln = [ast.unparse(x) for x in _strip_doc(_raw_func(tree, 'Element', '__len__').body)]
    return {'key': keys.pop(), 'default': consts[0], 'len_is_members': ln == ['return len(self._members)']}


# ------------------------------------------------------------------------------------------------ readers: the key a record is stored under
def _member_stores(fn: ast.FunctionDef, obj: str) -> list[dict]:
    """Every `OBJ._members[KEY] = VALUE` of a reader: is KEY the casefolded attribute name or the name as written, and
    is the name that is stored in the Attribute the same variable?"""
    def single_assign(var):
        v = [n for n in ast.walk(fn) if isinstance(n, ast.Assign) and len(n.targets) == 1 and isinstance(n.targets[0], ast.Name)
             and n.targets[0].id == var]
        stores = [n for n in ast.walk(fn) if isinstance(n, ast.Name) and n.id == var and not isinstance(n.ctx, ast.Load)]
        return v[0].value if len(v) == 1 and len(stores) == 1 else None

    def key_of(k, depth=0):
        if isinstance(k, ast.Call) and isinstance(k.func, ast.Attribute) and k.func.attr == 'casefold' and not k.args and not k.keywords \
                and isinstance(k.func.value, ast.Name):
            return 'KFolded', k.func.value.id
        if isinstance(k, ast.Name):
            e = single_assign(k.id) if depth == 0 else None      # key = name.casefold(); elem._members[key] = ...
            if e is not None and isinstance(e, ast.Call) and isinstance(e.func, ast.Attribute) and e.func.attr == 'casefold':
                return key_of(e, depth + 1)
            return 'KAsWritten', k.id
        _fail(f'{fn.name}: unrecognised key `{ast.unparse(k)}` of a member store', k)

    def attr_ctor_name(call):
        """first argument of Attribute(...) / Attribute.<classmethod>(...)"""
        if isinstance(call, ast.Call) and ast.unparse(call.func).split('.')[0] == 'Attribute' and call.args and isinstance(call.args[0], ast.Name):
            return call.args[0].id
        return None
    out = []
    for n in ast.walk(fn):
        if not (isinstance(n, ast.Assign) and len(n.targets) == 1 and isinstance(n.targets[0], ast.Subscript)
                and ast.unparse(n.targets[0].value) == f'{obj}._members'):
            continue
        fn_kind, name_var = key_of(n.targets[0].slice)
        if isinstance(n.value, ast.Name):
            kind = 'attr'
            made = [attr_ctor_name(a.value) for a in ast.walk(fn) if isinstance(a, ast.Assign) and len(a.targets) == 1
                    and isinstance(a.targets[0], ast.Name) and a.targets[0].id == n.value.id and isinstance(a.value, ast.Call)
                    and ast.unparse(a.value.func).split('.')[0] == 'Attribute']
            if not made or any(m != name_var for m in made):
                _fail(f'{fn.name}: `{ast.unparse(n)}`: the attribute stored is not always built as Attribute({name_var}, ...)', n)
        elif attr_ctor_name(n.value) is not None:
            kind = 'inline'
            if attr_ctor_name(n.value) != name_var:
                _fail(f'{fn.name}: `{ast.unparse(n.targets[0])}`: key and attribute name come from different variables', n)
        else:
            _fail(f'{fn.name}: unrecognised member store `{ast.unparse(n)}`', n)
        out.append({'kind': kind, 'key': fn_kind, 'line': n.lineno})
    return out


def _parse_keys(tree: ast.Module) -> dict:
    def agree(stores, kind, where):
        ks = {s_['key'] for s_ in stores if s_['kind'] == kind}
        if not ks:
            _fail(f'{where}: no `elem._members[...] = ...` store of kind {kind}')
        return 'KAsWritten' if 'KAsWritten' in ks else 'KFolded', min(s_['line'] for s_ in stores if s_['kind'] == kind)
    pb = _member_stores(_func(tree, 'Element', 'parse_bin'), 'elem')
    if any(s_['kind'] != 'attr' for s_ in pb):
        _fail('parse_bin: unrecognised member store')
    k2 = _member_stores(_func(tree, 'Element', '_parse_kv2_element'), 'elem')
    out = {'bin': agree(pb, 'attr', 'parse_bin'), 'kv2_attr': agree(k2, 'attr', '_parse_kv2_element'),
           'kv2_inline': agree(k2, 'inline', '_parse_kv2_element')}
    # Element.__init__: self._members = {KEY: Attribute(NAME, ValueType.STRING, name)}
    init = _raw_func(tree, 'Element', '__init__')
    params = [a.arg for a in init.args.args]
    st = [n for n in ast.walk(init) if isinstance(n, ast.Assign) and len(n.targets) == 1 and ast.unparse(n.targets[0]) == 'self._members']
    if not (len(st) == 1 and isinstance(st[0].value, ast.Dict) and len(st[0].value.keys) == 1 and isinstance(st[0].value.keys[0], ast.Constant)
            and isinstance(st[0].value.keys[0].value, str)):
        _fail('Element.__init__: `self._members = {KEY: Attribute(...)}` with one literal key expected', init)
    v = st[0].value.values[0]
    if not (isinstance(v, ast.Call) and ast.unparse(v.func) == 'Attribute' and len(v.args) == 3 and not v.keywords
            and isinstance(v.args[0], ast.Constant) and isinstance(v.args[0].value, str) and ast.unparse(v.args[1]) == 'ValueType.STRING'
            and isinstance(v.args[2], ast.Name) and len(params) >= 2 and v.args[2].id == params[1]):
        _fail(f'Element.__init__: unrecognised initial member `{ast.unparse(v)}`', init)
    out['init_key'], out['init_name'] = st[0].value.keys[0].value, v.args[0].value
    return out


# ------------------------------------------------------------------------------------------------ KV2 at the level of the dict
def _kv2_members(tree: ast.Module) -> dict:
    """_export_kv2: the skip test of its loop over the members and the name line; _parse_kv2_element: the test that sends a
    record to the name setter."""
    w = _func(tree, 'Element', '_export_kv2')
    loops = [n for n in w.body if isinstance(n, ast.For) and ast.unparse(n.iter) in ('self.values()', 'self._members.values()', 'self.items()', 'self._members.items()')]
    if len(loops) != 1:
        _fail(f'_export_kv2: expected one loop over the members of self, found {len(loops)}', w)
    skip = _member_loop(loops[0], 'self', loops[0])[2]
    lines = [n for n in ast.walk(w) if isinstance(n, ast.Constant) and isinstance(n.value, bytes) and b'"name" "string"' in n.value]
    if len(lines) != 1 or lines[0].value != b'%b"name" "string" "%b"\r\n':
        _fail('_export_kv2: the line `"name" "string" "<Element.name>"` is not written exactly once', w)
    # is the name line written for every element?  (an inline block starts with the name of the attribute that holds it:
    # only the name line gives it its own name back)
    wbody = _strip_doc(w.body)
    name_always = any(isinstance(st, ast.Expr) and lines[0] in list(ast.walk(st)) for st in wbody)
    # the id line: for which (cull_uuid, is a root) is it written?
    idl = [n for n in ast.walk(w) if isinstance(n, ast.Constant) and isinstance(n.value, bytes) and b'"id" "elementid"' in n.value]
    if len(idl) != 1:
        _fail('_export_kv2: the line `"id" "elementid" "<uuid>"` is not written exactly once', w)
    holder = [st for st in wbody if idl[0] in list(ast.walk(st))]
    if len(holder) != 1:
        _fail('_export_kv2: the id line is not written at the top of the method', w)

    def cond(n):
        src = ast.unparse(n)
        if src == 'cull_uuid':
            return 'cull'
        if src == 'self.uuid in roots':
            return 'root'
        if src == 'self.uuid not in roots':
            return '(negb root)'
        if isinstance(n, ast.UnaryOp) and isinstance(n.op, ast.Not):
            return f'(negb {cond(n.operand)})'
        if isinstance(n, ast.BoolOp):
            op = 'orb' if isinstance(n.op, ast.Or) else 'andb'
            parts = [cond(v) for v in n.values]
            out = parts[-1]
            for p_ in reversed(parts[:-1]):
                out = f'({op} {p_} {out})'
            return out
        _fail(f'_export_kv2: unrecognised condition of the id line `{src}`', n)
    if isinstance(holder[0], ast.Expr):
        id_cond = 'true'
    elif isinstance(holder[0], ast.If) and not holder[0].orelse and len(holder[0].body) == 1 and isinstance(holder[0].body[0], ast.Expr):
        id_cond = cond(holder[0].test)
    else:
        _fail('_export_kv2: unrecognised statement around the id line', holder[0])
    r = _func(tree, 'Element', '_parse_kv2_element')
    blocks = [n for n in ast.walk(r) if isinstance(n, ast.For) and isinstance(n.target, ast.Name) and ast.unparse(n.iter).startswith('tok.block(')]
    if len(blocks) != 1:
        _fail('_parse_kv2_element: expected one `for attr_name in tok.block(...)`', r)
    nv = blocks[0].target.id
    tests = [n for n in ast.walk(blocks[0]) if isinstance(n, ast.If)
             and any(isinstance(x, ast.Assign) and ast.unparse(x.targets[0]) == 'elem.name' for x in n.body)]
    if len(tests) != 1:
        _fail('_parse_kv2_element: expected one branch that assigns elem.name', r)
    tsrc = ast.unparse(tests[0].test)
    if tsrc == f"{nv} == 'name'":
        test = 'TExact'
    elif tsrc == f"{nv}.casefold() == 'name'":
        test = 'TFolded'
    else:
        _fail(f'_parse_kv2_element: unrecognised test in front of the name setter `{tsrc}`', tests[0])
    setter = [x for x in tests[0].body if isinstance(x, ast.Assign) and ast.unparse(x.targets[0]) == 'elem.name']
    if len(setter) != 1 or ast.unparse(setter[0].value) != 'tok.expect(Token.STRING)' or not isinstance(tests[0].body[-1], ast.Continue):
        _fail('_parse_kv2_element: the name branch is not `elem.name = tok.expect(Token.STRING); continue`', tests[0])
    return {'skip': skip, 'name_test': test, 'line': loops[0].lineno, 'name_line_always': name_always, 'id_cond': id_cond}


# ------------------------------------------------------------------------------------------------ scalar codecs
# Identifiers the readers of the module-level functions refer to literally, in the order in which the function binds them
# (parameters, assigned names, nested function names and their parameters, by source position).  Parameters are listed
# only for private helpers that are never called with keyword arguments.
_TOP_LOCALS = {
    '_fmt_float': (False, ['res']),
    '_kv2_type_is_keyword': (False, ['folded']),
    'parse_vector': (False, ['parts']),
    '_conv_string_to_color': (False, ['parts']),
    '_conv_binary_to_matrix': (False, ['data', 'mat']),
    '_binconv_basic': (True, ['name', 'fmt', 'shape', 'unpack', 'byt', 'val', 'ns']),
    '_binconv_cls': (True, ['name', 'fmt', 'Tup', 'shape', 'ns', 'val', 'byt']),
}


def _alpha_by_order(fn: ast.FunctionDef, with_params: bool, canon: list[str], tree: ast.Module) -> ast.FunctionDef:
    """Alpha-rename the identifiers a function binds (nested scopes included) to the names the readers use, by the order
    of their first binding.  One injective renaming of every bound identifier over the whole function keeps its meaning
    as long as no new name captures a free one and nothing looks identifiers up by their text; when that cannot be
    established the function is returned as it is (and the readers fail closed on unknown names)."""
    import copy
    own = {id(a) for a in ast.walk(fn.args) if isinstance(a, ast.arg)}
    params = [a.arg for a in ast.walk(fn.args) if isinstance(a, ast.arg)]
    events = []
    for n in ast.walk(fn):
        if n is fn:
            continue
        if isinstance(n, (ast.Global, ast.Nonlocal, ast.Import, ast.ImportFrom, ast.ClassDef, ast.AsyncFunctionDef)) \
                or (isinstance(n, ast.ExceptHandler) and n.name is not None) or n.__class__.__name__ in ('Match', 'TypeAlias'):
            return fn
        if isinstance(n, ast.Name) and n.id in ('locals', 'vars', 'eval', 'exec', 'dir'):
            return fn
        if isinstance(n, ast.Name) and not isinstance(n.ctx, ast.Load):
            events.append((n.lineno, n.col_offset, n.id))
        elif isinstance(n, ast.arg) and (with_params or id(n) not in own):
            events.append((n.lineno, n.col_offset, n.arg))
        elif isinstance(n, ast.FunctionDef):
            events.append((n.lineno, n.col_offset, n.name))
    bound: list[str] = []
    for _, _, nm in sorted(events):
        if nm not in bound and (with_params or nm not in params):
            bound.append(nm)
    if len(bound) != len(canon) or bound == canon:
        return fn
    ren = dict(zip(bound, canon))
    free = {n.id for n in ast.walk(fn) if isinstance(n, ast.Name)} - set(bound)
    if not with_params:
        free |= set(params)
    if free & set(canon):
        return fn
    if with_params:        # no caller may name a parameter
        for c in ast.walk(tree):
            if isinstance(c, ast.Call) and isinstance(c.func, ast.Name) and c.func.id == fn.name and c.keywords:
                return fn
    for c in ast.walk(fn):  # nor a call inside the function a parameter of a nested function
        if isinstance(c, ast.Call) and any(k.arg in ren for k in c.keywords):
            return fn
    fn = copy.deepcopy(fn)
    for n in ast.walk(fn):
        if isinstance(n, ast.Name) and n.id in ren:
            n.id = ren[n.id]
        elif isinstance(n, ast.arg) and n.arg in ren:
            n.arg = ren[n.arg]
        elif isinstance(n, ast.FunctionDef) and n is not fn and n.name in ren:
            n.name = ren[n.name]
    return fn


def _top_func(tree: ast.Module, name: str) -> ast.FunctionDef:
    for n in tree.body:
        if isinstance(n, ast.FunctionDef) and n.name == name:
            if name in _TOP_LOCALS:
                return _alpha_by_order(n, _TOP_LOCALS[name][0], _TOP_LOCALS[name][1], tree)
            return n
    _fail(f'function {name} not found')


def _body(fn: ast.FunctionDef) -> list[ast.stmt]:
    """Statements of a function without its docstring; single-use locals inlined, `else` after a returning branch hoisted."""
    b = list(fn.body)
    if b and isinstance(b[0], ast.Expr) and isinstance(b[0].value, ast.Constant) and isinstance(b[0].value.value, str):
        b = b[1:]
    return _flatten_returns(_inline_single_use(b, {a.arg for a in ast.walk(fn.args) if isinstance(a, ast.arg)}))


def _binconv_shapes(tree: ast.Module) -> None:
    """_binconv_basic / _binconv_cls must be the recognised closures over `shape = Struct(fmt)`."""
    basic = [ast.unparse(x) for x in _body(_top_func(tree, '_binconv_basic'))]
    want_basic = ['shape = Struct(fmt)',
                  None,       # def unpack
                  'ns = globals()', "ns['_struct_' + name] = shape", "ns[f'_conv_{name}_to_binary'] = shape.pack",
                  "ns[f'_conv_binary_to_{name}'] = unpack"]
    fb = _body(_top_func(tree, '_binconv_basic'))
    if len(basic) != len(want_basic) or any(w is not None and w != g for w, g in zip(want_basic, basic)):
        _fail(f'_binconv_basic: unrecognised body {basic}')
    inner = fb[1]
    if not (isinstance(inner, ast.FunctionDef) and inner.name == 'unpack'
            and [ast.unparse(x) for x in _body(inner)] == ['[val] = shape.unpack(byt)', 'return val']):
        _fail('_binconv_basic: unrecognised inner unpack')
    cls = [ast.unparse(x) for x in _body(_top_func(tree, '_binconv_cls'))]
    if cls != ['shape = Struct(fmt)', 'ns = globals()', "ns['_struct_' + name] = shape",
               "ns[f'_conv_{name}_to_binary'] = lambda val: shape.pack(*val)",
               "ns[f'_conv_binary_to_{name}'] = lambda byt: Tup(*shape.unpack(byt))"]:
        _fail(f'_binconv_cls: unrecognised body {cls}')


ROUNDERS = {'round': 'RNearestEven', 'int': 'RTrunc', 'math.floor': 'RFloor', 'floor': 'RFloor',
            'math.ceil': 'RCeil', 'ceil': 'RCeil', 'math.trunc': 'RTrunc', 'trunc': 'RTrunc'}


def _int_valued_float(node: ast.AST, where) -> int:
    if not (isinstance(node, ast.Constant) and isinstance(node.value, (int, float)) and not isinstance(node.value, bool)
            and float(node.value) == int(node.value) and abs(node.value) < 2 ** 53):
        _fail(f'scale constant `{ast.unparse(node)}` is not an integer-valued number', where)
    return int(node.value)


def _time_codec(tree: ast.Module) -> dict:
    """_conv_time_to_binary: `return _struct_time.pack(ROUND(tim.value * C))`;
    _conv_binary_to_time: `[num] = _struct_time.unpack(byt); return Time(num / C)`."""
    w = _top_func(tree, '_conv_time_to_binary')
    arg = w.args.args[0].arg if len(w.args.args) == 1 else _fail('_conv_time_to_binary: one parameter expected', w)
    b = _body(w)
    if not (len(b) == 1 and isinstance(b[0], ast.Return) and isinstance(b[0].value, ast.Call)
            and ast.unparse(b[0].value.func) == '_struct_time.pack' and len(b[0].value.args) == 1 and not b[0].value.keywords):
        _fail('_conv_time_to_binary: `return _struct_time.pack(...)` expected', w)
    inner = b[0].value.args[0]
    if not (isinstance(inner, ast.Call) and ast.unparse(inner.func) in ROUNDERS and len(inner.args) == 1 and not inner.keywords):
        _fail(f'_conv_time_to_binary: unrecognised integer conversion `{ast.unparse(inner)}`', w)
    prod = inner.args[0]
    if not (isinstance(prod, ast.BinOp) and isinstance(prod.op, ast.Mult)):
        _fail(f'_conv_time_to_binary: unrecognised scaling `{ast.unparse(prod)}`', w)
    if ast.unparse(prod.left) == f'{arg}.value':
        mul = _int_valued_float(prod.right, w)
    elif ast.unparse(prod.right) == f'{arg}.value':
        mul = _int_valued_float(prod.left, w)
    else:
        _fail(f'_conv_time_to_binary: unrecognised scaling `{ast.unparse(prod)}`', w)
    r = _top_func(tree, '_conv_binary_to_time')
    rb = _body(r)
    rarg = r.args.args[0].arg if len(r.args.args) == 1 else _fail('_conv_binary_to_time: one parameter expected', r)
    # (the one-element unpacking `[num] = _struct_time.unpack(byt)` is read as `_struct_time.unpack(byt)[0]` by _body)
    if not (len(rb) == 1 and isinstance(rb[0], ast.Return)
            and isinstance(rb[0].value, ast.Call) and ast.unparse(rb[0].value.func) == 'Time' and len(rb[0].value.args) == 1
            and not rb[0].value.keywords and isinstance(rb[0].value.args[0], ast.BinOp)
            and isinstance(rb[0].value.args[0].op, ast.Div) and ast.unparse(rb[0].value.args[0].left) == f'_struct_time.unpack({rarg})[0]'):
        _fail('_conv_binary_to_time: `[num] = _struct_time.unpack(byt); return Time(num / C)` expected', r)
    div = _int_valued_float(rb[0].value.args[0].right, r)
    return {'round': ROUNDERS[ast.unparse(inner.func)], 'mul': mul, 'div': div, 'line': w.lineno}


def _mat_index(node: ast.AST, var: str, where) -> tuple[int, int]:
    if not (isinstance(node, ast.Subscript) and ast.unparse(node.value) == var and isinstance(node.slice, ast.Tuple)
            and len(node.slice.elts) == 2 and all(isinstance(e, ast.Constant) and isinstance(e.value, int) and e.value >= 0
                                                  for e in node.slice.elts)):
        _fail(f'unrecognised matrix cell `{ast.unparse(node)}`', where)
    return node.slice.elts[0].value, node.slice.elts[1].value


def _matrix_codec(tree: ast.Module) -> dict:
    w = _top_func(tree, '_conv_matrix_to_binary')
    arg = w.args.args[0].arg if len(w.args.args) == 1 else _fail('_conv_matrix_to_binary: one parameter expected', w)
    b = _body(w)
    if not (len(b) == 1 and isinstance(b[0], ast.Return) and isinstance(b[0].value, ast.Call)
            and ast.unparse(b[0].value.func) == '_struct_matrix.pack' and not b[0].value.keywords):
        _fail('_conv_matrix_to_binary: `return _struct_matrix.pack(...)` expected', w)
    slots = []
    for a in b[0].value.args:
        if isinstance(a, ast.Constant) and isinstance(a.value, (int, float)) and not isinstance(a.value, bool) and a.value in (0, 1):
            slots.append('MOne' if a.value == 1 else 'MZero')
        else:
            r, c = _mat_index(a, arg, w)
            slots.append(f'MCell {r} {c}')
    r = _top_func(tree, '_conv_binary_to_matrix')
    rarg = r.args.args[0].arg if len(r.args.args) == 1 else _fail('_conv_binary_to_matrix: one parameter expected', r)
    rb = _body(r)
    if not (len(rb) >= 3 and ast.unparse(rb[0]) == f'data = _struct_matrix.unpack({rarg})' and ast.unparse(rb[1]) == 'mat = Matrix()'
            and ast.unparse(rb[-1]) == 'return mat.freeze()'):
        _fail('_conv_binary_to_matrix: unrecognised frame', r)
    cells = []
    for st in rb[2:-1]:
        if not (isinstance(st, ast.Assign) and len(st.targets) == 1):
            _fail(f'_conv_binary_to_matrix: unrecognised statement `{ast.unparse(st)}`', st)
        tg, val = st.targets[0], st.value
        tgs = list(tg.elts) if isinstance(tg, ast.Tuple) else [tg]
        if not (isinstance(val, ast.Subscript) and ast.unparse(val.value) == 'data'):
            _fail(f'_conv_binary_to_matrix: unrecognised source `{ast.unparse(val)}`', st)
        sl = val.slice
        if isinstance(sl, ast.Slice):
            if not (sl.step is None and isinstance(sl.lower, ast.Constant) and isinstance(sl.upper, ast.Constant)
                    and isinstance(sl.lower.value, int) and isinstance(sl.upper.value, int)
                    and 0 <= sl.lower.value and sl.upper.value - sl.lower.value == len(tgs) and isinstance(tg, ast.Tuple)):
                _fail(f'_conv_binary_to_matrix: slice `{ast.unparse(val)}` does not match its {len(tgs)} targets', st)
            idx = list(range(sl.lower.value, sl.upper.value))
        elif isinstance(sl, ast.Constant) and isinstance(sl.value, int) and sl.value >= 0 and not isinstance(tg, ast.Tuple):
            idx = [sl.value]
        else:
            _fail(f'_conv_binary_to_matrix: unrecognised index `{ast.unparse(val)}`', st)
        for t, i in zip(tgs, idx):
            rr, cc = _mat_index(t, 'mat', st)
            cells.append((rr, cc, i))
    return {'pack': slots, 'unpack': cells, 'line': w.lineno}


# ------------------------------------------------------------------------------------------------ header / unicode modes
UMODES = ['ascii', 'format', 'silent']


def _mode_pred(node: ast.AST, where) -> dict:
    """A test over the string-valued parameter `unicode` -> truth value for each of the three modes."""
    if isinstance(node, ast.Compare) and isinstance(node.left, ast.Name) and node.left.id == 'unicode' and len(node.ops) == 1:
        op, rhs = node.ops[0], node.comparators[0]
        if isinstance(op, (ast.Eq, ast.NotEq)) and isinstance(rhs, ast.Constant) and isinstance(rhs.value, str):
            return {m: (m == rhs.value) == isinstance(op, ast.Eq) for m in UMODES}
        if isinstance(op, (ast.In, ast.NotIn)) and isinstance(rhs, (ast.Tuple, ast.List, ast.Set)) \
                and all(isinstance(e, ast.Constant) and isinstance(e.value, str) for e in rhs.elts):
            vals = {e.value for e in rhs.elts}
            return {m: (m in vals) == isinstance(op, ast.In) for m in UMODES}
    if isinstance(node, ast.BoolOp):
        parts = [_mode_pred(v, where) for v in node.values]
        f = all if isinstance(node.op, ast.And) else any
        return {m: f(p_[m] for p_ in parts) for m in UMODES}
    if isinstance(node, ast.UnaryOp) and isinstance(node.op, ast.Not):
        return {m: not v for m, v in _mode_pred(node.operand, where).items()}
    _fail(f'unrecognised test on the unicode mode `{ast.unparse(node)}`', where)


def _ifexp_modes(node: ast.AST, yes, no, where) -> dict:
    """`YES if <mode test> else NO` -> per mode: is it YES?  A constant is that answer for every mode (the obligations on
    gen_hdr then say which mode loses its text)."""
    if isinstance(node, ast.Constant) and (node.value in yes or node.value in no):
        return {m: node.value in yes for m in UMODES}
    if isinstance(node, ast.IfExp) and isinstance(node.body, ast.Constant) and isinstance(node.orelse, ast.Constant):
        pred = _mode_pred(node.test, where)
        if node.body.value in yes and node.orelse.value in no:
            return pred
        if node.body.value in no and node.orelse.value in yes:
            return {m: not v for m, v in pred.items()}
    _fail(f'unrecognised mode-dependent expression `{ast.unparse(node)}`', where)


def _ifexp_bool(node: ast.AST, yes, no, where) -> dict:
    """`YES if unicode else NO` over the boolean `unicode` of the readers -> {True: is YES?, False: ...}; a constant is that
    answer for both."""
    if isinstance(node, ast.Constant) and (node.value in yes or node.value in no):
        return {True: node.value in yes, False: node.value in yes}
    if isinstance(node, ast.IfExp) and isinstance(node.body, ast.Constant) and isinstance(node.orelse, ast.Constant):
        t = node.test
        neg = False
        if isinstance(t, ast.UnaryOp) and isinstance(t.op, ast.Not):
            t, neg = t.operand, True
        if isinstance(t, ast.Name) and t.id == 'unicode':
            if node.body.value in yes and node.orelse.value in no:
                return {True: not neg, False: neg}
            if node.body.value in no and node.orelse.value in yes:
                return {True: neg, False: not neg}
    _fail(f'unrecognised expression `{ast.unparse(node)}`', where)


UTF8, ASCII = ('utf8', 'utf-8', 'UTF-8', 'utf_8'), ('ascii', 'ASCII')


def _writer_modes(fn: ast.FunctionDef) -> tuple[dict, dict]:
    """(header flag per mode, utf8 per mode) of export_binary / export_kv2."""
    flags = [n for n in ast.walk(fn) if isinstance(n, ast.IfExp) and isinstance(n.body, ast.Constant) and isinstance(n.orelse, ast.Constant)
             and {n.body.value, n.orelse.value} == {b'unicode_', b''}]
    if not flags:
        flag = {m: False for m in UMODES}         # the marker is never written
    elif all(ast.dump(f) == ast.dump(flags[0]) for f in flags):
        flag = _ifexp_modes(flags[0], (b'unicode_',), (b'',), fn)
    else:
        _fail(f'{fn.name}: different unicode_ marker expressions', fn)
    enc = [n for n in ast.walk(fn) if isinstance(n, ast.Assign) and ast.unparse(n.targets[0]) == 'encoding']
    if len(enc) != 1:
        _fail(f'{fn.name}: expected one `encoding = ...`', fn)
    return flag, _ifexp_modes(enc[0].value, UTF8, ASCII, enc[0])


def _header_cfg(tree: ast.Module) -> dict:
    out = {}
    out['hb_flag'], out['hb_utf8'] = _writer_modes(_func(tree, 'Element', 'export_binary'))
    out['hk_flag'], out['hk_utf8'] = _writer_modes(_func(tree, 'Element', 'export_kv2'))
    p = _func(tree, 'Element', 'parse')
    # the header regex must capture the optional marker as its first group, bound to unicode_flag
    regs = [n for n in ast.walk(p) if isinstance(n, ast.Constant) and isinstance(n.value, bytes) and b'encoding' in n.value]
    if len(regs) != 1 or not regs[0].value.startswith(rb'<!--\s*dmx\s+encoding\s+(unicode_)?('):
        _fail('parse: the header pattern does not start with the optional (unicode_) group', p)
    if not any(isinstance(n, ast.Assign) and ast.unparse(n.targets[0]).startswith('(unicode_flag,') and ast.unparse(n.value) == 'match.groups()'
               for n in ast.walk(p)):
        _fail('parse: `unicode_flag, ... = match.groups()` not found', p)
    sets = [n for n in ast.walk(p) if isinstance(n, ast.If) and ast.unparse(n.test) == 'unicode_flag']
    if not sets:
        out['flag_sets'] = False
    elif len(sets) == 1 and [ast.unparse(x) for x in sets[0].body] == ['unicode = True'] and not sets[0].orelse:
        out['flag_sets'] = True
    else:
        _fail('parse: unrecognised use of unicode_flag', p)
    wr = [n for n in ast.walk(p) if isinstance(n, ast.Call) and ast.unparse(n.func) == 'io.TextIOWrapper']
    if len(wr) != 1 or [k.arg for k in wr[0].keywords] != ['encoding'] or [ast.unparse(a) for a in wr[0].args] != ['file']:
        _fail('parse: `io.TextIOWrapper(file, encoding=...)` not recognised', p)
    out['kv2_utf8'] = _ifexp_bool(wr[0].keywords[0].value, UTF8, ASCII, wr[0])
    pb = [n for n in ast.walk(p) if isinstance(n, ast.Call) and ast.unparse(n.func) == 'cls.parse_bin']
    if len(pb) != 1 or [ast.unparse(a) for a in pb[0].args] != ['file', 'enc_vers', 'unicode'] or pb[0].keywords:
        _fail('parse: `cls.parse_bin(file, enc_vers, unicode)` not recognised', p)
    b = _func(tree, 'Element', 'parse_bin')
    enc = [n for n in ast.walk(b) if isinstance(n, ast.Assign) and ast.unparse(n.targets[0]) == 'encoding']
    if len(enc) != 1:
        _fail('parse_bin: expected one `encoding = ...`', b)
    out['bin_utf8'] = _ifexp_bool(enc[0].value, UTF8, ASCII, enc[0])
    return out


# ------------------------------------------------------------------------------------------------ value strings (KV2)
VEC_TEXT = {'vec2': 'TVec2', 'vec3': 'TVec3', 'vec4': 'TVec4', 'angle': 'TAngle', 'quaternion': 'TQuat'}


def _alias(tree: ast.Module, name: str) -> str:
    """`name = <dotted name>` at module level -> the dotted name."""
    for n in tree.body:
        if isinstance(n, ast.Assign) and len(n.targets) == 1 and isinstance(n.targets[0], ast.Name) and n.targets[0].id == name:
            if isinstance(n.value, (ast.Name, ast.Attribute)):
                return ast.unparse(n.value)
            _fail(f'{name}: not an alias of a function', n)
    _fail(f'{name} not found')


def _joined_parts(node: ast.AST, var: str, where, wrap: str | None) -> tuple[list[str], list[str]]:
    """An f-string `{W(var.c1)}<sep>{W(var.c2)}...` -> (component names, separators)."""
    if not isinstance(node, ast.JoinedStr):
        _fail(f'expected an f-string, found `{ast.unparse(node)}`', where)
    comps, seps = [], []
    expect_val = True
    for v in node.values:
        if isinstance(v, ast.FormattedValue):
            if not expect_val or v.conversion != -1 or v.format_spec is not None:
                _fail(f'unrecognised f-string `{ast.unparse(node)}`', where)
            inner = v.value
            if wrap is not None:
                if not (isinstance(inner, ast.Call) and ast.unparse(inner.func) == wrap and len(inner.args) == 1 and not inner.keywords):
                    _fail(f'component not formatted with {wrap}: `{ast.unparse(inner)}`', where)
                inner = inner.args[0]
            if not (isinstance(inner, ast.Attribute) and ast.unparse(inner.value) == var):
                _fail(f'unrecognised component `{ast.unparse(inner)}`', where)
            comps.append(inner.attr)
            expect_val = False
        elif isinstance(v, ast.Constant) and isinstance(v.value, str):
            if expect_val:
                _fail(f'unrecognised f-string `{ast.unparse(node)}`', where)
            seps.append(v.value)
            expect_val = True
        else:
            _fail(f'unrecognised f-string `{ast.unparse(node)}`', where)
    if expect_val:
        _fail(f'f-string ends with a separator `{ast.unparse(node)}`', where)
    return comps, seps


def _value_text(tree: ast.Module) -> dict:
    out: dict = {}
    # _fmt_float
    f = _top_func(tree, '_fmt_float')
    arg = f.args.args[0].arg if len(f.args.args) == 1 else _fail('_fmt_float: one parameter expected', f)
    body = _body(f)
    m = None
    if len(body) == 3 and ast.unparse(body[1]) == "if res.endswith('.'):\n    return res[:-1]" and ast.unparse(body[2]) == 'return res':
        m = re.fullmatch(r"res = format\((.+), '\.(\d+)f'\)\.rstrip\('0'\)", ast.unparse(body[0]))
        strips = True
    elif len(body) == 1:
        m = re.fullmatch(r"return format\((.+), '\.(\d+)f'\)", ast.unparse(body[0]))
        strips = False
    if m is None:
        _fail(f'_fmt_float: unrecognised body {[ast.unparse(x) for x in body]}', f)
    if m.group(1) == arg:
        adds_zero = False
    elif m.group(1).replace(' ', '') in (f'{arg}+0.0', f'0.0+{arg}'):
        adds_zero = True
    else:
        _fail(f'_fmt_float: unrecognised operand `{m.group(1)}`', f)
    out['float_fmt'] = {'adds_zero': adds_zero, 'places': int(m.group(2)), 'strips': strips, 'line': f.lineno}
    # scalar aliases
    out['int_funcs'] = (_alias(tree, '_conv_integer_to_string'), _alias(tree, '_conv_string_to_integer'))
    out['float_funcs'] = (_alias(tree, '_conv_float_to_string'), _alias(tree, '_conv_string_to_float'))
    # vectors
    written, read = [], []
    for key, coq in VEC_TEXT.items():
        w = _top_func(tree, f'_conv_{key}_to_string')
        warg = w.args.args[0].arg if len(w.args.args) == 1 else _fail(f'{w.name}: one parameter expected', w)
        wb = _body(w)
        if not (len(wb) == 1 and isinstance(wb[0], ast.Return)):
            _fail(f'{w.name}: a single return expected', w)
        comps, seps = _joined_parts(wb[0].value, warg, w, '_fmt_float')
        if any(s_ != ' ' for s_ in seps):
            _fail(f'{w.name}: components not separated by single spaces', w)
        written.append((coq, comps))
        r = _top_func(tree, f'_conv_string_to_{key}')
        rarg = r.args.args[0].arg if len(r.args.args) == 1 else _fail(f'{r.name}: one parameter expected', r)
        rb = _body(r)
        mm = re.fullmatch(r'return (\w+(?:\._make)?)\(parse_vector\(' + rarg + r', (\d+)\)\)', ast.unparse(rb[0])) if len(rb) == 1 else None
        if mm is None:
            _fail(f'{r.name}: `return Cls(parse_vector(text, N))` expected', r)
        read.append((coq, int(mm.group(2))))
    out['vec_written'], out['vec_read'] = written, read
    pv = [ast.unparse(x) for x in _body(_top_func(tree, 'parse_vector'))]
    if pv != ['parts = text.split()', "if len(parts) != count:\n    raise ValueError(f'{text!r} is not a {count}-dimensional vector!')",
              'return list(map(float, parts))']:
        _fail(f'parse_vector: unrecognised body {pv}')
    # colour
    w = _top_func(tree, '_conv_color_to_string')
    warg = w.args.args[0].arg
    wb = _body(w)
    if not (len(wb) == 1 and isinstance(wb[0], ast.Return)):
        _fail('_conv_color_to_string: a single return expected', w)
    comps, seps = _joined_parts(wb[0].value, warg, w, None)
    if any(s_ != ' ' for s_ in seps):
        _fail('_conv_color_to_string: components not separated by single spaces', w)
    out['color_written'] = comps
    r = _top_func(tree, '_conv_string_to_color')
    rarg = r.args.args[0].arg
    rb = _body(r)
    if not (len(rb) >= 3 and ast.unparse(rb[0]) == f'parts = {rarg}.split()' and all(isinstance(x, ast.If) and not x.orelse for x in rb[1:-1])
            and isinstance(rb[-1], ast.Raise)):
        _fail('_conv_string_to_color: unrecognised frame (parts = text.split(); returning branches on len(parts); raise)', r)
    reads = []
    for node in rb[1:-1]:
        mm = re.fullmatch(r'len\(parts\) == (\d+)', ast.unparse(node.test))
        if mm is None or len(node.body) != 1 or not isinstance(node.body[0], ast.Return):
            _fail(f'_conv_string_to_color: unrecognised branch `{ast.unparse(node.test)}`', node)
        call = node.body[0].value
        if not (isinstance(call, ast.Call) and ast.unparse(call.func) == 'Color' and not call.keywords):
            _fail('_conv_string_to_color: `return Color(...)` expected', node)
        args = []
        for a in call.args:
            ma = re.fullmatch(r'int\(parts\[(\d+)\]\)', ast.unparse(a))
            if ma:
                args.append(f'CPart {ma.group(1)}')
            elif isinstance(a, ast.Constant) and isinstance(a.value, int) and not isinstance(a.value, bool):
                args.append(f'CConst ({a.value})%Z')
            else:
                _fail(f'_conv_string_to_color: unrecognised argument `{ast.unparse(a)}`', node)
        reads.append((int(mm.group(1)), args))
    out['color_read'] = reads
    # binary blobs
    w = _top_func(tree, '_conv_binary_to_string')
    warg = w.args.args[0].arg if len(w.args.args) == 1 else _fail('_conv_binary_to_string: one parameter expected', w)
    wb = _body(w)
    mm = re.fullmatch(r"return " + warg + r"\.hex\('(.*)', (-?\d+)\)(\.upper\(\))?", ast.unparse(wb[0])) if len(wb) == 1 else None
    if mm is None:
        _fail(f'_conv_binary_to_string: `return byt.hex(sep, n)[.upper()]` expected, found {[ast.unparse(x) for x in wb]}', w)
    if int(mm.group(2)) < 0 or len(mm.group(1)) != 1:
        _fail('_conv_binary_to_string: unsupported separator / group size', w)
    out['hex'] = {'sep': mm.group(1), 'group': int(mm.group(2)), 'upper': mm.group(3) is not None}
    if _alias(tree, '_conv_string_to_binary') != 'bytes.fromhex':
        _fail('_conv_string_to_binary is not bytes.fromhex')
    return out


# ------------------------------------------------------------------------------------------------ KV2
KV2_FIELDS = {'self.type': 'type', 'self.name': 'name', 'attr.name': 'attrname', 'str_value': 'array_value',
              'attr.val_str': 'scalar_value'}
KV2_SAFE = {'str(self.uuid)', 'str(child.uuid)', 'attr.type.value'}     # hex digits / enum constants: no escaping needed


def _export_kv2(fn: ast.FunctionDef) -> dict:
    fields: dict = {}
    for c in ast.walk(fn):
        if not (isinstance(c, ast.Call) and isinstance(c.func, ast.Attribute) and c.func.attr == 'encode'):
            continue
        if len(c.args) != 1 or c.keywords:
            _fail(f'_export_kv2: unrecognised `{ast.unparse(c)}`', c)
        recv = c.func.value
        rs = ast.unparse(recv)
        if rs in KV2_SAFE:
            continue
        escaped = False
        if isinstance(recv, ast.Call) and ast.unparse(recv.func) == 'escape_text' and len(recv.args) == 1 and not recv.keywords:
            escaped = True
            rs = ast.unparse(recv.args[0])
        if rs not in KV2_FIELDS:
            _fail(f'_export_kv2: unclassified interpolated field `{ast.unparse(c)}`', c)
        k = KV2_FIELDS[rs]
        if k in fields:
            _fail(f'_export_kv2: field {k} written twice', c)
        a = c.args[0]
        if isinstance(a, ast.Name) and a.id == 'encoding':
            enc_file = True
        elif isinstance(a, ast.Constant) and a.value == 'ascii':
            enc_file = False
        else:
            _fail(f'_export_kv2: unrecognised codec `{ast.unparse(a)}`', c)
        fields[k] = {'escaped': escaped, 'enc_file': enc_file, 'line': c.lineno}
    if set(fields) != set(KV2_FIELDS.values()):
        _fail(f'_export_kv2: fields found {sorted(fields)}')
    return fields



def _ref_cond(node: ast.AST, where) -> str:
    """A condition of the reference if-chain over the atoms is_null / is_stub / uuid in roots."""
    src = ast.unparse(node)
    if src in ('child.is_null', 'child is NULL'):
        return 'CNull'
    if src == 'child.is_stub':
        return 'CStub'
    if src == 'isinstance(child, StubElement)':      # NULL is a StubElement too (is_stub is false for it)
        return '(COr CStub CNull)'
    if src == 'child.uuid in roots':
        return 'CRoot'
    if src == 'child.uuid not in roots':
        return '(CNot CRoot)'
    if isinstance(node, ast.BoolOp) and isinstance(node.op, (ast.Or, ast.And)):
        parts = [_ref_cond(v, where) for v in node.values]
        op = 'COr' if isinstance(node.op, ast.Or) else 'CAnd'
        out = parts[-1]
        for p_ in reversed(parts[:-1]):
            out = f'({op} {p_} {out})'
        return out
    if isinstance(node, ast.UnaryOp) and isinstance(node.op, ast.Not):
        return f'(CNot {_ref_cond(node.operand, where)})'
    _fail(f'_export_kv2: unrecognised reference condition `{src}`', where)


def _ref_action(body: list[ast.stmt], where) -> str:
    srcs = [ast.unparse(s) for s in body]
    def is_write(s, lit):
        return s.startswith('file.write(') and lit in s
    if len(srcs) == 1 and is_write(srcs[0], '"element" ""') and '%' not in srcs[0]:
        return 'ANullRef'
    if len(srcs) == 1 and is_write(srcs[0], '"element" "%b"') and "% str(child.uuid).encode('ascii')" in srcs[0]:
        return 'AUuidRef'
    if srcs and srcs[0].startswith('child._export_kv2(') and all(s == "file.write(b'\\r\\n')" for s in srcs[1:]):
        return 'AInline'
    _fail(f'_export_kv2: unrecognised reference branch {srcs}', where)


def _kv2_ref_tables(fn: ast.FunctionDef) -> dict:
    """The two if-chains of _export_kv2 that decide how an element value is written: inside the array loop
    (`for i, child in enumerate(attr._value)`) and for a scalar attribute."""
    par = _parents(fn)
    chains = [n for n in ast.walk(fn) if isinstance(n, ast.If) and not (isinstance(par.get(n), ast.If) and n in par[n].orelse and len(par[n].orelse) == 1
                                                                        and 'child' in ast.unparse(par[n].test))
              and any(isinstance(x, ast.Call) and ast.unparse(x.func) == 'child._export_kv2' for x in ast.walk(n))
              and 'child' in ast.unparse(n.test) and 'isinstance(child, Element)' != ast.unparse(n.test)]
    out = {}
    for ch in chains:
        table = []
        node = ch
        while True:
            table.append((_ref_cond(node.test, node), _ref_action(node.body, node)))
            if len(node.orelse) == 1 and isinstance(node.orelse[0], ast.If):
                node = node.orelse[0]
                continue
            if not node.orelse:
                _fail('_export_kv2: reference if-chain without else', node)
            table.append(('CTrue', _ref_action(node.orelse, node)))
            break
        # which site: inside a For over attr._value -> array
        p_ = ch
        site = 'scalar'
        while p_ in par:
            p_ = par[p_]
            if isinstance(p_, ast.For) and 'attr._value' in ast.unparse(p_.iter):
                site = 'array'
                break
        if site in out:
            _fail(f'_export_kv2: two reference if-chains for the {site} site', ch)
        out[site] = {'table': table, 'line': ch.lineno}
    if set(out) != {'scalar', 'array'}:
        _fail(f'_export_kv2: reference if-chains found for {sorted(out)}')
    return out


def _kv2_tokenizer_kwargs(fn: ast.FunctionDef) -> list[tuple[str, bool]]:
    """parse_kv2: `tok = Tokenizer(file, <bool keywords>)` — the tokenizer options the KV2 parser runs with."""
    calls = [n for n in ast.walk(fn) if isinstance(n, ast.Call) and ast.unparse(n.func) == 'Tokenizer']
    if len(calls) != 1:
        _fail(f'parse_kv2: expected one Tokenizer(...) call, found {len(calls)}')
    c = calls[0]
    # Tokenizer(data, filename=None, error=..., *, <options>): the file name only labels error messages
    if not c.args or ast.unparse(c.args[0]) != 'file' or len(c.args) > 2 or (len(c.args) == 2 and not _pure_arg(c.args[1])):
        _fail(f'parse_kv2: unrecognised `{ast.unparse(c)}`', c)
    c.keywords = [k for k in c.keywords if not (k.arg == 'filename' and len(c.args) == 1 and _pure_arg(k.value))]
    out = []
    known = {'string_bracket', 'string_parens', 'allow_escapes', 'allow_star_comments', 'preserve_comments',
             'colon_operator', 'plus_operator'}
    for k in c.keywords:
        if k.arg not in known or not (isinstance(k.value, ast.Constant) and isinstance(k.value.value, bool)):
            _fail(f'parse_kv2: unrecognised tokenizer option `{ast.unparse(k)}`', c)
        out.append((k.arg, k.value.value))
    return out


def _kv2_keyword_roots(tree: ast.Module, fn: ast.FunctionDef) -> tuple[bool, int]:
    """export_kv2: in the nested layout, are elements whose type is an attribute type keyword made roots?
    Recognised form: `roots.update(elem.uuid for elem in elements if _kv2_type_is_keyword(elem.type))` in the
    non-flat branch, with `_kv2_type_is_keyword` the recognised predicate (casefold, 'elementid', strip '_array',
    ValueType lookup).  Absent -> False (inline elements of such types cannot be parsed back)."""
    upd = [n for n in ast.walk(fn) if isinstance(n, ast.Call) and ast.unparse(n.func) == 'roots.update']
    if not upd:
        return False, fn.lineno
    ok = len(upd) == 1 and len(upd[0].args) == 1 and not upd[0].keywords and isinstance(upd[0].args[0], (ast.GeneratorExp, ast.SetComp, ast.ListComp))
    if ok:
        ge = upd[0].args[0]
        ok = len(ge.generators) == 1 and isinstance(ge.generators[0].target, ast.Name) and not ge.generators[0].is_async
        if ok:
            x = ge.generators[0].target.id
            ok = (ast.unparse(ge.generators[0].iter) == 'elements' and ast.unparse(ge.elt) == f'{x}.uuid'
                  and [ast.unparse(c) for c in ge.generators[0].ifs] == [f'_kv2_type_is_keyword({x}.type)'])
    if not ok:
        _fail(f'export_kv2: unrecognised `{ast.unparse(upd[0])}`', upd[0])
    par = _parents(fn)
    p_ = upd[0]
    in_else = False
    while p_ in par:
        child, p_ = p_, par[p_]
        if isinstance(p_, ast.If) and ast.unparse(p_.test) == 'flat':
            in_else = any(child is x or child in ast.walk(x) for x in p_.orelse)
            break
    if not in_else:
        _fail('export_kv2: roots.update(...) is not in the non-flat branch', upd[0])
    pred = _top_func(tree, '_kv2_type_is_keyword')
    body = [ast.unparse(x) for x in _body(pred)]
    arg = pred.args.args[0].arg if len(pred.args.args) == 1 else _fail('_kv2_type_is_keyword: one parameter expected', pred)
    want = [f'folded = {arg}.casefold()', "if folded == 'elementid':\n    return True",
            "if folded.endswith('_array'):\n    folded = folded[:-6]",
            'try:\n    ValueType(folded)\nexcept ValueError:\n    return False', 'return True']
    if body != want:
        _fail(f'_kv2_type_is_keyword: unrecognised body {body}', pred)
    return True, upd[0].lineno


def _int_const(n: ast.AST, where, what: str) -> int:
    if isinstance(n, ast.Constant) and isinstance(n.value, int) and not isinstance(n.value, bool) and n.value >= 0:
        return n.value
    _fail(f'export_kv2: {what}: a non-negative integer constant expected, found `{ast.unparse(n)}`', where)


RCMP = {ast.Gt: 'RGt', ast.GtE: 'RGe', ast.NotEq: 'RNe', ast.Eq: 'REq', ast.Lt: 'RLt', ast.LtE: 'RLe'}


def _kv2_roots(fn: ast.FunctionDef) -> dict:
    """export_kv2: how `use_count` is built and which elements become roots (written at the top level and referred to
    by UUID) -> the fields of Fmt/DmxKv2Graph.v rootcfg.  The locals have their canonical names (_canon_locals)."""
    body = _strip_doc(fn.body)
    out: dict = {}
    init = [n for n in body if isinstance(n, ast.Assign) and ast.unparse(n.targets[0]) == 'use_count']
    if len(init) != 1 or not (isinstance(init[0].value, ast.Dict) and len(init[0].value.keys) == 1 and init[0].value.keys[0] is not None
                              and ast.unparse(init[0].value.keys[0]) == 'self.uuid'):
        _fail('export_kv2: `use_count = {self.uuid: K}` not found exactly once', fn)
    out['self_count'] = _int_const(init[0].value.values[0], init[0], 'initial count of the exported element')
    if not any(isinstance(n, ast.Assign) and ast.unparse(n) == 'elements = [self]' for n in body):
        _fail('export_kv2: `elements = [self]` not found', fn)

    def stores_count(n):
        return any(isinstance(x, (ast.Assign, ast.AugAssign)) and 'use_count[' in ast.unparse(x.targets[0] if isinstance(x, ast.Assign) else x.target)
                   for x in ast.walk(n))
    loops = [n for n in body if isinstance(n, ast.For) and ast.unparse(n.iter) == 'elements' and ast.unparse(n.target) == 'elem' and stores_count(n)]
    if len(loops) != 1 or loops[0].orelse:
        _fail(f'export_kv2: expected one `for elem in elements` loop that fills use_count, found {len(loops)}', fn)
    stmts = [x for x in loops[0].body if not (isinstance(x, ast.AnnAssign) and x.value is None)]
    if not (len(stmts) == 1 and isinstance(stmts[0], ast.For) and ast.unparse(stmts[0].target) == 'attr' and not stmts[0].orelse
            and ast.unparse(stmts[0].iter) in ('elem.values()', 'elem._members.values()')):
        _fail('export_kv2: the counting loop is not `for attr in elem.values()`', loops[0])
    inner = stmts[0].body
    is_elem = ('attr.type is ValueType.ELEMENT', 'attr.type == ValueType.ELEMENT')
    not_elem = ('attr.type is not ValueType.ELEMENT', 'attr.type != ValueType.ELEMENT')
    if (len(inner) == 2 and isinstance(inner[0], ast.If) and ast.unparse(inner[0].test) in not_elem and not inner[0].orelse
            and len(inner[0].body) == 1 and isinstance(inner[0].body[0], ast.Continue)):
        sub = inner[1]
    elif len(inner) == 1 and isinstance(inner[0], ast.If) and ast.unparse(inner[0].test) in is_elem and not inner[0].orelse and len(inner[0].body) == 1:
        sub = inner[0].body[0]
    else:
        _fail('export_kv2: the counting loop does not select the ELEMENT attributes in a recognised way', stmts[0])
    if not (isinstance(sub, ast.For) and ast.unparse(sub.target) == 'subelem' and ast.unparse(sub.iter) == 'attr.iter_elem()' and not sub.orelse):
        _fail('export_kv2: `for subelem in attr.iter_elem()` not found in the counting loop', stmts[0])
    sb = list(sub.body)
    out['skip_stubs'] = False
    # NULL is a StubElement whose is_stub is false: `subelem.is_stub` alone would count NULL as an element
    stub_tests = ('isinstance(subelem, StubElement)', 'subelem.is_stub or subelem.is_null', 'subelem.is_null or subelem.is_stub',
                  'subelem.is_stub or subelem is NULL', 'subelem is NULL or subelem.is_stub')
    if sb and isinstance(sb[0], ast.If) and ast.unparse(sb[0].test) in stub_tests and not sb[0].orelse \
            and len(sb[0].body) == 1 and isinstance(sb[0].body[0], ast.Continue):
        out['skip_stubs'] = True
        sb = sb[1:]
    elif len(sb) == 1 and isinstance(sb[0], ast.If) and ast.unparse(sb[0].test) in tuple(f'not {t}' if ' or ' not in t else f'not ({t})' for t in stub_tests) and not sb[0].orelse:
        out['skip_stubs'] = True
        sb = list(sb[0].body)
    if not (len(sb) == 1 and isinstance(sb[0], ast.If) and sb[0].orelse):
        _fail(f'export_kv2: unrecognised body of the counting loop {[ast.unparse(x) for x in sb]}', sub)
    t = ast.unparse(sb[0].test)
    if t == 'subelem.uuid not in use_count':
        first, again = sb[0].body, sb[0].orelse
    elif t == 'subelem.uuid in use_count':
        first, again = sb[0].orelse, sb[0].body
    else:
        _fail(f'export_kv2: unrecognised first-use test `{t}`', sb[0])
    fsrc = sorted(ast.unparse(x) for x in first)
    fa = [x for x in first if isinstance(x, ast.Assign) and ast.unparse(x.targets[0]) == 'use_count[subelem.uuid]']
    if len(first) != 2 or len(fa) != 1 or 'elements.append(subelem)' not in fsrc:
        _fail(f'export_kv2: unrecognised first-use branch {fsrc}', sb[0])
    out['first'] = _int_const(fa[0].value, fa[0], 'count at the first use')
    if len(again) == 1 and isinstance(again[0], ast.AugAssign) and isinstance(again[0].op, ast.Add) and ast.unparse(again[0].target) == 'use_count[subelem.uuid]':
        out['incr'] = _int_const(again[0].value, again[0], 'increment')
    elif (len(again) == 1 and isinstance(again[0], ast.Assign) and ast.unparse(again[0].targets[0]) == 'use_count[subelem.uuid]'
          and isinstance(again[0].value, ast.BinOp) and isinstance(again[0].value.op, ast.Add) and ast.unparse(again[0].value.left) == 'use_count[subelem.uuid]'):
        out['incr'] = _int_const(again[0].value.right, again[0], 'increment')
    else:
        _fail(f'export_kv2: unrecognised repeated-use branch {[ast.unparse(x) for x in again]}', sb[0])
    # the roots
    sel = [n for n in body if isinstance(n, ast.If) and ast.unparse(n.test) in ('flat', 'not flat')
           and any(isinstance(x, ast.Assign) and ast.unparse(x.targets[0]) == 'roots' for x in ast.walk(n))]
    if len(sel) != 1:
        _fail(f'export_kv2: expected one `if flat:` that assigns roots, found {len(sel)}', fn)
    fl, nf = (sel[0].body, sel[0].orelse) if ast.unparse(sel[0].test) == 'flat' else (sel[0].orelse, sel[0].body)
    out['flat_all'] = [ast.unparse(x) for x in fl] in (['roots = set(use_count)'], ['roots = set(use_count.keys())'])
    if not out['flat_all']:
        _fail(f'export_kv2: unrecognised flat branch {[ast.unparse(x) for x in fl]}', sel[0])
    ra = [x for x in nf if isinstance(x, ast.Assign) and ast.unparse(x.targets[0]) == 'roots']
    if len(ra) != 1 or nf[0] is not ra[0] or not isinstance(ra[0].value, ast.SetComp):
        _fail('export_kv2: the nested branch does not start with `roots = {... for ... in use_count.items() if ...}`', sel[0])
    sc = ra[0].value
    g0 = sc.generators[0] if len(sc.generators) == 1 else _fail('export_kv2: unrecognised roots comprehension', ra[0])
    if not (isinstance(g0.target, ast.Tuple) and len(g0.target.elts) == 2 and all(isinstance(e, ast.Name) for e in g0.target.elts)
            and ast.unparse(g0.iter) == 'use_count.items()' and ast.unparse(sc.elt) == g0.target.elts[0].id and len(g0.ifs) == 1
            and isinstance(g0.ifs[0], ast.Compare) and len(g0.ifs[0].ops) == 1 and type(g0.ifs[0].ops[0]) in RCMP
            and ast.unparse(g0.ifs[0].left) == g0.target.elts[1].id):
        _fail(f'export_kv2: unrecognised roots comprehension `{ast.unparse(sc)}`', ra[0])
    out['cmp'] = RCMP[type(g0.ifs[0].ops[0])]
    out['thr'] = _int_const(g0.ifs[0].comparators[0], ra[0], 'threshold of the use count')
    for x in nf[1:]:
        if not (isinstance(x, ast.Expr) and isinstance(x.value, ast.Call) and ast.unparse(x.value.func) == 'roots.update'):
            _fail(f'export_kv2: unrecognised statement in the nested branch `{ast.unparse(x)}`', x)
    adds = [n for n in body if isinstance(n, ast.Expr) and ast.unparse(n) == 'roots.add(self.uuid)']
    out['self_root'] = len(adds) == 1 and body.index(adds[0]) > body.index(sel[0])
    # nothing else touches roots / use_count between the selection and the writing loop
    for n in body:
        if n is sel[0] or n in adds or n is init[0] or n is loops[0]:
            continue
        if any(isinstance(x, ast.Name) and x.id in ('roots', 'use_count') and not isinstance(x.ctx, ast.Load) for x in ast.walk(n)) \
                or any(isinstance(x, ast.Call) and isinstance(x.func, ast.Attribute) and ast.unparse(x.func.value) in ('roots', 'use_count')
                       and x.func.attr not in ('items', 'keys', 'values', 'get', 'copy') for x in ast.walk(n)):
            _fail(f'export_kv2: roots / use_count changed by `{ast.unparse(n)[:80]}`', n)
    # the writing loop: the elements in order, those that are roots, with the roots handed down
    wl = [n for n in body if isinstance(n, ast.For) and ast.unparse(n.iter) == 'elements' and ast.unparse(n.target) == 'elem'
          and any(isinstance(x, ast.Call) and ast.unparse(x.func) == 'elem._export_kv2' for x in ast.walk(n))]
    if len(wl) != 1 or len(wl[0].body) != 1 or not isinstance(wl[0].body[0], ast.If) or wl[0].body[0].orelse \
            or ast.unparse(wl[0].body[0].test) not in ('flat or elem.uuid in roots', 'elem.uuid in roots or flat', 'elem.uuid in roots'):
        _fail('export_kv2: the writing loop is not `for elem in elements: if flat or elem.uuid in roots: ...`', fn)
    calls = [x for x in ast.walk(wl[0]) if isinstance(x, ast.Call) and ast.unparse(x.func) == 'elem._export_kv2']
    if len(calls) != 1 or calls[0].keywords or [ast.unparse(a) for a in calls[0].args] != ['file', "b''", 'roots', 'encoding', 'cull_uuid']:
        _fail(f'export_kv2: unrecognised call `{ast.unparse(calls[0]) if calls else None}`', wl[0])
    out['line'] = sel[0].lineno
    return out


def _kv2_stubs(cls_fns: list[ast.FunctionDef]) -> tuple[bool, int]:
    """True iff every stub created by the KV2 parser receives the UUID read from the file."""
    decl = None
    for fn in cls_fns:
        for n in ast.walk(fn):
            if isinstance(n, (ast.AnnAssign, ast.Assign)):
                tgt = n.target if isinstance(n, ast.AnnAssign) else n.targets[0]
                if isinstance(tgt, ast.Name) and tgt.id == 'stubs' and n.value is not None:
                    decl = n
    if decl is None:
        _fail('parse_kv2: `stubs = ...` not found')
    v = ast.unparse(decl.value)
    if v == 'collections.defaultdict(StubElement.stub)':
        return False, decl.lineno          # the factory is called without the key: random UUID
    if v != '{}':
        _fail(f'parse_kv2: unrecognised stub table `{v}`', decl)
    n_store = 0
    for fn in cls_fns:
        for n in ast.walk(fn):
            if isinstance(n, ast.Assign):
                for t in n.targets:
                    if ast.unparse(t) == 'stubs[uuid]':
                        n_store += 1
                        val = n.value
                        if ast.unparse(val) != 'StubElement.stub(uuid)':
                            _fail(f'parse_kv2: stub stored from `{ast.unparse(val)}`', n)
    if n_store == 0:
        _fail('parse_kv2: no `stubs[uuid] = StubElement.stub(uuid)` store found')
    return True, decl.lineno


# ------------------------------------------------------------------------------------------------ KV1 bridge
def _const_str(tree: ast.Module, name: str) -> str:
    for n in tree.body:
        if isinstance(n, ast.AnnAssign) and isinstance(n.target, ast.Name) and n.target.id == name \
                and isinstance(n.value, ast.Constant) and isinstance(n.value.value, str):
            return n.value.value
        if isinstance(n, ast.Assign) and isinstance(n.targets[0], ast.Name) and n.targets[0].id == name \
                and isinstance(n.value, ast.Constant) and isinstance(n.value.value, str):
            return n.value.value
    _fail(f'string constant {name} not found')


def _str_collection(node: ast.AST, tree: ast.Module, fn: ast.FunctionDef, depth: int = 0):
    """A literal collection of strings ({..}, (..), [..], frozenset(..), set(..)), possibly behind a constant that is
    assigned exactly once at module level or in the function -> list of the strings, else None."""
    if isinstance(node, (ast.Set, ast.Tuple, ast.List)):
        if all(isinstance(e, ast.Constant) and isinstance(e.value, str) for e in node.elts):
            return [e.value for e in node.elts]
        return None
    if isinstance(node, ast.Call) and isinstance(node.func, ast.Name) and node.func.id in ('frozenset', 'set', 'tuple') \
            and len(node.args) == 1 and not node.keywords:
        return _str_collection(node.args[0], tree, fn, depth)
    if isinstance(node, ast.Name) and depth < 3:
        defs = []
        for scope in (tree.body, list(ast.walk(fn))):
            for n in scope:
                if isinstance(n, ast.Assign) and any(isinstance(t, ast.Name) and t.id == node.id for t in n.targets):
                    defs.append(n.value)
                elif isinstance(n, ast.AnnAssign) and isinstance(n.target, ast.Name) and n.target.id == node.id and n.value is not None:
                    defs.append(n.value)
                elif isinstance(n, (ast.AugAssign,)) and isinstance(n.target, ast.Name) and n.target.id == node.id:
                    return None
        if len(defs) == 1:
            return _str_collection(defs[0], tree, fn, depth + 1)
    return None


def _name_sel(node: ast.AST, var: str, where) -> str:
    """Which of the two names of the Keyvalues `var` an expression reads: .name (casefolded) / .real_name (as written)."""
    src = ast.unparse(node)
    if src in (f'{var}.name', f'{var}.name.casefold()', f'{var}.real_name.casefold()'):
        return 'NFolded'
    if src == f'{var}.real_name':
        return 'NReal'
    _fail(f'from_kv1: unrecognised name expression `{src}`', where)


def _if_chain(stmts: list[ast.stmt]):
    """Statements of a loop body as a decision chain [(test, body)], else-body: `if c: ...; continue` followed by the
    rest is `if c: ... else: rest`; elif chains are followed."""
    stmts = _strip_doc(stmts)
    if not stmts:
        return [], []
    st = stmts[0]
    if isinstance(st, ast.If):
        ends = bool(st.body) and isinstance(st.body[-1], (ast.Continue, ast.Return, ast.Raise, ast.Break))
        if not st.orelse and ends:
            rest_chain, rest_else = _if_chain(stmts[1:])
            return [(st.test, st.body)] + rest_chain, rest_else
        if len(stmts) == 1:
            if st.orelse:
                rest_chain, rest_else = _if_chain(st.orelse)
                return [(st.test, st.body)] + rest_chain, rest_else
            return [(st.test, st.body)], []
    return [], stmts


def _kv1(tree: ast.Module) -> dict:
    fk, tk = _func(tree, 'Element', 'from_kv1'), _func(tree, 'Element', 'to_kv1')
    out = {'t_block': _const_str(tree, 'NAME_KV1'), 't_leaf': _const_str(tree, 'NAME_KV1_LEAF'),
           't_root': _const_str(tree, 'NAME_KV1_ROOT'), 'from_digest': ast_digest(fk), 'to_digest': ast_digest(tk)}
    # the two tests of the scanning loop: `<name of child> in <literal collection>` (reserved names) and
    # `<name of child> in <set built with .add(<name of child>)>` (duplicate leaf names)
    ins = [n for n in ast.walk(fk) if isinstance(n, ast.Compare) and len(n.ops) == 1 and isinstance(n.ops[0], ast.In)
           and ast.unparse(n.left).startswith('child.')]
    res, dup = [], []
    for n in ins:
        coll = _str_collection(n.comparators[0], tree, fk)
        if coll is not None:
            res.append((n, coll))
        elif isinstance(n.comparators[0], ast.Name):
            dup.append(n)
        else:
            _fail(f'from_kv1: unrecognised membership test `{ast.unparse(n)}`', n)
    if len(res) != 1 or len(dup) != 1:
        _fail(f'from_kv1: expected one reserved-name test and one duplicate-name test, found {len(res)} / {len(dup)}')
    out['reserved'] = sorted(res[0][1])
    out['reserved_sel'] = _name_sel(res[0][0].left, 'child', res[0][0])
    out['reserved_line'] = res[0][0].lineno
    dset = dup[0].comparators[0].id
    adds = [n for n in ast.walk(fk) if isinstance(n, ast.Call) and ast.unparse(n.func) == f'{dset}.add' and len(n.args) == 1]
    others = [n for n in ast.walk(fk) if isinstance(n, ast.Call) and isinstance(n.func, ast.Attribute) and ast.unparse(n.func.value) == dset
              and n.func.attr != 'add']
    if len(adds) != 1 or others:
        _fail(f'from_kv1: the set `{dset}` of leaf names is not filled by exactly one .add(...)')
    sel_in, sel_add = _name_sel(dup[0].left, 'child', dup[0]), _name_sel(adds[0].args[0], 'child', adds[0])
    if sel_in != sel_add:
        _fail('from_kv1: the duplicate test and the set of seen names use different names of the leaf', dup[0])
    out['dup_sel'] = sel_in
    # keys written by from_kv1: elem['value'] = ..., elem['subkeys'] = ...
    written = [n.targets[0].slice.value for n in ast.walk(fk) if isinstance(n, ast.Assign)
               and isinstance(n.targets[0], ast.Subscript) and ast.unparse(n.targets[0].value) == 'elem'
               and isinstance(n.targets[0].slice, ast.Constant)]
    if sorted(written) != ['subkeys', 'value']:
        _fail(f'from_kv1: literal keys written {written}')
    out['k_value_w'], out['k_subkeys_w'] = 'value', 'subkeys'
    # keys read by to_kv1: self['value'], and the decision chain over attr.name in the attribute loop
    rd = [n.slice.value for n in ast.walk(tk) if isinstance(n, ast.Subscript) and ast.unparse(n.value) == 'self'
          and isinstance(n.slice, ast.Constant)]
    if rd != ['value']:
        _fail(f'to_kv1: literal keys read {rd}')
    out['k_value_r'] = rd[0]
    loops = [n for n in ast.walk(tk) if isinstance(n, ast.For) and isinstance(n.target, ast.Name)
             and ast.unparse(n.iter) in ('self.values()', 'self._members.values()')]
    if len(loops) != 1:
        _fail(f'to_kv1: expected one loop over the attributes, found {len(loops)}')
    var = loops[0].target.id
    chain, other = _if_chain(loops[0].body)
    roles: dict = {}
    for test, body in chain:
        if not (isinstance(test, ast.Compare) and len(test.ops) == 1 and isinstance(test.ops[0], ast.Eq)):
            _fail(f'to_kv1: unrecognised test `{ast.unparse(test)}`', test)
        l, r = test.left, test.comparators[0]
        if isinstance(l, ast.Constant):
            l, r = r, l
        if not (ast.unparse(l) == f'{var}.name' and isinstance(r, ast.Constant) and isinstance(r.value, str)):
            _fail(f'to_kv1: unrecognised test `{ast.unparse(test)}`', test)
        stm = [x for x in body if not (isinstance(x, ast.Expr) and isinstance(x.value, ast.Constant))]
        if all(isinstance(x, (ast.Continue, ast.Pass)) for x in stm):
            role = 'name'                       # the attribute is skipped
        elif any(isinstance(x, ast.Assign) and ast.unparse(x) == f'subkeys = {var}' for x in stm) \
                and all(isinstance(x, (ast.Continue, ast.If)) or ast.unparse(x) == f'subkeys = {var}' for x in stm) \
                and all(all(isinstance(y, ast.Raise) for y in x.body) and not x.orelse for x in stm if isinstance(x, ast.If)):
            role = 'subkeys'                    # validated and remembered
        else:
            _fail(f'to_kv1: unrecognised branch for `{ast.unparse(test)}`', test)
        if role in roles or r.value in roles.values():
            _fail(f'to_kv1: two branches with the role {role} / the constant {r.value!r}', test)
        roles[role] = r.value
    if set(roles) != {'name', 'subkeys'}:
        _fail(f'to_kv1: attribute name tests found for {sorted(roles)}')
    if [ast.unparse(x) for x in other] != [f'kv.append(Keyvalues({var}.name, {var}.val_str))']:
        _fail(f'to_kv1: unrecognised leaf branch {[ast.unparse(x) for x in other]}')
    out['k_subkeys_r'], out['k_name_r'] = roles['subkeys'], roles['name']
    return out


# ------------------------------------------------------------------------------------------------ main
def _coq_str(s: str) -> str:
    return '[' + '; '.join(str(ord(c)) for c in s) + ']%N'


def _binformat_helpers() -> dict:
    """srctools/binformat.py (another module): do `read_nullstr` and `read_nullstr_array`, through which parse_bin reads every
    string, decode with the codec they are given?  read_nullstr: the one `.decode(X)` has X = its `encoding` parameter;
    read_nullstr_array: its one call of read_nullstr passes its own `encoding` parameter on (third positional or by keyword)."""
    tree = ast.parse(src_text('binformat.py'))
    out = {}

    def enc_param(fn):
        names = [a.arg for a in fn.args.args]
        if 'encoding' not in names:
            _fail(f'binformat.{fn.name}: no `encoding` parameter', fn)
        return names.index('encoding')
    rn = _top_func(tree, 'read_nullstr')
    pos_rn = enc_param(rn)
    decs = [c for c in ast.walk(rn) if isinstance(c, ast.Call) and isinstance(c.func, ast.Attribute) and c.func.attr == 'decode']
    if len(decs) != 1:
        _fail(f'binformat.read_nullstr: expected one .decode(...) call, found {len(decs)}', rn)
    d = decs[0]
    arg = d.args[0] if d.args else next((k.value for k in d.keywords if k.arg == 'encoding'), None)
    extra = len(d.args) > 1 or any(k.arg != 'encoding' for k in d.keywords)
    stores = [n for n in ast.walk(rn) if isinstance(n, ast.Name) and n.id == 'encoding' and not isinstance(n.ctx, ast.Load)]
    out['nullstr'] = isinstance(arg, ast.Name) and arg.id == 'encoding' and not extra and not stores
    out['nullstr_line'] = d.lineno
    ra = _top_func(tree, 'read_nullstr_array')
    enc_param(ra)
    calls = [c for c in ast.walk(ra) if isinstance(c, ast.Call) and ast.unparse(c.func) == 'read_nullstr']
    if len(calls) != 1:
        _fail(f'binformat.read_nullstr_array: expected one call of read_nullstr, found {len(calls)}', ra)
    c = calls[0]
    passed = c.args[pos_rn] if len(c.args) > pos_rn else next((k.value for k in c.keywords if k.arg == 'encoding'), None)
    stores = [n for n in ast.walk(ra) if isinstance(n, ast.Name) and n.id == 'encoding' and not isinstance(n.ctx, ast.Load)]
    out['array'] = isinstance(passed, ast.Name) and passed.id == 'encoding' and not stores
    out['array_line'] = c.lineno
    return out


def translate() -> tuple[str, dict]:
    tree = _normalise_module(ast.parse(src_text('dmx.py')))
    bfh = _binformat_helpers()
    _STRUCTS.clear()
    _STRUCTS.update(_module_structs(tree))
    vts = _value_types(tree)
    side: dict = {}
    # VAL_TYPE_TO_IND / ARRAY_OFFSET / IND_TO_VALTYPE
    table = offset = ind_ok = None
    structs: dict[str, tuple[int, int]] = {}
    fmts: dict[str, str] = {}
    splat: dict[str, bool] = {}
    ctor: dict[str, str] = {}
    for n in tree.body:
        tgt = None
        if isinstance(n, ast.AnnAssign) and isinstance(n.target, ast.Name):
            tgt, val = n.target.id, n.value
        elif isinstance(n, ast.Assign) and len(n.targets) == 1 and isinstance(n.targets[0], ast.Name):
            tgt, val = n.targets[0].id, n.value
        if tgt == 'VAL_TYPE_TO_IND':
            if not isinstance(val, ast.Dict):
                _fail('VAL_TYPE_TO_IND is not a dict literal', n)
            table = []
            for k, v in zip(val.keys, val.values):
                if not (isinstance(k, ast.Attribute) and ast.unparse(k.value) == 'ValueType' and k.attr in vts
                        and isinstance(v, ast.Constant) and isinstance(v.value, int) and v.value >= 0):
                    _fail('VAL_TYPE_TO_IND: unrecognised entry', n)
                table.append((vts[k.attr], v.value, k.attr))
            side['table_line'] = n.lineno
        elif tgt == 'ARRAY_OFFSET':
            if not (isinstance(val, ast.Constant) and isinstance(val.value, int) and val.value >= 0):
                _fail('ARRAY_OFFSET is not a non-negative integer constant', n)
            offset = val.value
        elif tgt == 'IND_TO_VALTYPE':
            ind_ok = ast.unparse(val) == '{ind: val_type for val_type, ind in VAL_TYPE_TO_IND.items()}'
            if not ind_ok:
                _fail('IND_TO_VALTYPE is not the inverse comprehension of VAL_TYPE_TO_IND', n)
        elif tgt is not None and tgt.startswith('_struct_'):
            if not (isinstance(val, ast.Call) and ast.unparse(val.func) == 'Struct' and len(val.args) == 1
                    and isinstance(val.args[0], ast.Constant)):
                _fail(f'{tgt}: unrecognised struct', n)
            structs[tgt[len('_struct_'):]] = (_calcsize(val.args[0].value, n), n.lineno)
            fmts[tgt[len('_struct_'):]] = val.args[0].value
        elif isinstance(n, ast.Expr) and isinstance(n.value, ast.Call) and ast.unparse(n.value.func) in ('_binconv_basic', '_binconv_cls'):
            a = n.value.args
            if not (len(a) >= 2 and isinstance(a[0], ast.Constant) and isinstance(a[1], ast.Constant)):
                _fail('unrecognised _binconv call', n)
            structs[a[0].value] = (_calcsize(a[1].value, n), n.lineno)
            if a[0].value in fmts:
                _fail(f'two struct definitions for {a[0].value}', n)
            fmts[a[0].value] = a[1].value
            is_cls = ast.unparse(n.value.func) == '_binconv_cls'
            if n.value.keywords or len(a) != (3 if is_cls else 2) or (is_cls and not isinstance(a[2], ast.Name)):
                _fail('unrecognised _binconv call', n)
            splat[a[0].value] = is_cls
            if is_cls:
                ctor[a[0].value] = a[2].id
    if table is None or offset is None or not ind_ok:
        _fail('VAL_TYPE_TO_IND / ARRAY_OFFSET / IND_TO_VALTYPE not all found')
    # SIZES: sizes[t] = _struct_<t.name.casefold()>.size for t not STRING/BINARY
    canon_names = {}
    for n in tree.body:
        if isinstance(n, ast.ClassDef) and n.name == 'ValueType':
            for st in n.body:
                if isinstance(st, ast.Assign):
                    canon_names[vts[st.targets[0].id]] = st.targets[0].id      # first target is the canonical member name
    sizes = []
    for coq, member in canon_names.items():
        if coq in ('TString', 'TBinary'):
            continue
        key = member.casefold()
        if key not in structs:
            _fail(f'no _struct_{key} for ValueType.{member}')
        sizes.append((coq, structs[key][0]))
    pb = _parse_bin(_func(tree, 'Element', 'parse_bin'))
    eb = _export_binary(_func(tree, 'Element', 'export_binary'))
    vtext = _value_text(tree)
    hdr = _header_cfg(tree)
    kv2 = _export_kv2(_func(tree, 'Element', '_export_kv2'))
    kv2_refs = _kv2_ref_tables(_func(tree, 'Element', '_export_kv2'))
    kv2_tok_kw = _kv2_tokenizer_kwargs(_func(tree, 'Element', 'parse_kv2'))
    kv2_kw_roots, kv2_kw_roots_line = _kv2_keyword_roots(tree, _func(tree, 'Element', 'export_kv2'))
    kv2_roots = _kv2_roots(_func(tree, 'Element', 'export_kv2'))
    kv2_stub, kv2_stub_line = _kv2_stubs([_func(tree, 'Element', 'parse_kv2'), _func(tree, 'Element', '_parse_kv2_element')])
    kv1 = _kv1(tree)
    cnt = _attr_count(_func(tree, 'Element', 'export_binary'))
    ngt = _name_getter(tree)
    pkeys = _parse_keys(tree)
    kv2m = _kv2_members(tree)
    # scalar codecs
    _binconv_shapes(tree)
    tcodec = _time_codec(tree)
    mcodec = _matrix_codec(tree)
    for key in ('time', 'matrix'):
        if key in splat:
            _fail(f'{key} is built by _binconv_*, expected its own conversion functions')
    fmt_rows, splat_rows, ctor_rows = [], [], []
    for coq, member in canon_names.items():
        if coq in ('TString', 'TBinary', 'TElement'):
            continue
        key = member.casefold()
        fmt_rows.append((coq, fmts[key]))
        if key in splat:
            splat_rows.append((coq, splat[key]))
        elif key not in ('time', 'matrix'):
            _fail(f'no _binconv_* call for ValueType.{member}')
        if key in ctor:
            ctor_rows.append((coq, ctor[key]))
    for _, f in fmt_rows:
        if not re.fullmatch(r'[<0-9a-zA-Z?]*', f):
            _fail(f'struct format {f!r} has characters outside the modelled language')
    side.update(table=[(c, i) for c, i, _ in table], offset=offset, split_cmp=pb['split_cmp'], split_line=pb['split_line'],
                sizes=sizes, stub_written=eb['stub_written'], stub_line=eb['stub_line'],
                enc_read={k: v[0] for k, v in pb['enc_read'].items()}, enc_write={k: v[0] for k, v in eb['enc_write'].items()},
                enc_read_lines={k: v[1] for k, v in pb['enc_read'].items()},
                formats=fmt_rows, time_codec=tcodec, matrix_codec=mcodec, ctor=ctor_rows,
                value_text=vtext, header=hdr, kv2_fields=kv2, kv2_ref_tables=kv2_refs, kv2_tokenizer_kwargs=kv2_tok_kw, kv2_keyword_types_at_root=kv2_kw_roots, kv2_keyword_roots_line=kv2_kw_roots_line, kv2_stub_keeps_uuid=kv2_stub, kv2_stub_line=kv2_stub_line, kv1=kv1,
                attr_count={'len': cnt['count'].ln, 'has': cnt['count'].has, 'has_key': cnt['count'].has_key, 'const': cnt['count'].const,
                            'kept': cnt['count'].kept, 'kept_filter': cnt['count'].kept_filter, 'write_filter': cnt['write_filter'],
                            'collect_filter': cnt['collect_filter'], 'line': cnt['line'], 'name_getter': ngt},
                parse_keys=pkeys, kv2_members=kv2m, kv2_roots=kv2_roots,
                digests={f: ast_digest(_func(tree, 'Element', f)) for f in
                         ('parse_bin', 'export_binary', 'export_kv2', '_export_kv2', 'parse_kv2', '_parse_kv2_element')})

    def mfilter(f):
        if f is None or f[0] == 'FNothing':
            return 'FNothing'
        return f'({f[0]} {_coq_str(f[1])})'

    def encfun(d):
        return 'fun s => match s with ' + ' | '.join(f'{s} => {d[s][0]}' for s in SITES) + ' end'
    b = lambda x: 'true' if x else 'false'
    umfun = lambda d: ('fun m => match m with UAscii => ' + b(d['ascii']) + ' | UFormat => ' + b(d['format']) + ' | USilent => ' + b(d['silent']) + ' end')
    lines = [
        '(* GENERATED by translate/c14_dmx.py from /repo/src/srctools/dmx.py. Do not edit. *)',
        'From Coq Require Import NArith ZArith List String.', 'From SV Require Import Num.Dec6 Fmt.DmxCodes Fmt.DmxBin Fmt.DmxMembers Fmt.DmxMembersParse Fmt.DmxMembersKv2 Fmt.DmxKv1 Fmt.DmxKv1Sel Fmt.DmxScalar Fmt.DmxKv2 Fmt.DmxKv2Graph Fmt.DmxValText Fmt.DmxHeader.', 'Import ListNotations.',
        'Open Scope N_scope.',
        'Definition gen_cfg : dmxcfg := {|',
        '  code_table := [' + '; '.join(f'({c}, {i})' for c, i, _ in table) + '];',
        f'  array_offset := {offset};',
        f'  split_cmp := {pb["split_cmp"]};',
        '  size_table := [' + '; '.join(f'({c}, {s})' for c, s in sizes) + '];',
        f'  stub_written := {eb["stub_written"]};',
        f'  enc_write := {encfun(eb["enc_write"])};',
        f'  enc_read := {encfun(pb["enc_read"])};',
        '|}.',
        '(* fixed-width value codecs: struct formats, TIME rounding and scales, MATRIX slot layout *)',
        'Definition gen_scalar : scalarcfg := {|',
        '  sc_formats := [' + '; '.join(f'({c}, "{f}"%string)' for c, f in fmt_rows) + '];',
        '  sc_splat := [' + '; '.join(f'({c}, {b(v)})' for c, v in splat_rows) + '];',
        f'  sc_time_round := {tcodec["round"]};',
        f'  sc_time_mul := ({tcodec["mul"]})%Z;',
        f'  sc_time_div := ({tcodec["div"]})%Z;',
        '  sc_mat_pack := [' + '; '.join(mcodec['pack']) + '];',
        '  sc_mat_unpack := [' + '; '.join(f'({r}, {c}, {i})' for r, c, i in mcodec['unpack']) + '];',
        '|}.',
        'Definition gen_ctor_classes : list (vtype * string) := [' + '; '.join(f'({c}, "{k}"%string)' for c, k in ctor_rows) + '].',
        '(* the three unicode modes: header marker and codec of the writers, codec selection of the readers *)',
        'Definition gen_hdr : hdrcfg := {|',
        '  hb_flag := ' + umfun(hdr['hb_flag']) + ';',
        '  hb_utf8 := ' + umfun(hdr['hb_utf8']) + ';',
        '  hk_flag := ' + umfun(hdr['hk_flag']) + ';',
        '  hk_utf8 := ' + umfun(hdr['hk_utf8']) + ';',
        f'  hp_flag_sets_unicode := {b(hdr["flag_sets"])};',
        f'  hp_bin_utf8 := fun u => if u then {b(hdr["bin_utf8"][True])} else {b(hdr["bin_utf8"][False])};',
        f'  hp_kv2_utf8 := fun u => if u then {b(hdr["kv2_utf8"][True])} else {b(hdr["kv2_utf8"][False])};',
        '|}.',
        '(* value strings of KeyValues2: _fmt_float, the vector / colour texts, the scalar aliases *)',
        f'Definition gen_float_fmt : fmt_cfg := {{| adds_zero := {b(vtext["float_fmt"]["adds_zero"])}; places := {vtext["float_fmt"]["places"]}; '
        f'strips := {b(vtext["float_fmt"]["strips"])}; neg_zero_fix := false |}}.',
        'Definition gen_vec_text_written : list (vtype * list string) := [' +
        '; '.join(f'({c}, [' + '; '.join(f'"{x}"%string' for x in comps) + '])' for c, comps in vtext['vec_written']) + '].',
        'Definition gen_vec_text_read : list (vtype * N) := [' + '; '.join(f'({c}, {n})' for c, n in vtext['vec_read']) + '].',
        'Definition gen_color_text_written : list string := [' + '; '.join(f'"{x}"%string' for x in vtext['color_written']) + '].',
        'Definition gen_color_text_read : list (N * list cread) := [' +
        '; '.join(f'({n}, [' + '; '.join(args) + '])' for n, args in vtext['color_read']) + '].',
        f'Definition gen_hex_sep : list N := {_coq_str(vtext["hex"]["sep"])}.',
        f'Definition gen_hex_group : N := {vtext["hex"]["group"]}.',
        f'Definition gen_hex_upper : bool := {b(vtext["hex"]["upper"])}.',
        f'Definition gen_int_text_funcs : string * string := ("{vtext["int_funcs"][0]}"%string, "{vtext["int_funcs"][1]}"%string).',
        f'Definition gen_float_text_funcs : string * string := ("{vtext["float_funcs"][0]}"%string, "{vtext["float_funcs"][1]}"%string).',
        '(* KeyValues2 writer: is each interpolated string field escaped, and encoded with the file codec? *)',
    ]
    for k in sorted(kv2):
        lines.append(f'Definition kv2_{k}_escaped : bool := {b(kv2[k]["escaped"])}.')
        lines.append(f'Definition kv2_{k}_uses_file_codec : bool := {b(kv2[k]["enc_file"])}.')
    lines += [
        f'Definition kv2_stub_keeps_uuid : bool := {b(kv2_stub)}.',
        '(* how _export_kv2 writes an element value, per site: (condition, action) in if/elif/else order *)',
        'Definition gen_ref_scalar : rtable := [' + '; '.join(f'({c}, {a})' for c, a in kv2_refs['scalar']['table']) + '].',
        'Definition gen_ref_array : rtable := [' + '; '.join(f'({c}, {a})' for c, a in kv2_refs['array']['table']) + '].',
        '(* export_kv2, nested layout: elements whose type name is an attribute type keyword are written at the top level *)',
        f'Definition kv2_keyword_types_at_root : bool := {b(kv2_kw_roots)}.',
        '(* export_kv2: how use_count is built and which elements are written at the top level *)',
        f'Definition gen_rootcfg : rootcfg := {{| rc_self_count := {kv2_roots["self_count"]}%nat; rc_first := {kv2_roots["first"]}%nat; rc_incr := {kv2_roots["incr"]}%nat; '
        f'rc_skip_stubs := {b(kv2_roots["skip_stubs"])}; rc_cmp := {kv2_roots["cmp"]}; rc_thr := {kv2_roots["thr"]}%nat; '
        f'rc_keyword_roots := {b(kv2_kw_roots)}; rc_self_root := {b(kv2_roots["self_root"])}; rc_flat_all := {b(kv2_roots["flat_all"])} |}}.',
        '(* parse_kv2: keyword arguments of Tokenizer(file, ...) *)',
        'Definition gen_kv2_tok_kwargs : list (string * bool) := [' + '; '.join(f'("{k}"%string, {b(v)})' for k, v in kv2_tok_kw) + '].',
        '(* the values of the ValueType enum (attribute type keywords of KeyValues2) *)',
        'Definition gen_vtnames : list (list N) := [' + '; '.join(_coq_str(k) for k in VT) + '].',
        '(* export_binary: the attribute count written per element, the skip tests of the two loops over the members, Element.name *)',
        'Definition gen_cnt : cntcfg := {|',
        f'  cc_len := ({cnt["count"].ln})%Z; cc_has := ({cnt["count"].has})%Z; cc_has_key := {_coq_str(cnt["count"].has_key or "")};',
        f'  cc_const := ({cnt["count"].const})%Z; cc_kept := ({cnt["count"].kept})%Z; cc_kept_filter := {mfilter(cnt["count"].kept_filter)};',
        f'  cc_write_filter := {mfilter(cnt["write_filter"])}; cc_collect_filter := {mfilter(cnt["collect_filter"])};',
        f'  cc_name_key := {_coq_str(ngt["key"])}; cc_name_default := {_coq_str(ngt["default"])}; cc_len_is_members := {b(ngt["len_is_members"])};',
        '|}.',
        '(* the readers: under which key an attribute record is stored in the dict of the element; the member Element() starts with *)',
        f'Definition gen_parse : parsecfg := {{| pk_bin := {pkeys["bin"][0]}; pk_kv2_attr := {pkeys["kv2_attr"][0]}; pk_kv2_inline := {pkeys["kv2_inline"][0]}; '
        f'pk_init_key := {_coq_str(pkeys["init_key"])}; pk_init_name := {_coq_str(pkeys["init_name"])} |}}.',
        '(* _export_kv2: the skip test of the loop over the members; _parse_kv2_element: the test in front of the name setter *)',
        f'Definition gen_kv2_skip : mfilter := {mfilter(kv2m["skip"])}.',
        f'Definition gen_kv2_name_test : nametest := {kv2m["name_test"]}.',
        '(* srctools/binformat.py: read_nullstr decodes with the codec it is given; read_nullstr_array passes its codec on to read_nullstr *)',
        f'Definition gen_bf_nullstr_decodes_with_codec : bool := {b(bfh["nullstr"])}.',
        f'Definition gen_bf_array_passes_codec_on : bool := {b(bfh["array"])}.',
        '(* parse_bin: are element types, element names, attribute names and string values stored exactly as read (string table entry / read_nullstr) *)',
        f'Definition gen_bin_strings_stored_as_read : bool := {b(pb["strings_as_read"])}.',
        '(* _export_kv2: is the name line written for every element; for which (cull_uuid, is a root) is the id line written *)',
        f'Definition gen_kv2_name_line_always : bool := {b(kv2m["name_line_always"])}.',
        f'Definition gen_kv2_id_written : bool -> bool -> bool := fun cull root => {kv2m["id_cond"]}.',
        '(* from_kv1: which name of a leaf (casefolded .name / case-preserved .real_name) the reserved-name test and the duplicate test read *)',
        f'Definition gen_kv1_reserved_sel : namesel := {kv1["reserved_sel"]}.',
        f'Definition gen_kv1_dup_sel : namesel := {kv1["dup_sel"]}.',
        '(* KeyValues1 bridge constants *)',
        'Definition gen_kv1 : kv1cfg := {|',
        f'  t_block := {_coq_str(kv1["t_block"])};',
        f'  t_leaf := {_coq_str(kv1["t_leaf"])};',
        f'  t_root := {_coq_str(kv1["t_root"])};',
        '  reserved := [' + '; '.join(_coq_str(r) for r in kv1['reserved']) + '];',
        f'  k_value_w := {_coq_str(kv1["k_value_w"])};',
        f'  k_subkeys_w := {_coq_str(kv1["k_subkeys_w"])};',
        f'  k_value_r := {_coq_str(kv1["k_value_r"])};',
        f'  k_subkeys_r := {_coq_str(kv1["k_subkeys_r"])};',
        f'  k_name_r := {_coq_str(kv1["k_name_r"])};',
        '|}.',
        '',
    ]
    return '\n'.join(lines), side


GEN = {'DmxCodes_gen': translate}
