"""C14 translator: srctools/dmx.py -> Gen/DmxCodes_gen.v.

Extracts (fail-closed, Python ast):
  * VAL_TYPE_TO_IND (resolving ValueType aliases), ARRAY_OFFSET, the shape of IND_TO_VALTYPE,
  * the struct formats behind SIZES (_binconv_basic/_binconv_cls calls and _struct_X = Struct(fmt)),
  * parse_bin: the comparison operator of `if attr_type_data OP ARRAY_OFFSET`, the codec argument of every
    read_nullstr/read_nullstr_array call (classified by site), what is read after the stub index -2,
  * export_binary: the type-code computation, the codec argument of every `.encode(..) + b'\\0'` write (by site),
    what is written after pack('<i', -2),
  * _export_kv2: for every interpolated string field whether it goes through escape_text and which codec encodes it,
  * parse_kv2: how stub elements are created (keeps the UUID read from the file or not),
  * from_kv1 / to_kv1: the element type names, the reserved attribute names and the literal keys used on both sides.
"""
from __future__ import annotations

import ast
import re

from harness.common import TranslateError, ast_digest, src_text

VT = {'element': 'TElement', 'int': 'TInt', 'float': 'TFloat', 'bool': 'TBool', 'string': 'TString',
      'binary': 'TBinary', 'time': 'TTime', 'color': 'TColor', 'vector2': 'TVec2', 'vector3': 'TVec3',
      'vector4': 'TVec4', 'qangle': 'TAngle', 'quaternion': 'TQuat', 'vmatrix': 'TMatrix'}
CMP = {ast.GtE: 'CGe', ast.Gt: 'CGt', ast.LtE: 'CLe', ast.Lt: 'CLt', ast.Eq: 'CEq', ast.NotEq: 'CNe'}
FMT_SIZE = {'i': 4, 'I': 4, 'f': 4, '?': 1, 'B': 1, 'b': 1, 'h': 2, 'H': 2, 'd': 8}
SITES = ['SiteTable', 'SiteElType', 'SiteElName', 'SiteAttrName', 'SiteScalarStr', 'SiteArrayStr']


def _fail(msg: str, node: ast.AST | None = None):
    raise TranslateError(f'dmx.py{":" + str(node.lineno) if node is not None and hasattr(node, "lineno") else ""}: {msg}')


def _calcsize(fmt: str, node) -> int:
    m = re.fullmatch(r'<(\d*)([a-zA-Z?])', fmt)
    if not m or m.group(2) not in FMT_SIZE:
        _fail(f'unsupported struct format {fmt!r}', node)
    return int(m.group(1) or 1) * FMT_SIZE[m.group(2)]


def _value_types(tree: ast.Module) -> dict[str, str]:
    """ValueType member name (incl. aliases) -> Coq constructor."""
    for n in tree.body:
        if isinstance(n, ast.ClassDef) and n.name == 'ValueType':
            out = {}
            for st in n.body:
                if isinstance(st, ast.Assign):
                    if not (isinstance(st.value, ast.Constant) and isinstance(st.value.value, str)):
                        _fail('ValueType member is not a string constant', st)
                    if st.value.value not in VT:
                        _fail(f'unknown ValueType value {st.value.value!r}', st)
                    for t in st.targets:
                        if not isinstance(t, ast.Name):
                            _fail('unrecognised ValueType member', st)
                        out[t.id] = VT[st.value.value]
                elif isinstance(st, ast.Expr) and isinstance(st.value, ast.Constant):
                    continue      # docstrings
                else:
                    _fail('unrecognised statement in ValueType', st)
            if set(out.values()) != set(VT.values()):
                _fail('ValueType does not have exactly the 14 modelled members', n)
            return out
    _fail('class ValueType not found')


def _func(tree: ast.Module, cls: str, name: str) -> ast.FunctionDef:
    for n in tree.body:
        if isinstance(n, ast.ClassDef) and n.name == cls:
            for f in n.body:
                if isinstance(f, ast.FunctionDef) and f.name == name:
                    return f
    _fail(f'{cls}.{name} not found')


def _enc_arg(node: ast.AST | None, where) -> str:
    if node is None:
        return 'EncAscii'
    if isinstance(node, ast.Name) and node.id == 'encoding':
        return 'EncFile'
    if isinstance(node, ast.Constant) and node.value == 'ascii':
        return 'EncAscii'
    _fail(f'unrecognised codec argument `{ast.unparse(node)}`', where)


def _parents(root: ast.AST) -> dict:
    par = {}
    for n in ast.walk(root):
        for ch in ast.iter_child_nodes(n):
            par[ch] = n
    return par


def _encoding_assignment(fn: ast.FunctionDef, expect: str) -> None:
    for n in ast.walk(fn):
        if isinstance(n, ast.Assign) and ast.unparse(n.targets[0]) == 'encoding':
            if ast.unparse(n.value) != expect:
                _fail(f'{fn.name}: unrecognised `encoding = {ast.unparse(n.value)}`', n)
            return
    _fail(f'{fn.name}: no `encoding = ...` assignment')


# ------------------------------------------------------------------------------------------------ parse_bin
def _parse_bin(fn: ast.FunctionDef) -> dict:
    out: dict = {'enc_read': {}}
    _encoding_assignment(fn, "'utf8' if unicode else 'ascii'")
    par = _parents(fn)
    # the split test
    splits = [n for n in ast.walk(fn) if isinstance(n, ast.If) and isinstance(n.test, ast.Compare)
              and 'attr_type_data' in ast.unparse(n.test)]
    if len(splits) != 1:
        _fail(f'parse_bin: expected one test on attr_type_data, found {len(splits)}')
    sp = splits[0]
    t = sp.test
    if not (isinstance(t.left, ast.Name) and t.left.id == 'attr_type_data' and len(t.ops) == 1
            and isinstance(t.comparators[0], ast.Name) and t.comparators[0].id == 'ARRAY_OFFSET' and type(t.ops[0]) in CMP):
        _fail(f'parse_bin: unrecognised split test `{ast.unparse(t)}`', sp)
    out['split_cmp'] = CMP[type(t.ops[0])]
    out['split_line'] = sp.lineno
    body = [ast.unparse(s) for s in sp.body]
    if body != ['attr_type_data -= ARRAY_OFFSET', "[array_size] = binformat.struct_read('<i', file)"]:
        _fail(f'parse_bin: unrecognised array branch {body}', sp)
    if [ast.unparse(s) for s in sp.orelse] != ['array_size = None']:
        _fail('parse_bin: unrecognised scalar branch', sp)
    if not any(isinstance(n, ast.Assign) and ast.unparse(n) == 'attr_type = IND_TO_VALTYPE[attr_type_data]' for n in ast.walk(fn)):
        _fail('parse_bin: `attr_type = IND_TO_VALTYPE[attr_type_data]` not found')
    # string read sites
    name_sites = ['SiteElName', 'SiteAttrName']
    stub_read = None
    calls = [n for n in ast.walk(fn) if isinstance(n, ast.Call) and isinstance(n.func, ast.Attribute)
             and n.func.attr in ('read_nullstr', 'read_nullstr_array')]
    calls.sort(key=lambda n: (n.lineno, n.col_offset))
    for c in calls:
        kw = {k.arg: k.value for k in c.keywords}
        if set(kw) - {'encoding'}:
            _fail(f'parse_bin: unrecognised keyword in `{ast.unparse(c)}`', c)
        if c.func.attr == 'read_nullstr_array':
            if len(c.args) not in (2, 3) or ast.unparse(c.args[0]) != 'file':
                _fail(f'parse_bin: unrecognised `{ast.unparse(c)}`', c)
            enc = _enc_arg(c.args[2] if len(c.args) == 3 else kw.get('encoding'), c)
            cnt = ast.unparse(c.args[1])
            site = {'string_count': 'SiteTable', 'array_size': 'SiteArrayStr'}.get(cnt)
            if site is None:
                _fail(f'parse_bin: unclassified string array read `{ast.unparse(c)}`', c)
        else:
            if len(c.args) != 1 or ast.unparse(c.args[0]) != 'file':
                _fail(f'parse_bin: unrecognised `{ast.unparse(c)}`', c)
            enc = _enc_arg(kw.get('encoding'), c)
            p = par.get(c)
            if isinstance(p, ast.Call) and ast.unparse(p.func) == 'UUID':
                stub_read = enc
                continue
            if not (isinstance(p, ast.Assign) and len(p.targets) == 1 and isinstance(p.targets[0], ast.Name)):
                _fail(f'parse_bin: unclassified string read `{ast.unparse(c)}`', c)
            tgt = p.targets[0].id
            if tgt == 'el_type':
                site = 'SiteElType'
            elif tgt == 'name' and name_sites:
                site = name_sites.pop(0)
            elif tgt == 'value':
                site = 'SiteScalarStr'
            else:
                _fail(f'parse_bin: unclassified string read into `{tgt}`', c)
        if site in out['enc_read']:
            _fail(f'parse_bin: two reads classified as {site}', c)
        out['enc_read'][site] = (enc, c.lineno)
    if set(out['enc_read']) != set(SITES):
        _fail(f'parse_bin: string read sites found {sorted(out["enc_read"])}')
    if stub_read != 'EncAscii':
        _fail('parse_bin: stub reference is not followed by `UUID(binformat.read_nullstr(file))`')
    stub_if = [n for n in ast.walk(fn) if isinstance(n, ast.If) and ast.unparse(n.test) == 'ind == -2']
    if len(stub_if) != 1 or ast.unparse(stub_if[0].body[0]) != 'uuid = UUID(binformat.read_nullstr(file))':
        _fail('parse_bin: stub branch `ind == -2` not recognised')
    return out


# ------------------------------------------------------------------------------------------------ export_binary
def _export_binary(fn: ast.FunctionDef) -> dict:
    out: dict = {'enc_write': {}}
    _encoding_assignment(fn, "'utf8' if unicode != 'ascii' else 'ascii'")
    par = _parents(fn)
    src = [ast.unparse(n) for n in ast.walk(fn) if isinstance(n, ast.stmt)]
    for need in ('typ_ind = VAL_TYPE_TO_IND[attr.type]', "file.write(pack('B', typ_ind))"):
        if need not in src:
            _fail(f'export_binary: `{need}` not found')
    if not any(isinstance(n, ast.If) and ast.unparse(n.test) == 'attr.is_array'
               and [ast.unparse(s) for s in n.body] == ['typ_ind += ARRAY_OFFSET'] for n in ast.walk(fn)):
        _fail('export_binary: `if attr.is_array: typ_ind += ARRAY_OFFSET` not found')

    def enclosing_for(n):
        while n in par:
            n = par[n]
            if isinstance(n, ast.For):
                return n
        return None
    stub_enc_seen = False
    for c in ast.walk(fn):
        if not (isinstance(c, ast.Call) and isinstance(c.func, ast.Attribute) and c.func.attr == 'encode'):
            continue
        recv = ast.unparse(c.func.value)
        if len(c.args) != 1 or c.keywords:
            _fail(f'export_binary: unrecognised `{ast.unparse(c)}`', c)
        if recv in ('fmt_name',):
            continue                      # header
        enc = _enc_arg(c.args[0], c)
        p = par.get(c)
        if not (isinstance(p, ast.BinOp) and isinstance(p.op, ast.Add) and ast.unparse(p.right) == "b'\\x00'"):
            _fail(f'export_binary: string write without NUL terminator `{ast.unparse(p)}`', c)
        if recv == 'str(subelem.uuid)':
            if enc != 'EncAscii':
                _fail('export_binary: stub uuid not ASCII', c)
            stub_enc_seen = True
            continue
        if recv == 'elem.type':
            sites = ['SiteElType']
        elif recv == 'elem.name':
            sites = ['SiteElName']
        elif recv == 'attr.name':
            sites = ['SiteAttrName']
        elif recv == 'text':
            f = enclosing_for(c)
            it = ast.unparse(f.iter) if f is not None else ''
            if it == 'string_list':
                sites = ['SiteTable']
            elif it == 'attr.iter_string()':
                sites = ['SiteScalarStr', 'SiteArrayStr']
            else:
                _fail(f'export_binary: unclassified string write in loop over `{it}`', c)
        else:
            _fail(f'export_binary: unclassified string write `{ast.unparse(c)}`', c)
        for s in sites:
            if s in out['enc_write']:
                _fail(f'export_binary: two writes classified as {s}', c)
            out['enc_write'][s] = (enc, c.lineno)
    if set(out['enc_write']) != set(SITES):
        _fail(f'export_binary: string write sites found {sorted(out["enc_write"])}')
    # stub branch
    stub = [n for n in ast.walk(fn) if isinstance(n, ast.If) and ast.unparse(n.test) == 'subelem.is_stub']
    if len(stub) != 1:
        _fail('export_binary: stub branch not found')
    body = [ast.unparse(s) for s in stub[0].body]
    if body == ["file.write(pack('<i', -2))"]:
        out['stub_written'] = 'StubNothing'
    elif body == ["file.write(pack('<i', -2))", "file.write(str(subelem.uuid).encode('ascii') + b'\\x00')"] and stub_enc_seen:
        out['stub_written'] = 'StubUuidStr'
    else:
        _fail(f'export_binary: unrecognised stub branch {body}', stub[0])
    out['stub_line'] = stub[0].lineno
    return out


# ------------------------------------------------------------------------------------------------ KV2
KV2_FIELDS = {'self.type': 'type', 'self.name': 'name', 'attr.name': 'attrname', 'str_value': 'array_value',
              'attr.val_str': 'scalar_value'}
KV2_SAFE = {'str(self.uuid)', 'str(child.uuid)', 'attr.type.value'}     # hex digits / enum constants: no escaping needed


def _export_kv2(fn: ast.FunctionDef) -> dict:
    fields: dict = {}
    for c in ast.walk(fn):
        if not (isinstance(c, ast.Call) and isinstance(c.func, ast.Attribute) and c.func.attr == 'encode'):
            continue
        if len(c.args) != 1 or c.keywords:
            _fail(f'_export_kv2: unrecognised `{ast.unparse(c)}`', c)
        recv = c.func.value
        rs = ast.unparse(recv)
        if rs in KV2_SAFE:
            continue
        escaped = False
        if isinstance(recv, ast.Call) and ast.unparse(recv.func) == 'escape_text' and len(recv.args) == 1 and not recv.keywords:
            escaped = True
            rs = ast.unparse(recv.args[0])
        if rs not in KV2_FIELDS:
            _fail(f'_export_kv2: unclassified interpolated field `{ast.unparse(c)}`', c)
        k = KV2_FIELDS[rs]
        if k in fields:
            _fail(f'_export_kv2: field {k} written twice', c)
        a = c.args[0]
        if isinstance(a, ast.Name) and a.id == 'encoding':
            enc_file = True
        elif isinstance(a, ast.Constant) and a.value == 'ascii':
            enc_file = False
        else:
            _fail(f'_export_kv2: unrecognised codec `{ast.unparse(a)}`', c)
        fields[k] = {'escaped': escaped, 'enc_file': enc_file, 'line': c.lineno}
    if set(fields) != set(KV2_FIELDS.values()):
        _fail(f'_export_kv2: fields found {sorted(fields)}')
    return fields


def _kv2_stubs(cls_fns: list[ast.FunctionDef]) -> tuple[bool, int]:
    """True iff every stub created by the KV2 parser receives the UUID read from the file."""
    decl = None
    for fn in cls_fns:
        for n in ast.walk(fn):
            if isinstance(n, (ast.AnnAssign, ast.Assign)):
                tgt = n.target if isinstance(n, ast.AnnAssign) else n.targets[0]
                if isinstance(tgt, ast.Name) and tgt.id == 'stubs' and n.value is not None:
                    decl = n
    if decl is None:
        _fail('parse_kv2: `stubs = ...` not found')
    v = ast.unparse(decl.value)
    if v == 'collections.defaultdict(StubElement.stub)':
        return False, decl.lineno          # the factory is called without the key: random UUID
    if v != '{}':
        _fail(f'parse_kv2: unrecognised stub table `{v}`', decl)
    n_store = 0
    for fn in cls_fns:
        for n in ast.walk(fn):
            if isinstance(n, ast.Assign):
                for t in n.targets:
                    if ast.unparse(t) == 'stubs[uuid]':
                        n_store += 1
                        val = n.value
                        if ast.unparse(val) != 'StubElement.stub(uuid)':
                            _fail(f'parse_kv2: stub stored from `{ast.unparse(val)}`', n)
    if n_store == 0:
        _fail('parse_kv2: no `stubs[uuid] = StubElement.stub(uuid)` store found')
    return True, decl.lineno


# ------------------------------------------------------------------------------------------------ KV1 bridge
def _const_str(tree: ast.Module, name: str) -> str:
    for n in tree.body:
        if isinstance(n, ast.AnnAssign) and isinstance(n.target, ast.Name) and n.target.id == name \
                and isinstance(n.value, ast.Constant) and isinstance(n.value.value, str):
            return n.value.value
        if isinstance(n, ast.Assign) and isinstance(n.targets[0], ast.Name) and n.targets[0].id == name \
                and isinstance(n.value, ast.Constant) and isinstance(n.value.value, str):
            return n.value.value
    _fail(f'string constant {name} not found')


def _kv1(tree: ast.Module) -> dict:
    fk, tk = _func(tree, 'Element', 'from_kv1'), _func(tree, 'Element', 'to_kv1')
    out = {'t_block': _const_str(tree, 'NAME_KV1'), 't_leaf': _const_str(tree, 'NAME_KV1_LEAF'),
           't_root': _const_str(tree, 'NAME_KV1_ROOT'), 'from_digest': ast_digest(fk), 'to_digest': ast_digest(tk)}
    # reserved names: `child.name in {...}`
    res = [n for n in ast.walk(fk) if isinstance(n, ast.Compare) and ast.unparse(n.left) == 'child.name'
           and len(n.ops) == 1 and isinstance(n.ops[0], ast.In) and isinstance(n.comparators[0], ast.Set)]
    if len(res) != 1 or not all(isinstance(e, ast.Constant) and isinstance(e.value, str) for e in res[0].comparators[0].elts):
        _fail('from_kv1: reserved-name test `child.name in {...}` not recognised')
    out['reserved'] = sorted(e.value for e in res[0].comparators[0].elts)
    # keys written by from_kv1: elem['value'] = ..., elem['subkeys'] = ...
    written = [n.targets[0].slice.value for n in ast.walk(fk) if isinstance(n, ast.Assign)
               and isinstance(n.targets[0], ast.Subscript) and ast.unparse(n.targets[0].value) == 'elem'
               and isinstance(n.targets[0].slice, ast.Constant)]
    if sorted(written) != ['subkeys', 'value']:
        _fail(f'from_kv1: literal keys written {written}')
    out['k_value_w'], out['k_subkeys_w'] = 'value', 'subkeys'
    # keys read by to_kv1: self['value'], attr.name == 'subkeys', attr.name == 'name'
    rd = [n.slice.value for n in ast.walk(tk) if isinstance(n, ast.Subscript) and ast.unparse(n.value) == 'self'
          and isinstance(n.slice, ast.Constant)]
    if rd != ['value']:
        _fail(f'to_kv1: literal keys read {rd}')
    out['k_value_r'] = rd[0]
    tests = [n.comparators[0].value for n in ast.walk(tk) if isinstance(n, ast.Compare) and ast.unparse(n.left) == 'attr.name'
             and len(n.ops) == 1 and isinstance(n.ops[0], ast.Eq) and isinstance(n.comparators[0], ast.Constant)]
    if tests != ['subkeys', 'name']:
        _fail(f'to_kv1: attribute name tests {tests}')
    out['k_subkeys_r'], out['k_name_r'] = tests
    return out


# ------------------------------------------------------------------------------------------------ main
def _coq_str(s: str) -> str:
    return '[' + '; '.join(str(ord(c)) for c in s) + ']%N'


def translate() -> tuple[str, dict]:
    tree = ast.parse(src_text('dmx.py'))
    vts = _value_types(tree)
    side: dict = {}
    # VAL_TYPE_TO_IND / ARRAY_OFFSET / IND_TO_VALTYPE
    table = offset = ind_ok = None
    structs: dict[str, tuple[int, int]] = {}
    for n in tree.body:
        tgt = None
        if isinstance(n, ast.AnnAssign) and isinstance(n.target, ast.Name):
            tgt, val = n.target.id, n.value
        elif isinstance(n, ast.Assign) and len(n.targets) == 1 and isinstance(n.targets[0], ast.Name):
            tgt, val = n.targets[0].id, n.value
        if tgt == 'VAL_TYPE_TO_IND':
            if not isinstance(val, ast.Dict):
                _fail('VAL_TYPE_TO_IND is not a dict literal', n)
            table = []
            for k, v in zip(val.keys, val.values):
                if not (isinstance(k, ast.Attribute) and ast.unparse(k.value) == 'ValueType' and k.attr in vts
                        and isinstance(v, ast.Constant) and isinstance(v.value, int) and v.value >= 0):
                    _fail('VAL_TYPE_TO_IND: unrecognised entry', n)
                table.append((vts[k.attr], v.value, k.attr))
            side['table_line'] = n.lineno
        elif tgt == 'ARRAY_OFFSET':
            if not (isinstance(val, ast.Constant) and isinstance(val.value, int) and val.value >= 0):
                _fail('ARRAY_OFFSET is not a non-negative integer constant', n)
            offset = val.value
        elif tgt == 'IND_TO_VALTYPE':
            ind_ok = ast.unparse(val) == '{ind: val_type for val_type, ind in VAL_TYPE_TO_IND.items()}'
            if not ind_ok:
                _fail('IND_TO_VALTYPE is not the inverse comprehension of VAL_TYPE_TO_IND', n)
        elif tgt is not None and tgt.startswith('_struct_'):
            if not (isinstance(val, ast.Call) and ast.unparse(val.func) == 'Struct' and len(val.args) == 1
                    and isinstance(val.args[0], ast.Constant)):
                _fail(f'{tgt}: unrecognised struct', n)
            structs[tgt[len('_struct_'):]] = (_calcsize(val.args[0].value, n), n.lineno)
        elif isinstance(n, ast.Expr) and isinstance(n.value, ast.Call) and ast.unparse(n.value.func) in ('_binconv_basic', '_binconv_cls'):
            a = n.value.args
            if not (len(a) >= 2 and isinstance(a[0], ast.Constant) and isinstance(a[1], ast.Constant)):
                _fail('unrecognised _binconv call', n)
            structs[a[0].value] = (_calcsize(a[1].value, n), n.lineno)
    if table is None or offset is None or not ind_ok:
        _fail('VAL_TYPE_TO_IND / ARRAY_OFFSET / IND_TO_VALTYPE not all found')
    # SIZES: sizes[t] = _struct_<t.name.casefold()>.size for t not STRING/BINARY
    canon_names = {}
    for n in tree.body:
        if isinstance(n, ast.ClassDef) and n.name == 'ValueType':
            for st in n.body:
                if isinstance(st, ast.Assign):
                    canon_names[vts[st.targets[0].id]] = st.targets[0].id      # first target is the canonical member name
    sizes = []
    for coq, member in canon_names.items():
        if coq in ('TString', 'TBinary'):
            continue
        key = member.casefold()
        if key not in structs:
            _fail(f'no _struct_{key} for ValueType.{member}')
        sizes.append((coq, structs[key][0]))
    pb = _parse_bin(_func(tree, 'Element', 'parse_bin'))
    eb = _export_binary(_func(tree, 'Element', 'export_binary'))
    kv2 = _export_kv2(_func(tree, 'Element', '_export_kv2'))
    kv2_stub, kv2_stub_line = _kv2_stubs([_func(tree, 'Element', 'parse_kv2'), _func(tree, 'Element', '_parse_kv2_element')])
    kv1 = _kv1(tree)
    side.update(table=[(c, i) for c, i, _ in table], offset=offset, split_cmp=pb['split_cmp'], split_line=pb['split_line'],
                sizes=sizes, stub_written=eb['stub_written'], stub_line=eb['stub_line'],
                enc_read={k: v[0] for k, v in pb['enc_read'].items()}, enc_write={k: v[0] for k, v in eb['enc_write'].items()},
                enc_read_lines={k: v[1] for k, v in pb['enc_read'].items()},
                kv2_fields=kv2, kv2_stub_keeps_uuid=kv2_stub, kv2_stub_line=kv2_stub_line, kv1=kv1,
                digests={f: ast_digest(_func(tree, 'Element', f)) for f in
                         ('parse_bin', 'export_binary', 'export_kv2', '_export_kv2', 'parse_kv2', '_parse_kv2_element')})

    def encfun(d):
        return 'fun s => match s with ' + ' | '.join(f'{s} => {d[s][0]}' for s in SITES) + ' end'
    b = lambda x: 'true' if x else 'false'
    lines = [
        '(* GENERATED by translate/c14_dmx.py from /repo/src/srctools/dmx.py. Do not edit. *)',
        'From Coq Require Import NArith List.', 'From SV Require Import Fmt.DmxCodes Fmt.DmxKv1.', 'Import ListNotations.',
        'Open Scope N_scope.',
        'Definition gen_cfg : dmxcfg := {|',
        '  code_table := [' + '; '.join(f'({c}, {i})' for c, i, _ in table) + '];',
        f'  array_offset := {offset};',
        f'  split_cmp := {pb["split_cmp"]};',
        '  size_table := [' + '; '.join(f'({c}, {s})' for c, s in sizes) + '];',
        f'  stub_written := {eb["stub_written"]};',
        f'  enc_write := {encfun(eb["enc_write"])};',
        f'  enc_read := {encfun(pb["enc_read"])};',
        '|}.',
        '(* KeyValues2 writer: is each interpolated string field escaped, and encoded with the file codec? *)',
    ]
    for k in sorted(kv2):
        lines.append(f'Definition kv2_{k}_escaped : bool := {b(kv2[k]["escaped"])}.')
        lines.append(f'Definition kv2_{k}_uses_file_codec : bool := {b(kv2[k]["enc_file"])}.')
    lines += [
        f'Definition kv2_stub_keeps_uuid : bool := {b(kv2_stub)}.',
        '(* KeyValues1 bridge constants *)',
        'Definition gen_kv1 : kv1cfg := {|',
        f'  t_block := {_coq_str(kv1["t_block"])};',
        f'  t_leaf := {_coq_str(kv1["t_leaf"])};',
        f'  t_root := {_coq_str(kv1["t_root"])};',
        '  reserved := [' + '; '.join(_coq_str(r) for r in kv1['reserved']) + '];',
        f'  k_value_w := {_coq_str(kv1["k_value_w"])};',
        f'  k_subkeys_w := {_coq_str(kv1["k_subkeys_w"])};',
        f'  k_value_r := {_coq_str(kv1["k_value_r"])};',
        f'  k_subkeys_r := {_coq_str(kv1["k_subkeys_r"])};',
        f'  k_name_r := {_coq_str(kv1["k_name_r"])};',
        '|}.',
        '',
    ]
    return '\n'.join(lines), side


GEN = {'DmxCodes_gen': translate}
