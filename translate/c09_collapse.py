"""C09 translator (round 2): what instancing.collapse_one copies and what it shares with the instance TEMPLATE
->  Gen/C09Collapse_gen.v.

collapse_one(vmf, inst, file, ...) must treat the parsed instance file (`file`: the template map `file.vmf`, the proxy
tables) as a read-only operand: everything that enters the target map is a copy.  The translator walks the function
and gives every expression an origin

    template  an object of the template (file, file.vmf, an element of file.vmf.vis_tree/brushes/entities, a proxy
              Output, and every MUTABLE attribute reached from one of those)
    copy      the result of `<template object>.copy(...)`
    fresh     built here (constructor, Output.combine, comprehension, str ...)
    target    the map being built / the visgroup parameter, and what is reached from them
    inst      the Instance parameter and its tables
    local     local bookkeeping containers (their element origins are tracked separately), FGD cache, module globals
    scalar    immutable values (attributes of template objects whose census kind is KImm / KId, strings, numbers)

and records three kinds of site: WRITE (attribute / item store, augmented assignment, mutating method call, setattr):
the origin of the object written; ENTER (a value stored into / appended to a non-local object): the origin of the
value; COPY: the class of every template object that is copied and the keyword flags passed.
Fail-closed: any use of `file` other than the five known access paths, a method call on a template object that is not
known to be read-only, a template object passed to an unknown function ... raise TranslateError.
"""
from __future__ import annotations

import ast
from typing import Optional

from harness.common import TranslateError, src_text
from translate.c09_copy import ClassInfo, _find_class, kind_of, VMF_CLASSES

TEMPLATE_PATHS = {'file.vmf.vis_tree': 'VisGroup', 'file.vmf.brushes': 'Solid', 'file.vmf.entities': 'Entity',
                  'file.proxy_inputs': 'Output', 'file.proxy_outputs': '(int,Output)'}
ELEM_CLASS = {('Entity', 'solids'): 'Solid', ('Entity', 'outputs'): 'Output', ('Solid', 'sides'): 'Side',
              ('VisGroup', 'child_groups'): 'VisGroup'}
MUTATORS = {'append', 'extend', 'add', 'add_out', 'add_brush', 'add_ent', 'localise', 'translate', 'remove', 'discard', 'clear',
            'update', 'pop', 'insert', 'setdefault', 'sort', 'reverse', 'remove_ent', 'remove_brush', 'popitem', '__setitem__',
            '__delitem__', 'set_visible', 'make_unique', 'clear_keys', 'merge_children', 'set_key', 'ensure_exists'}
READ_ONLY_METHODS = {'copy', 'casefold', 'items', 'keys', 'values', 'get', 'is_brush', 'startswith', 'endswith', 'export',
                     'lower', 'upper', 'split', 'strip'}
PURE_FUNCS = {'zip', 'list', 'len', 'isinstance', 'str', 'min', 'max', 'sorted', 'enumerate', 'tuple', 'set', 'iter', 'bool', 'repr',
              'Output.combine'}
MODULE_ORIGIN = 'local'


class Collapse:
    def __init__(self, fn: ast.FunctionDef, classes: dict[str, ClassInfo], vtree: ast.Module) -> None:
        self.fn, self.classes, self.vtree = fn, classes, vtree
        self.env: dict[str, str] = {}
        self.cls: dict[str, str] = {}           # class of template-origin names
        self.elems: dict[str, set[str]] = {}    # element origins of local containers
        self.sites: list[tuple[int, str, str, str]] = []     # (line, kind WRITE|ENTER|COPY, origin / class, text)
        self.reads: list[tuple[int, str, str, str]] = []     # template attribute reads: (line, class, attr, kind)
        params = [a.arg for a in fn.args.args + fn.args.kwonlyargs]
        want = {'vmf': 'target', 'inst': 'inst', 'file': 'template', 'visgroup': 'target', 'engine_cache': 'local', 'fgd': 'local'}
        for p in params:
            if p not in want:
                raise TranslateError(f'collapse_one: unknown parameter `{p}`')
            self.env[p] = want[p]
        self.cls['file'] = 'InstanceFile'

    # ------------------------------------------------------------------ origins
    def org(self, e: ast.expr) -> str:
        if isinstance(e, ast.Name):
            if e.id in self.env:
                return self.env[e.id]
            return MODULE_ORIGIN if (e.id.isupper() or e.id.startswith('_') or e.id[:1].isupper() or e.id in
                                     ('srctools', 'warnings', 'format_float', 'set', 'dict', 'list', 'str', 'min', 'zip', 'setattr',
                                      'isinstance', 'len', 'True', 'False', 'None')) else self.unknown_name(e)
        if isinstance(e, (ast.Constant, ast.JoinedStr, ast.Compare, ast.UnaryOp, ast.FormattedValue)):
            for ch in ast.iter_child_nodes(e):      # visit the operands: they may read template fields or call methods
                if isinstance(ch, ast.expr):
                    self.org(ch)
            return 'scalar'
        if isinstance(e, ast.BoolOp):
            os_ = {self.org(v) for v in e.values}
            return self.join(os_, e)
        if isinstance(e, ast.IfExp):
            return self.join({self.org(e.body), self.org(e.orelse)}, e)
        if isinstance(e, ast.BinOp):
            os_ = {self.org(e.left), self.org(e.right)}
            return 'scalar' if os_ <= {'scalar'} else 'fresh'       # Vec @ Matrix + Vec ... : new values
        if isinstance(e, (ast.SetComp, ast.ListComp, ast.DictComp, ast.GeneratorExp)):
            inner = dict(self.env)
            for g in e.generators:
                self.bind_loop(g.target, g.iter)
            elt = e.value if isinstance(e, ast.DictComp) else e.elt
            o = self.org(elt)
            if isinstance(e, ast.DictComp):
                self.org(e.key)
            self.env = inner | {k: v for k, v in self.env.items() if k in inner}
            if o in ('template',):
                raise TranslateError(f'collapse_one: comprehension collects template objects (line {e.lineno})')
            return 'fresh'
        if isinstance(e, (ast.Tuple, ast.List, ast.Set, ast.Dict)):
            vals = e.elts if not isinstance(e, ast.Dict) else [v for v in e.values if v is not None]
            os_ = {self.org(v) for v in vals}
            if 'template' in os_:
                return 'template'
            return 'fresh'
        if isinstance(e, ast.Attribute):
            path = ast.unparse(e)
            if path == 'file.vmf' or path in TEMPLATE_PATHS:
                return 'template'
            if path.startswith('file.') or path == 'file':
                raise TranslateError(f'collapse_one: unknown access path into the instance file `{path}` (line {e.lineno})')
            b = self.org(e.value)
            if b == 'template':
                c = self.class_of(e.value)
                if c in self.classes and e.attr in self.classes[c].fields:
                    k = kind_of(c, e.attr, self.classes[c].ann.get(e.attr))
                    self.reads.append((e.lineno, c, e.attr, k))
                    return 'scalar' if k in ('KImm', 'KId') else 'template'
                raise TranslateError(f'collapse_one: attribute `{path}` of a template object of class {c} is not a census field (line {e.lineno})')
            return b if b != 'scalar' else 'scalar'
        if isinstance(e, ast.Subscript):
            self.org(e.slice) if isinstance(e.slice, ast.expr) else None
            if isinstance(e.value, ast.Name) and e.value.id in self.elems:
                return self.join(self.elems[e.value.id] or {'fresh'}, e)
            b = self.org(e.value)
            return b
        if isinstance(e, ast.Call):
            return self.call(e)
        if isinstance(e, ast.Starred):
            return self.org(e.value)
        raise TranslateError(f'collapse_one: unrecognised expression `{ast.unparse(e)[:60]}` (line {getattr(e, "lineno", 0)})')

    def unknown_name(self, e: ast.Name) -> str:
        raise TranslateError(f'collapse_one: name `{e.id}` used before it is bound (line {e.lineno})')

    def join(self, os_: set[str], e: ast.AST) -> str:
        os_ = set(os_)
        if 'template' in os_:
            return 'template'
        for o in ('copy', 'target', 'inst', 'fresh', 'local', 'scalar'):
            if o in os_:
                return o
        raise TranslateError(f'collapse_one: cannot join origins {os_} (line {getattr(e, "lineno", 0)})')

    def class_of(self, e: ast.expr) -> str:
        if isinstance(e, ast.Name):
            return self.cls.get(e.id, '?')
        if isinstance(e, ast.Attribute):
            c = self.class_of(e.value)
            return ELEM_CLASS.get((c, e.attr), '?')
        if isinstance(e, ast.Subscript):
            return self.class_of(e.value)
        return '?'

    def call(self, e: ast.Call) -> str:
        f = e.func
        fname = ast.unparse(f)
        argo = [self.org(a) for a in e.args] + [self.org(k.value) for k in e.keywords]
        if isinstance(f, ast.Attribute):
            ro = self.org(f.value)
            m = f.attr
            if ro == 'template' or (isinstance(f.value, ast.Name) and f.value.id == 'file'):
                if m in MUTATORS:
                    # a known mutator applied to a template object: a WRITE site with origin template (the census
                    # obligation collapse_never_writes_template reports it)
                    self.sites.append((e.lineno, 'WRITE', 'template', fname + '(...)'))
                    return 'scalar'
                if m not in READ_ONLY_METHODS:
                    raise TranslateError(f'collapse_one: method `{m}` called on a template object is not known to be read-only (line {e.lineno})')
                if m == 'copy':
                    c = self.class_of(f.value)
                    flags = ', '.join(f'{k.arg}={ast.unparse(k.value)}' for k in e.keywords)
                    self.sites.append((e.lineno, 'COPY', c, f'{ast.unparse(f.value)}.copy({flags})'))
                    return 'copy'
                return 'scalar' if m in ('casefold', 'get', 'is_brush', 'startswith', 'endswith', 'lower', 'upper') else 'template'
            if m in MUTATORS:
                self.sites.append((e.lineno, 'WRITE', ro, fname + '(...)'))
                if ro not in ('local',) or (isinstance(f.value, ast.Name) and f.value.id in self.elems):
                    for a, o in zip(list(e.args) + [k.value for k in e.keywords], argo):
                        if isinstance(f.value, ast.Name) and f.value.id in self.elems:
                            self.elems[f.value.id].add(o)
                        elif m not in ('localise', 'translate', 'remove', 'discard', 'pop'):
                            self.sites.append((e.lineno, 'ENTER', o, f'{ast.unparse(a)[:50]} -> {fname}'))
                return 'scalar'
            if 'template' in argo and fname not in PURE_FUNCS:
                raise TranslateError(f'collapse_one: template object passed to `{fname}` (line {e.lineno})')
            if m == 'copy':
                return 'copy' if ro == 'copy' else 'fresh'
            if m in ('items', 'values', 'keys'):
                return ro
            return 'fresh' if ro not in ('scalar',) else 'scalar'
        if isinstance(f, ast.Name):
            if f.id == 'setattr' and e.args:
                self.sites.append((e.lineno, 'WRITE', argo[0], f'setattr({ast.unparse(e.args[0])}, ...)'))
                if len(argo) > 2:
                    self.sites.append((e.lineno, 'ENTER', argo[2], f'{ast.unparse(e.args[2])[:40]} -> setattr'))
                return 'scalar'
            if 'template' in argo:
                if f.id not in PURE_FUNCS:
                    raise TranslateError(f'collapse_one: template object passed to `{f.id}` (line {e.lineno})')
                return 'template' if f.id in ('zip', 'list', 'sorted', 'enumerate', 'tuple', 'iter') else 'scalar'
            if f.id in ('zip', 'list', 'sorted', 'enumerate', 'tuple', 'iter'):
                return self.join(set(argo) or {'fresh'}, e)
            return 'fresh'
        return 'fresh'

    # ------------------------------------------------------------------ binding
    def bind_loop(self, target: ast.expr, it: ast.expr) -> None:
        o = self.org(it)
        if isinstance(it, ast.Name) and it.id in self.elems:
            o = self.join(self.elems[it.id] or {'fresh'}, it)        # elements of a local bookkeeping container
        path = ast.unparse(it)
        if isinstance(target, ast.Name):
            self.env[target.id] = o
            if o == 'template':
                c = TEMPLATE_PATHS.get(path) or ELEM_CLASS.get((self.class_of(it.value), it.attr) if isinstance(it, ast.Attribute) else ('', ''), '?')
                if isinstance(it, ast.Attribute) and self.org(it.value) == 'template' and path not in TEMPLATE_PATHS:
                    # iterating a container field of a template object: elements are ints for KCont false
                    cc = self.class_of(it.value)
                    if cc in self.classes and it.attr in self.classes[cc].fields and \
                            kind_of(cc, it.attr, self.classes[cc].ann.get(it.attr)) == 'KCont false':
                        self.env[target.id] = 'scalar'
                        return
                if c == '?':
                    raise TranslateError(f'collapse_one: class of the elements of `{path}` unknown (line {it.lineno})')
                self.cls[target.id] = c
            return
        if isinstance(target, ast.Tuple):
            if isinstance(it, ast.Call) and ast.unparse(it.func) == 'zip' and len(it.args) == len(target.elts):
                for t, a in zip(target.elts, it.args):
                    self.bind_loop(t, a)
                return
            if isinstance(it, ast.Call) and isinstance(it.func, ast.Attribute) and it.func.attr == 'items' or \
                    (isinstance(it, ast.Call) and ast.unparse(it.func) == 'list' and it.args and isinstance(it.args[0], ast.Call)
                     and isinstance(it.args[0].func, ast.Attribute) and it.args[0].func.attr == 'items'):
                for t in target.elts:       # Entity / EntityFixup items(): strings
                    if isinstance(t, ast.Name):
                        self.env[t.id] = 'scalar'
                return
            raise TranslateError(f'collapse_one: unrecognised tuple loop over `{path}` (line {it.lineno})')
        raise TranslateError(f'collapse_one: unrecognised loop target (line {it.lineno})')

    def assign(self, target: ast.expr, value: ast.expr, vo: str, line: int) -> None:
        if isinstance(target, ast.Name):
            if isinstance(value, (ast.Dict, ast.List)) and not (value.keys if isinstance(value, ast.Dict) else value.elts):
                self.env[target.id] = 'local'
                self.elems[target.id] = set()
                return
            self.env[target.id] = vo
            if vo == 'template':
                path = ast.unparse(value.value) if isinstance(value, ast.Subscript) else ast.unparse(value)
                c = TEMPLATE_PATHS.get(path, self.class_of(value))
                if c == '?':
                    raise TranslateError(f'collapse_one: class of template value `{ast.unparse(value)}` unknown (line {line})')
                self.cls[target.id] = c
            return
        if isinstance(target, ast.Tuple):
            if vo == 'template' and isinstance(value, ast.Subscript) and ast.unparse(value.value) == 'file.proxy_outputs' \
                    and len(target.elts) == 2:
                self.env[target.elts[0].id] = 'scalar'       # type: ignore[attr-defined]
                self.env[target.elts[1].id] = 'template'     # type: ignore[attr-defined]
                self.cls[target.elts[1].id] = 'Output'       # type: ignore[attr-defined]
                return
            for t in target.elts:
                self.assign(t, value, vo if vo != 'template' else self.fail(line), line)
            return
        if isinstance(target, (ast.Attribute, ast.Subscript)):
            base = target.value
            if isinstance(base, ast.Name) and base.id in self.elems and isinstance(target, ast.Subscript):
                self.elems[base.id].add(vo)
                self.sites.append((line, 'WRITE', 'local', ast.unparse(target)[:50]))
                return
            bo = self.org(base)
            self.sites.append((line, 'WRITE', bo, ast.unparse(target)[:50]))
            self.sites.append((line, 'ENTER', vo, f'{ast.unparse(value)[:40]} -> {ast.unparse(target)[:40]}'))
            return
        raise TranslateError(f'collapse_one: unrecognised assignment target (line {line})')

    def fail(self, line: int) -> str:
        raise TranslateError(f'collapse_one: template tuple unpacked in an unknown way (line {line})')

    # ------------------------------------------------------------------ statements
    def block(self, body: list[ast.stmt]) -> None:
        for st in body:
            self.stmt(st)

    def stmt(self, st: ast.stmt) -> None:
        if isinstance(st, ast.Expr):
            if isinstance(st.value, ast.Constant):
                return
            self.org(st.value)
        elif isinstance(st, ast.Assign):
            vo = self.org(st.value)
            for t in st.targets:
                self.assign(t, st.value, vo, st.lineno)
        elif isinstance(st, ast.AnnAssign):
            if st.value is not None:
                self.assign(st.target, st.value, self.org(st.value), st.lineno)
        elif isinstance(st, ast.AugAssign):
            vo = self.org(st.value)
            if isinstance(st.target, ast.Name):
                to = self.env.get(st.target.id, 'scalar')
                if to != 'scalar':
                    self.sites.append((st.lineno, 'WRITE', to, ast.unparse(st)[:50]))
            else:
                self.sites.append((st.lineno, 'WRITE', self.org(st.target.value), ast.unparse(st.target)[:50]))  # type: ignore[attr-defined]
                self.sites.append((st.lineno, 'ENTER', vo if vo != 'fresh' else 'scalar', ast.unparse(st)[:50]))
        elif isinstance(st, ast.If):
            self.org(st.test)
            self.block(st.body)
            self.block(st.orelse)
        elif isinstance(st, ast.For):
            self.bind_loop(st.target, st.iter)
            self.block(st.body)
            self.block(st.orelse)
        elif isinstance(st, ast.Try):
            self.block(st.body)
            for h in st.handlers:
                self.block(h.body)
            self.block(st.orelse)
            self.block(st.finalbody)
        elif isinstance(st, (ast.Continue, ast.Break, ast.Pass, ast.Return, ast.Raise)):
            if isinstance(st, ast.Return) and st.value is not None:
                self.org(st.value)
        else:
            raise TranslateError(f'collapse_one: unsupported statement {type(st).__name__} (line {st.lineno})')


def check_combine_pure(vtree: ast.Module) -> None:
    """Output.combine(first, second) is passed a template Output: it must not store into its parameters."""
    fn = None
    for n in _find_class(vtree, 'Output').body:
        if isinstance(n, ast.FunctionDef) and n.name == 'combine':
            fn = n
    if fn is None:
        raise TranslateError('Output.combine not found')
    params = {a.arg for a in fn.args.args[1:]}
    for n in ast.walk(fn):
        tg: list[ast.expr] = []
        if isinstance(n, ast.Assign):
            tg = list(n.targets)
        elif isinstance(n, (ast.AugAssign, ast.AnnAssign)):
            tg = [n.target]
        for t in tg:
            for x in ast.walk(t):
                if isinstance(x, ast.Name) and x.id in params and not isinstance(t, ast.Name):
                    raise TranslateError(f'Output.combine stores into its parameter `{x.id}` (line {n.lineno})')
        if isinstance(n, ast.Call) and isinstance(n.func, ast.Attribute) and isinstance(n.func.value, ast.Name) \
                and n.func.value.id in params and n.func.attr in MUTATORS:
            raise TranslateError(f'Output.combine calls `{n.func.attr}` on its parameter (line {n.lineno})')


def from_entity_census(itree: ast.Module, vtree: ast.Module, classes: dict[str, ClassInfo]) -> list[tuple[str, str, str]]:
    """Round 5: `Instance.from_entity(ent)` — what of the func_instance ENTITY reaches the Instance it builds.  Per
    constructor parameter / attribute stored afterwards: (name, origin, source text) with origin
      scalar    a string / number / enum / tuple read from the entity (ent[...], getattr(ent, NAME, const))
      fresh     built here from scalars (Vec.from_str, Matrix.from_angstr)
      copy      `ent.fixup.copy_values()` when the copy census of copy_values is deep; `[o.copy() for o in ent.outputs]`
      template  the entity's own mutable object or a container of its own objects (`ent.outputs`, `ent.fixup`, ...)
    Fail-closed for anything else."""
    from translate.c09_copy import CopyAnalysis
    cls = _find_class(itree, 'Instance')
    fns = [n for n in cls.body if isinstance(n, ast.FunctionDef) and n.name == 'from_entity']
    inits = [n for n in cls.body if isinstance(n, ast.FunctionDef) and n.name == '__init__']
    if len(fns) != 1 or len(inits) != 1:
        raise TranslateError('Instance.from_entity / __init__: expected one definition each')
    fn, init = fns[0], inits[0]
    if [a.arg for a in fn.args.args] != ['cls', 'ent'] or fn.args.vararg or fn.args.kwarg or fn.args.kwonlyargs:
        raise TranslateError('Instance.from_entity: unexpected signature')
    an = CopyAnalysis(vtree, classes)
    an.analyse_copy_values()
    binds: dict[str, list[ast.expr]] = {}
    ctor: list[tuple[str, ast.Call]] = []
    post: list[tuple[str, ast.expr]] = []

    def scan(body: list[ast.stmt]) -> None:
        for st in body:
            if isinstance(st, ast.Expr):
                if isinstance(st.value, ast.Constant) or (isinstance(st.value, ast.Call) and ast.unparse(st.value.func).startswith('LOGGER.')):
                    continue
                raise TranslateError(f'Instance.from_entity: unrecognised statement `{ast.unparse(st)[:60]}`')
            if isinstance(st, ast.Assign) and len(st.targets) == 1:
                t = st.targets[0]
                if isinstance(t, ast.Name):
                    if isinstance(st.value, ast.Call) and isinstance(st.value.func, ast.Name) and st.value.func.id in ('cls', 'Instance'):
                        ctor.append((t.id, st.value))
                    else:
                        binds.setdefault(t.id, []).append(st.value)
                    continue
                if isinstance(t, ast.Attribute) and isinstance(t.value, ast.Name) and ctor and t.value.id == ctor[0][0]:
                    post.append((t.attr, st.value))
                    continue
                raise TranslateError(f'Instance.from_entity: unrecognised store `{ast.unparse(st)[:60]}`')
            if isinstance(st, ast.Try):
                scan(st.body)
                for h in st.handlers:
                    scan(h.body)
                scan(st.orelse)
                scan(st.finalbody)
                continue
            if isinstance(st, ast.If):
                scan(st.body)
                scan(st.orelse)
                continue
            if isinstance(st, ast.Return) and isinstance(st.value, ast.Name) and ctor and st.value.id == ctor[0][0]:
                continue
            raise TranslateError(f'Instance.from_entity: unrecognised statement `{ast.unparse(st)[:60]}`')
    scan(fn.body)
    if len(ctor) != 1:
        raise TranslateError(f'Instance.from_entity: expected one constructor call, found {len(ctor)}')
    order = ['scalar', 'fresh', 'copy', 'template']

    def worst(xs: list[str]) -> str:
        return max(xs, key=order.index) if xs else 'scalar'

    def origin(e: ast.expr, depth: int = 0) -> str:
        if depth > 6:
            raise TranslateError('Instance.from_entity: local chain too deep')
        if isinstance(e, ast.Constant):
            return 'scalar'
        if isinstance(e, ast.Name):
            if e.id in binds:
                return worst([origin(b, depth + 1) for b in binds[e.id]])
            if e.id == 'ent':
                return 'template'
            raise TranslateError(f'Instance.from_entity: unknown name `{e.id}`')
        if isinstance(e, ast.Attribute) and isinstance(e.value, ast.Name) and e.value.id in ('FixupStyle', 'ValueTypes'):
            return 'scalar'                                   # enum member
        if isinstance(e, ast.Subscript) and isinstance(e.value, ast.Name) and e.value.id == 'ent':
            return 'scalar'                                   # ent['key'] / ent['key', default]: a string
        if isinstance(e, ast.Call):
            f = ast.unparse(e.func)
            if f == 'getattr' and len(e.args) == 3 and isinstance(e.args[0], ast.Name) and e.args[0].id == 'ent' \
                    and isinstance(e.args[2], (ast.Constant, ast.Tuple)) and not (isinstance(e.args[2], ast.Tuple) and e.args[2].elts):
                return 'scalar'                               # bookkeeping attributes set by collapse_all: an int / a tuple of str
            if f in ('Vec.from_str', 'Matrix.from_angstr', 'Angle.from_str', 'FixupStyle', 'int', 'str', 'float'):
                inner = worst([origin(a, depth + 1) for a in e.args])
                if inner == 'scalar':
                    return 'fresh' if '.' in f else 'scalar'
                raise TranslateError(f'Instance.from_entity: `{ast.unparse(e)[:60]}` is built from a non-scalar')
            if f == 'ent.fixup.copy_values' and not e.args and not e.keywords:
                return 'copy' if an.copy_values_how == 'deep' else 'template'
            if f in ('list', 'tuple', 'set') and len(e.args) == 1:
                return origin(e.args[0], depth + 1)           # a new container of the same elements
        if isinstance(e, ast.ListComp) and len(e.generators) == 1 and ast.unparse(e.generators[0].iter) == 'ent.outputs' \
                and isinstance(e.generators[0].target, ast.Name) and not e.generators[0].ifs \
                and ast.unparse(e.elt) == f'{e.generators[0].target.id}.copy()':
            return 'copy'
        if any(isinstance(n, ast.Name) and n.id == 'ent' for n in ast.walk(e)):
            if isinstance(e, ast.Attribute) or (isinstance(e, ast.Call) and isinstance(e.func, ast.Attribute)):
                return 'template'                             # ent.outputs, ent.fixup, ent.fixup._fixup.values(), ent.solids ...
        raise TranslateError(f'Instance.from_entity: unrecognised argument `{ast.unparse(e)[:60]}`')

    a = init.args
    if a.vararg or a.kwarg or a.posonlyargs:
        raise TranslateError('Instance.__init__: *args / **kwargs')
    params = [x.arg for x in a.args[1:]]
    call = ctor[0][1]
    bound: dict[str, ast.expr] = {}
    for p_, x in zip(params, call.args):
        if isinstance(x, ast.Starred):
            raise TranslateError('Instance.from_entity: *args in the constructor call')
        bound[p_] = x
    if len(call.args) > len(params):
        raise TranslateError('Instance.from_entity: too many positional arguments')
    for kw in call.keywords:
        if kw.arg is None or kw.arg in bound or kw.arg not in params + [x.arg for x in a.kwonlyargs]:
            raise TranslateError(f'Instance.from_entity: bad keyword {kw.arg}')
        bound[kw.arg] = kw.value
    rows = [(p_, origin(x), ast.unparse(x)) for p_, x in bound.items()]
    rows += [(f'.{f}', origin(x), ast.unparse(x)) for f, x in post]
    return rows



def translate() -> tuple[str, dict]:
    itree = ast.parse(src_text('instancing.py'))
    vtree = ast.parse(src_text('vmf.py'))
    classes = {n: ClassInfo(_find_class(vtree, n), module=vtree) for n in VMF_CLASSES}
    fns = [n for n in itree.body if isinstance(n, ast.FunctionDef) and n.name == 'collapse_one'
           and not any(ast.unparse(d).startswith(('overload', 'deprecated')) for d in n.decorator_list)]
    if len(fns) != 1:
        raise TranslateError(f'collapse_one: expected one implementation, found {len(fns)}')
    check_combine_pure(vtree)
    c = Collapse(fns[0], classes, vtree)
    c.block(fns[0].body)
    copies = [s for s in c.sites if s[1] == 'COPY']
    if {s[2] for s in copies} != {'VisGroup', 'Solid', 'Entity'}:
        raise TranslateError(f'collapse_one: expected copies of VisGroup, Solid and Entity, found {sorted({s[2] for s in copies})}')
    tag = {'template': 'CTemplate', 'copy': 'CCopy', 'fresh': 'CFresh', 'target': 'CTarget', 'inst': 'CInst', 'local': 'CLocal',
           'scalar': 'CScalar'}
    q = lambda s: '"' + s.replace('"', "'").replace('\\', '/') + '"'
    lines = ['(* GENERATED by translate/c09_collapse.py from /repo/src/srctools/instancing.py. Do not edit. *)',
             'From Coq Require Import List String.', 'From SV Require Import SM.CollapseCensus.',
             'Import ListNotations.', 'Open Scope string_scope.', '',
             'Definition collapse_writes : list (string * corigin) := [']
    lines.append(';\n'.join(f'  ({q(f"{ln}: {txt}")}, {tag[o]})' for ln, k, o, txt in c.sites if k == 'WRITE'))
    lines += ['].', 'Definition collapse_enters : list (string * corigin) := [']
    lines.append(';\n'.join(f'  ({q(f"{ln}: {txt}")}, {tag[o]})' for ln, k, o, txt in c.sites if k == 'ENTER'))
    lines += ['].', 'Definition collapse_copies : list (string * string) := [']
    lines.append(';\n'.join(f'  ({q(f"{ln}: {txt}")}, {q(cl)})' for ln, k, cl, txt in copies))
    lines += ['].', 'Definition instance_from_entity : list (string * corigin) := [']
    fe = from_entity_census(itree, vtree, classes)
    lines.append(';\n'.join(f'  ({q(nm)}, {tag[o]})' for nm, o, _t in fe))
    lines += ['].', '']
    side = {'from_entity': [list(r) for r in fe],'writes': [[ln, o, t] for ln, k, o, t in c.sites if k == 'WRITE'],
            'enters': [[ln, o, t] for ln, k, o, t in c.sites if k == 'ENTER'],
            'copies': [[ln, cl, t] for ln, k, cl, t in copies],
            'template_reads': sorted({(cl, a, k) for _ln, cl, a, k in c.reads}),
            'n_sites': len(c.sites)}
    return '\n'.join(lines) + '\n', side


GEN = {'C09Collapse_gen': translate}
